"""The reader (fparser.common.readfortran) decided by interpretation on generated layouts.

`FortranStringReader` / `FortranFileReader`, the item classes, `sourceinfo` and `splitline` are interpreted from their ASTs (never
imported, never run) on small sources that this module *generates* from a list of logical statements and a layout: since the layout
is ours, the items the reader has to deliver (text, label, construct name, first/last physical line, comments in place) are known by
construction.  What `sa/pureeval` cannot interpret is reported as undetermined / analysis error, never as a finding.

The object model is the one of rules/one_roundtrip.py in small: instances with a class, attributes through the MRO, properties,
static/class methods, zero-argument and two-argument super(), a deque, a string source and a virtual file system (for INCLUDE).
"""
import ast
import re

from sa import astutil as A
from sa import pureeval as PE
from sa.report import RuleResult

RF = "fparser.common.readfortran"
SI = "fparser.common.sourceinfo"
SL = "fparser.common.splitline"
MODS = (SL, SI, RF)


class HString(str):
    pass


class HParenString(str):
    pass


class Deque(PE.Obj):
    """collections.deque, as far as the reader uses it"""

    def __init__(self, init=()):
        self.items = list(init)
        PE.Obj.__init__(self, {"append": self.items.append, "appendleft": lambda x: self.items.insert(0, x), "popleft": self._popleft,
                               "pop": self._pop, "extend": self.items.extend, "extendleft": self._extendleft, "clear": self.items.clear,
                               "insert": self.items.insert, "remove": self.items.remove, "copy": lambda: Deque(self.items),
                               "rotate": self._rotate, "reverse": self.items.reverse, "index": self.items.index,
                               "count": self.items.count})

    def _popleft(self):
        if not self.items:
            raise PE.PyRaise("IndexError", "pop from an empty deque")
        return self.items.pop(0)

    def _pop(self):
        if not self.items:
            raise PE.PyRaise("IndexError", "pop from an empty deque")
        return self.items.pop()

    def _extendleft(self, xs):
        for x in xs:
            self.items.insert(0, x)

    def _rotate(self, n=1):
        if self.items:
            n %= len(self.items)
            self.items[:] = self.items[-n:] + self.items[:-n]

    def __len__(self):
        return len(self.items)

    def __iter__(self):
        return iter(list(self.items))

    def __getitem__(self, i):
        try:
            return self.items[i]
        except IndexError:
            raise PE.PyRaise("IndexError", "deque index out of range")

    def __setitem__(self, i, v):
        self.items[i] = v

    def __bool__(self):
        return bool(self.items)


class TextFile(PE.Obj):
    """a StringIO / an open text file: iteration yields the lines with their newline; read/seek/tell"""

    def __init__(self, text, name=None, world=None):
        self.text = text
        self.pos = 0
        self.closed = False
        fields = {"read": self._read, "tell": lambda: self.pos, "seek": self._seek, "close": self._close, "readline": self._readline,
                  "readlines": self._readlines, "__enter__": lambda: self, "closed": False}
        if name is not None:
            fields["name"] = name
        PE.Obj.__init__(self, fields)

    def _read(self, size=-1):
        if size is None or size < 0:
            out = self.text[self.pos:]
        else:
            out = self.text[self.pos:self.pos + size]
        self.pos += len(out)
        return out

    def _seek(self, p, whence=0):
        self.pos = p
        return p

    def _close(self):
        self.closed = True
        self.fields["closed"] = True

    def _readline(self):
        if self.pos >= len(self.text):
            return ""
        j = self.text.find("\n", self.pos)
        j = len(self.text) if j == -1 else j + 1
        out = self.text[self.pos:j]
        self.pos = j
        return out

    def _readlines(self):
        out = []
        while True:
            l = self._readline()
            if not l:
                return out
            out.append(l)

    def __iter__(self):
        return self

    def __next__(self):
        if self.closed:
            raise PE.PyRaise("ValueError", "I/O operation on closed file")
        l = self._readline()
        if not l:
            raise StopIteration
        return l


class ClassRef(PE.Obj):
    def __init__(self, world, key):
        PE.Obj.__init__(self, {})
        self.world = world
        self.key = key

    def get(self, ev, name):
        if name == "__name__":
            return self.key.split(":")[1]
        return self.world.class_attr(self.key, name)

    def same_object(self, other):
        """`cls is other_cls` in interpreted code: one class, however many references the evaluator made"""
        return isinstance(other, ClassRef) and other.key == self.key and other.world is self.world

    def __call__(self, *args, **kw):
        inst = Inst(self.world, self.key, {})
        init = self.world.class_attr(self.key, "__init__", bind=inst, default=None)
        if init is not None:
            init(*args, **kw)
        elif args or kw:
            if not self.world.is_exception(self.key):
                raise PE.PyRaise("TypeError", "%s() takes no arguments" % self.key.split(":")[1])
            inst.fields["args"] = tuple(args)
        return inst

    def __repr__(self):
        return "<class %s>" % self.key.split(":")[1]

    def __eq__(self, other):
        return isinstance(other, ClassRef) and other.key == self.key

    def __hash__(self):
        return hash(self.key)


class Inst(PE.Obj):
    def __init__(self, world, key, fields):
        PE.Obj.__init__(self, fields)
        self.world = world
        self.key = key

    def get(self, ev, name):
        if name in self.fields:
            return self.fields[name]
        if name == "__class__":
            return ClassRef(self.world, self.key)
        if name == "__dict__":
            return self.fields
        return self.world.class_attr(self.key, name, bind=self)

    def set_attr(self, ev, name, value):
        setter = self.world.find_setter(self.key, name)
        if setter is not None:
            kk, b = setter
            ev.run_function(b, [self, value])
            return
        self.fields[name] = value

    def __repr__(self):
        w = self.world
        try:
            f = w.class_attr(self.key, "__repr__", bind=self, default=None)
            if f is not None and w.depth < 5:
                w.depth += 1
                try:
                    return str(f())
                finally:
                    w.depth -= 1
        except (PE.Unsupported, PE.PyRaise):
            pass
        return "<%s>" % self.key.split(":")[1]

    def __str__(self):
        w = self.world
        try:
            f = w.class_attr(self.key, "__str__", bind=self, default=None)
            if f is not None and w.depth < 5:
                w.depth += 1
                try:
                    return str(f())
                finally:
                    w.depth -= 1
        except (PE.Unsupported, PE.PyRaise):
            pass
        return repr(self)


class SuperProxy(PE.Obj):
    def __init__(self, world, after_key, inst):
        PE.Obj.__init__(self, {})
        self.world, self.after, self.inst = world, after_key, inst

    def get(self, ev, name):
        return self.world.class_attr(self.inst.key, name, bind=self.inst, after=self.after)


_MISSING = object()


class World:
    """the names the three modules see, with every class and function interpreted on demand"""

    def __init__(self, m, files=None, mods=None):
        self.m = m
        self.files = dict(files or {})       # virtual file system: path -> text
        self.depth = 0
        self.log = []
        self.exited = False
        self.ev = PE.Evaluator({}, max_steps=3000000)
        g = self.ev.g
        MODS = tuple(mods) if mods else globals()["MODS"]
        for mod in MODS:
            if mod not in m.modfile:
                raise PE.Unsupported("module %s vanished" % mod)
            for name, val in PE.module_regexes(m, mod).items():
                g.setdefault(name, val)
        self.funcs = {}
        for mod in MODS:
            path = m.modfile[mod]
            for (p_, q), f in m.funcs.items():
                if p_ == path and "." not in q:
                    fn = (lambda fi: (lambda *a, **k: self.ev.run_function(fi.node, list(a), k)))(f)
                    g[q] = fn
                    self.funcs[(mod, q)] = fn
        self.classes = {}
        for mod in MODS:
            for k, c in m.classes.items():
                if c["module"] == mod:
                    self.classes[c["name"]] = k
                    g[c["name"]] = ClassRef(self, k)
        # str / dict subclasses stay host types (their instances must behave like str / dict in every host operation)
        g["String"] = HString
        g["ParenString"] = HParenString
        srd_key = self.classes.get("StringReplaceDict")
        if srd_key is not None:
            # a dict in every host operation; __call__ and whatever else the class defines is interpreted from its source
            g["StringReplaceDict"] = PE.host_subclass(self.ev, m.classdef(srd_key), dict, "SRD")
        noop = lambda *a, **k: None

        def logger_for(level):
            return lambda msg, *a, **k: self.log.append((level, str(msg)))
        logger = PE.Obj({lv: logger_for(lv) for lv in ("warning", "error", "info", "debug", "critical")})
        logger.fields["log"] = noop
        g["logging"] = PE.Obj({"getLogger": lambda *a, **k: logger, "warning": logger_for("warning"), "error": logger_for("error"),
                               "info": logger_for("info"), "debug": logger_for("debug")})
        g["__name__"] = RF
        g["traceback"] = PE.Obj({"format_stack": lambda *a, **k: [], "format_exc": lambda *a, **k: ""})

        def _exit(*a):
            self.exited = True
            raise PE.PyRaise("SystemExit", "exit")
        g["sys"] = PE.Obj({"exit": _exit, "stderr": PE.Obj({"write": noop}), "stdout": PE.Obj({"write": noop})})
        g["deque"] = Deque
        g["StringIO"] = lambda text="": TextFile(text)
        g["open"] = self._open
        g["os"] = PE.Obj({"path": PE.Obj({"join": self._join, "exists": lambda p: p in self.files or self._isdir(p),
                                         "isfile": lambda p: p in self.files, "isdir": self._isdir, "dirname": self._dirname,
                                         "splitext": self._splitext, "basename": lambda p: p.rsplit("/", 1)[-1],
                                         "abspath": lambda p: p})})
        g["re"] = PE.Obj({"match": re.match, "search": re.search, "compile": re.compile, "sub": re.sub, "split": re.split,
                          "findall": re.findall, "I": re.I, "IGNORECASE": re.I, "escape": re.escape, "fullmatch": re.fullmatch})
        g["hash"] = lambda x: 12345
        g["id"] = lambda x: 54321
        g["next"] = self._next
        g["iter"] = self._iter
        g["isinstance"] = self._isinstance
        g["hasattr"] = self._hasattr
        g["getattr"] = self._getattr
        g["setattr"] = lambda o, n, v: o.set_attr(self.ev, n, v) if hasattr(o, "set_attr") else o.fields.__setitem__(n, v)
        g["super"] = lambda *a: (_ for _ in ()).throw(PE.Unsupported("super() outside a method"))
        g["type"] = lambda o: ClassRef(self, o.key) if isinstance(o, Inst) else type(o)
        g["print"] = noop
        g["Optional"] = g["Tuple"] = g["List"] = None
        sinfo = PE.Obj({n: g[n] for n in ("FortranFormat", "get_source_info_str", "get_source_info") if n in g})
        g["fparser"] = PE.Obj({"common": PE.Obj({"sourceinfo": sinfo})})
        for exc in ("Exception", "ValueError", "TypeError", "NotImplementedError", "IndexError", "KeyError", "StopIteration",
                    "AttributeError", "IOError", "OSError", "RuntimeError", "AssertionError"):
            g[exc] = exc

    # ---------------------------------------------------------------- virtual file system
    def _join(self, *parts):
        out = ""
        for p in parts:
            if p.startswith("/") or not out:
                out = p
            else:
                out = out.rstrip("/") + "/" + p
        return out

    def _norm(self, p):
        while p.startswith("./"):
            p = p[2:]
        return p

    def _isdir(self, p):
        p = p.rstrip("/")
        return p in ("", ".") or any(f.startswith(p + "/") for f in self.files)

    def _dirname(self, p):
        return p.rsplit("/", 1)[0] if "/" in p else ""

    def _splitext(self, p):
        base = p.rsplit("/", 1)[-1]
        if "." in base.lstrip("."):
            i = p.rfind(".")
            return p[:i], p[i:]
        return p, ""

    def _open(self, path, mode="r", **kw):
        if path not in self.files:
            raise PE.PyRaise("FileNotFoundError", path)
        return TextFile(self.files[path], name=path)

    # ---------------------------------------------------------------- builtins over the model
    def _next(self, it, *default):
        try:
            return next(it)
        except StopIteration:
            if default:
                return default[0]
            raise PE.PyRaise("StopIteration")
        except TypeError:
            if isinstance(it, Inst):
                return it.get(self.ev, "__next__")()
            raise PE.Unsupported("next() on %s" % type(it).__name__)

    def _iter(self, x):
        if isinstance(x, Inst):
            return x.get(self.ev, "__iter__")()
        return iter(x)

    def is_exception(self, key):
        return any(b in ("Exception", "BaseException") or str(b).endswith(":Exception") for b in self.m.classes[key]["mro"]) \
            or any(isinstance(b, ast.Name) and b.id in ("Exception", "ValueError", "RuntimeError")
                   for kk in self.m.classes[key]["mro"] if kk in self.m.classes and self.m.classdef(kk) is not None
                   for b in self.m.classdef(kk).bases)

    def _isinstance(self, obj, cls):
        cs = cls if isinstance(cls, tuple) else (cls,)
        for c in cs:
            if isinstance(c, ClassRef):
                if isinstance(obj, Inst) and self.m.issub(obj.key, c.key):
                    return True
            elif isinstance(c, type):
                if isinstance(obj, c) and not (isinstance(obj, PE.Obj) and c in (object,)):
                    return True
            elif isinstance(c, str):          # a builtin exception name
                continue
            else:
                raise PE.Unsupported("isinstance on %r" % (c,))
        return False

    def _hasattr(self, obj, name):
        if isinstance(obj, PE.Obj):
            try:
                obj.get(self.ev, name)
                return True
            except PE.Unsupported:
                return False
        return hasattr(obj, name)

    def _getattr(self, obj, name, *default):
        if isinstance(obj, PE.Obj):
            try:
                return obj.get(self.ev, name)
            except PE.Unsupported:
                if default:
                    return default[0]
                raise PE.PyRaise("AttributeError", name)
        if isinstance(obj, str) and name in PE.STR_METHODS:
            return getattr(obj, name)
        raise PE.Unsupported("getattr on %s" % type(obj).__name__)

    # ---------------------------------------------------------------- classes
    def _method(self, kk, b, bind, key):
        inst_cls = ClassRef(self, kk)

        def env0(self_obj):
            def sup(*a):
                if len(a) == 2:
                    if not isinstance(a[0], ClassRef):
                        raise PE.Unsupported("super(x, y) with a non-class")
                    return SuperProxy(self, a[0].key, a[1])
                if self_obj is None:
                    raise PE.Unsupported("super() without an instance")
                return SuperProxy(self, kk, self_obj)
            return {"super": sup, "__class__": inst_cls}
        deco = [A.text(d) for d in b.decorator_list]
        run = self.ev.run_function
        if "staticmethod" in deco:
            return lambda *a, **k: run(b, list(a), k, env0(None))
        if "classmethod" in deco:
            cref = ClassRef(self, bind.key if isinstance(bind, Inst) else key)
            return lambda *a, **k: run(b, [cref] + list(a), k, env0(None))
        if "property" in deco:
            if bind is None:
                raise PE.Unsupported("property %s read on a class" % b.name)
            return run(b, [bind], None, env0(bind))
        if bind is not None:
            return lambda *a, **k: run(b, [bind] + list(a), k, env0(bind))
        return lambda *a, **k: run(b, list(a), k, env0(a[0] if a and isinstance(a[0], Inst) else None))

    def class_attr(self, key, name, bind=None, after=None, default=_MISSING):
        m = self.m
        mro = [kk for kk in m.classes[key]["mro"]]
        if after is not None:
            if after not in mro:
                raise PE.Unsupported("super(): %s not in the MRO of %s" % (after, key))
            mro = mro[mro.index(after) + 1:]
        for kk in mro:
            cd = m.classdef(kk) if kk in m.classes else None
            if cd is None:
                continue
            for b in cd.body:
                if isinstance(b, ast.FunctionDef) and b.name == name and not any(A.text(d).endswith(".setter") for d in b.decorator_list):
                    return self._method(kk, b, bind, key)
                if isinstance(b, (ast.Assign, ast.AnnAssign)):
                    tg = b.targets if isinstance(b, ast.Assign) else [b.target]
                    if len(tg) == 1 and isinstance(tg[0], ast.Name) and tg[0].id == name and b.value is not None:
                        return self.ev.ev(b.value, {})
        if name == "__init__" and (default is _MISSING) and self.is_exception(key):
            def exc_init(*a, **k):
                if bind is not None:
                    bind.fields["args"] = tuple(a)
            return exc_init
        if default is not _MISSING:
            return default
        raise PE.Unsupported("attribute %s" % name)

    def find_setter(self, key, name):
        m = self.m
        cache = self.__dict__.setdefault("_setters", {})
        if (key, name) in cache:
            return cache[(key, name)]
        found = None
        for kk in m.classes[key]["mro"]:
            cd = m.classdef(kk) if kk in m.classes else None
            if cd is None:
                continue
            for b in cd.body:
                if isinstance(b, ast.FunctionDef) and b.name == name and any(A.text(d) == name + ".setter" for d in b.decorator_list):
                    found = (kk, b)
                    break
            if found:
                break
        cache[(key, name)] = found
        return found

    def call(self, modname, fname, *args, **kw):
        return self.funcs[(modname, fname)](*args, **kw)

    def cls(self, name):
        return ClassRef(self, self.classes[name])


# =====================================================================================================
# running a reader and looking at what it delivers
# =====================================================================================================
def summarise(world, item):
    """(kind, text, span, label, name[, inline]) of a reader item"""
    if item is None:
        return None
    if not isinstance(item, Inst):
        return ("?", repr(item))
    kind = item.key.split(":")[1]
    f = item.fields
    if kind == "Comment":
        return ("Comment", f.get("comment"), tuple(f.get("span") or ()), bool(f.get("inline")))
    if kind in ("Line", "CppDirective", "SyntaxErrorLine"):
        return (kind, f.get("line"), tuple(f.get("span") or ()), f.get("label"), f.get("name"))
    if kind in ("MultiLine", "SyntaxErrorMultiLine"):
        return (kind, (f.get("prefix"), tuple(f.get("block") or ()), f.get("suffix")), tuple(f.get("span") or ()))
    return (kind,)


def make_reader(world, source, mode=None, **opts):
    """a FortranStringReader on `source` (format detected by the reader unless `mode` = 'free' | 'fix' | 'f77' | 'pyf' is given)"""
    rd = world.cls("FortranStringReader")(source, **opts)
    if mode is not None:
        fmt = world.cls("FortranFormat").get(world.ev, "from_mode")(mode)
        rd.get(world.ev, "set_format")(fmt)
    return rd


def read_all(world, reader, limit=400):
    """every item of the reader through next(), as summaries; ends at StopIteration"""
    out = []
    nxt = reader.get(world.ev, "next")
    for _ in range(limit):
        try:
            item = nxt()
        except PE.PyRaise as err:
            if err.exc_type == "StopIteration":
                return out
            raise
        out.append(summarise(world, item))
    raise PE.Unsupported("the reader does not end within %d items" % limit)


# =====================================================================================================
# generated layouts: logical statements -> physical lines + the items a reader has to deliver
# =====================================================================================================
import random

# (label, construct name, text): the statement texts carry what a layout must not disturb -- literals holding '!', '&', ';' and
# quotes, a real with a signed exponent, mixed-case names, parenthesised groups
PROGRAMS = [
    [
        (None, None, "program Main"),
        (None, None, "integer :: Idx, j"),
        (None, None, "character(len=20) :: Str"),
        (None, None, "Str = 'it''s ! not & a comment'"),
        (None, None, "Str = \"it's\" // 'ab ! cd' // \"e'f\""),
        (10, None, "Idx = j + 1"),
        (None, "outer", "do Idx = 1, 10"),
        (None, None, 'print *, "a;b", Idx'),
        (None, None, "j = 2"),
        (20, None, "continue"),
        (None, None, "end do outer"),
        (None, None, "if (Idx > 1) j = 2.5e-3 * Idx"),
        (None, None, "end program Main"),
    ],
    [
        (None, None, "module Mod"),
        (None, None, "implicit none"),
        (None, None, "contains"),
        (None, None, "subroutine Sub(Arg, n)"),
        (None, None, "real, intent(inout) :: Arg(n)"),
        (None, None, "integer :: n"),
        (100, None, "format (1x, 'a&b', \"c!d\")"),
        (None, None, "write (*, 100) Arg(1:n)"),
        (None, None, "call Other(Arg, 'b;c', (n + 1))"),
        (None, "chk", "if (n > 0) then"),
        (None, None, "Arg(1) = Arg(1) ** 2 // 'x'"),
        (None, None, "end if chk"),
        (None, None, "end subroutine Sub"),
        (None, None, "end module Mod"),
    ],
    [
        (None, None, "subroutine Case_It(k, Msg)"),
        (None, None, "integer :: k"),
        (None, None, "character(*) :: Msg"),
        (None, "sel", "select case (k)"),
        (None, None, "case (1)"),
        (None, None, "Msg = \"don't & stop!\""),
        (None, None, "case default"),
        (None, None, "Msg = ''"),
        (None, None, "end select sel"),
        (30, None, "return"),
        (None, None, "end subroutine Case_It"),
    ],
]

# (a BOZ constant b'1010' and a character literal with a kind prefix k_'abc' are one token each, so are the array-constructor
#  brackets: a continuation between their parts is a split *inside* a token, which the layouts make only where they say so)
TOKEN_RE = re.compile(r"(?:\b[bBoOzZ]|\b[A-Za-z]\w*_)?'(?:[^']|'')*'|(?:\b[bBoOzZ]|\b[A-Za-z]\w*_)?\"(?:[^\"]|\"\")*\"|\(/|/\)|\.[A-Za-z]+\.|[A-Za-z_]\w*|\d+\.?\d*(?:[edED][+-]?\d+)?(?:_\w+)?|\*\*|//|==|/=|<=|>=|=>|::|\S")


def squeeze(text):
    """blanks outside character literals removed (a literal is kept character for character)"""
    out, q = [], None
    for ch in text:
        if q:
            out.append(ch)
            if ch == q:
                q = None
        elif ch in "'\"":
            q = ch
            out.append(ch)
        elif ch != " ":
            out.append(ch)
    return "".join(out)


def token_boundaries(text):
    """offsets at which the text may be cut between two tokens"""
    return sorted({mo.start() for mo in TOKEN_RE.finditer(text) if mo.start() > 0})


def in_literal(text, pos):
    """is offset `pos` strictly inside a character literal (between its delimiters)?"""
    for mo in TOKEN_RE.finditer(text):
        if mo.group(0)[0] in "'\"" and mo.start() < pos < mo.end():
            return True
    return False


def head(label, name):
    return ("%d " % label if label is not None else "") + ("%s: " % name if name else "")


class Case:
    def __init__(self, title, lines, items, opts=None, mode=None, files=None, what=None):
        self.title, self.lines, self.items, self.opts, self.mode = title, lines, items, dict(opts or {}), mode
        self.files = files
        self.what = what or title

    @property
    def source(self):
        return "\n".join(self.lines) + "\n"


def L(text, span, label=None, name=None):
    return ("Line", text, tuple(span), label, name)


def Cm(text, lineno, inline=False):
    return ("Comment", text, (lineno, lineno), inline)


def free_layout(stmts, rng, features, first_indent_max=2):
    """render logical statements in free form; `features` is the set of layout devices to use.  Returns (lines, items) with the
    items in delivery order (a statement first, then the comments found inside / behind it)."""
    lines, items = [], []
    i = 0
    first = True
    while i < len(stmts):
        label, name, text = stmts[i]
        # lines in front of the statement
        if "before" in features and rng.random() < 0.4:
            for _ in range(rng.randint(1, 2)):
                if rng.random() < 0.5:
                    c = " " * (rng.randint(6, 9) if "margin" in features else rng.randint(0, 4)) \
                        + rng.choice(["! note %d", "! note %d", "!$omp note %d", "!dir$ note %d", "! see C:\\dir%d\\"]) % len(lines)
                    lines.append(c)
                    items.append(Cm(c.lstrip(), len(lines)))
                else:
                    lines.append("" if rng.random() < 0.7 else "   ")
                    items.append(Cm("", len(lines)))
        indent = " " * (rng.randint(0, 8) if "indent" in features else 0)
        if "margin" in features:
            # a legacy six-blank margin on every line: the only sign of free form is an '&' at the end of a line (blanks may follow)
            indent = " " * rng.randint(6, 9)
        elif first:
            # the first statement starts in columns 1-5 (with a label in front, its text does)
            indent = "" if label is not None else indent[:first_indent_max]
        if not indent and (head(label, name) + text)[0] in "cC*":
            indent = " "          # in column 1 a 'c' could as well open a fixed-form comment: the form detector leaves such lines alone
        # several statements on one line
        if "semicolon" in features and i + 1 < len(stmts) and rng.random() < 0.5:
            group = [stmts[i]]
            while len(group) < 3 and i + len(group) < len(stmts) and rng.random() < 0.6:
                group.append(stmts[i + len(group)])
            sep = rng.choice(["; ", ";", " ; "])
            phys = indent + sep.join(head(lb, nm) + tx for lb, nm, tx in group)
            tail = []
            if "trailing" in features and rng.random() < 0.5:
                phys += " ! after"
                tail.append("! after")
            lines.append(phys)
            n = len(lines)
            for lb, nm, tx in group:
                items.append(L(tx, (n, n), lb, nm))
            for c in tail:
                items.append(Cm(c, n, True))
            i += len(group)
            first = False
            continue
        # continuation lines
        cuts = []
        if "split" in features and (rng.random() < 0.7 or ("margin" in features and i < 2)):
            b = token_boundaries(text)
            if b:
                cuts = sorted(rng.sample(b, min(len(b), rng.randint(1, 3))))
            if (label is not None or name) and "semicolon" not in features and rng.random() < 0.5:
                cuts = sorted(set(cuts) | {0})          # `10 &` / `outer: &` and the statement on the next line
            if "split-both" in features:
                inside = [p for p in range(1, len(text)) if in_literal(text, p)]
                if inside:
                    cuts = sorted(set(cuts) | set(rng.sample(inside, min(len(inside), 2))))
        if "split-token" in features and rng.random() < 0.7 and len(text) > 2:
            cuts = sorted(rng.sample(range(1, len(text)), min(len(text) - 1, rng.randint(1, 2))))
        if "split-literal" in features:
            inside = [p for p in range(1, len(text)) if in_literal(text, p)]
            if inside:
                cuts = sorted(rng.sample(inside, min(len(inside), rng.randint(1, 2))))
                # the places where a reader is most easily confused: directly in front of / behind a '!', '&', ';' or quote in a literal
                hot = [p for p in inside if text[p] in "!&;'\"" or text[p - 1] in "!&;"]
                if hot and rng.random() < 0.7:
                    cuts = sorted(set(cuts[:1]) | {rng.choice(hot)})
        segs, prev = [], 0
        for c in cuts:
            segs.append((prev, c))
            prev = c
        segs.append((prev, len(text)))
        start = len(lines) + 1
        comments = []
        for si, (a, b_) in enumerate(segs):
            seg = text[a:b_]
            exact = ("split-token" in features or "split-literal" in features)
            lead = ""
            if si > 0:
                if exact or in_literal(text, a):
                    lead = "&"                           # inside a token / literal: the text resumes right behind the '&'
                elif "lead" in features and rng.random() < 0.6:
                    lead = rng.choice(["& ", "&"])
            tail_amp = ""
            if si < len(segs) - 1:
                tail_amp = "&" if (exact or in_literal(text, b_)) else rng.choice([" &", "&", " &  "])
                if "margin" in features:
                    tail_amp = tail_amp.rstrip() + "   "
            phys = (indent if si == 0 else " " * (rng.randint(6, 12) if "margin" in features else rng.randint(0, 10))) \
                + (head(label, name) if si == 0 else "") + lead + seg + tail_amp
            if "tabs" in features:
                phys = "\t" + phys.lstrip(" ") if phys.startswith(" ") or si > 0 or True else phys
            if "trailing" in features and rng.random() < 0.4 and not (si < len(segs) - 1 and in_literal(text, b_)):
                c = "! t%d %s" % (si, rng.choice(["", "it's", "'q'", "& x", "; y"]))
                c = c.rstrip()
                phys += " " + c
                comments.append((c, len(lines) + 1, True))
            lines.append(phys)
            last = len(lines)
            if si < len(segs) - 1 and "between" in features and rng.random() < 0.5:
                for _ in range(rng.randint(1, 2)):
                    if rng.random() < 0.6:
                        c = " " * (rng.randint(6, 9) if "margin" in features else rng.randint(0, 6)) \
                            + rng.choice(["! mid %d", "! mid %d", "!$acc mid %d"] + ([] if "margin" in features else ["!$omp mid %d &"])) % len(lines)
                        lines.append(c)
                        comments.append((c.lstrip(), len(lines), False))
                    else:
                        lines.append("")
        items.append(L(text, (start, last), label, name))
        for c, n, inl in comments:
            items.append(Cm(c, n, inl))
        i += 1
        first = False
    return lines, items


def same_stream(got, want, exact_text=False):
    """None when the delivered items are the expected ones, else (index, got item, wanted item, what differs)"""
    for k in range(max(len(got), len(want))):
        g = got[k] if k < len(got) else None
        w = want[k] if k < len(want) else None
        if g is None or w is None:
            return (k, g, w, "the reader delivers %d items, the source holds %d" % (len(got), len(want)))
        if g[0] != w[0]:
            return (k, g, w, "kind of item")
        if g[0] == "Comment":
            if g[1] != w[1]:
                return (k, g, w, "comment text")
            if g[2] != w[2]:
                return (k, g, w, "line numbers of the comment")
            if w[3] is not None and g[3] != w[3]:
                return (k, g, w, "inline flag of the comment")
        else:
            if (g[1] != w[1]) if (exact_text or g[0] == "CppDirective") else (squeeze(g[1] or "") != squeeze(w[1])):
                return (k, g, w, "statement text")
            if g[3] != w[3]:
                return (k, g, w, "statement label")
            if g[4] != w[4]:
                return (k, g, w, "construct name")
            if g[2] != w[2]:
                return (k, g, w, "(first, last) line numbers")
    return None


def run_case(world_factory, case):
    """-> (got items, log)"""
    w = world_factory(case.files)
    rd = make_reader(w, case.source, mode=case.mode, **case.opts)
    got = read_all(w, rd)
    return got, w


FIX_MARKS = ["&", "1", "9", "+", "$", "x", "*", ".", "#", "!", "c"]


def fixed_layout(stmts, rng, features, hidden=None):
    """render logical statements in fixed form (columns 1-5 label, column 6 continuation mark, text from column 7).  `hidden`:
    {statement index: two-character conditional-compilation sentinel} -- the sentinel is written into columns 1-2 of every line of
    that statement (the label then starts in column 3).  Returns (lines, items) and, when `hidden` is given, a third list: the
    items delivered when conditional lines are not enabled (every line of a hidden statement is a comment)."""
    lines, items, off = [], [], []
    for idx, (label, name, text) in enumerate(stmts):
        sentinel = (hidden or {}).get(idx)
        n_items0 = len(items)
        if "before" in features and rng.random() < 0.4:
            for _ in range(rng.randint(1, 2)):
                # (a '!' comment that starts in columns 2-5 is the subject of a case of its own: F67)
                c = rng.choice(["C note %d", "c note %d", "* note %d", "! note %d", "", "C", "*", "      ! note %d"])
                c = c % len(lines) if "%d" in c else c
                lines.append(c)
                items.append(Cm(c, len(lines)))
        off.extend(items[n_items0:])
        n_items0 = len(items)
        width = 5 if sentinel is None else 3
        lab = ""
        if label is not None:
            t = str(label)
            forms = [t.rjust(width), t.ljust(width)] + ([(" " + t).ljust(width)] if len(t) < width else [])
            lab = rng.choice(forms) if "labels" in features else t.rjust(width)
        lab = lab.ljust(width)
        col6 = rng.choice([" ", "0"]) if "zero" in features else " "
        extra = " " * (rng.randint(0, 6) if "indent" in features else 0)
        cuts = []
        if "split" in features and rng.random() < 0.7:
            b = token_boundaries(text)
            if b:
                cuts = sorted(rng.sample(b, min(len(b), rng.randint(1, 3))))
        if "split-both" in features:
            inside = [p for p in range(1, len(text)) if in_literal(text, p) and text[p - 1] not in " &"]
            if inside:
                cuts = sorted(set(cuts) | set(rng.sample(inside, min(len(inside), 2))))
        if "split-literal" in features:
            # the reader drops trailing blanks of a physical line, so a literal is not cut behind a blank
            # (nor behind an '&': a line that ends with '&' is the detector's documented sign of free form)
            inside = [p for p in range(1, len(text)) if in_literal(text, p) and text[p - 1] not in " &"]
            if inside:
                cuts = sorted(rng.sample(inside, min(len(inside), rng.randint(1, 2))))
        segs, prev = [], 0
        for c in cuts:
            segs.append((prev, c))
            prev = c
        segs.append((prev, len(text)))
        start = len(lines) + 1
        comments = []
        phys_all = []
        for si, (a, b_) in enumerate(segs):
            seg = text[a:b_]
            pre = (sentinel or "") + (lab if si == 0 else " " * width)
            mark = col6 if si == 0 else rng.choice(FIX_MARKS)
            cut_in_literal = si > 0 and in_literal(text, a)
            # the reader drops the trailing blanks of a physical line and joins the columns that remain (known F73: a blank that
            # separates two words is then lost), so the continuation line brings the blank itself
            word_gap = si > 0 and text[a - 1] == " "
            phys = pre + mark + ("" if cut_in_literal else (extra if si == 0 else " " * rng.randint(1 if word_gap else 0, 4))) \
                + ((name + ": ") if (si == 0 and name) else "") + seg
            if "trailing" in features and rng.random() < 0.4 and not (si < len(segs) - 1 and in_literal(text, b_)):
                c = "! t%d %s" % (si, rng.choice(["", "it's", "'q'", "; y"]))
                c = c.rstrip()
                phys += " " + c
                comments.append((c, len(lines) + 1, True))
            lines.append(phys)
            phys_all.append((phys, len(lines), False))
            last = len(lines)
            if si < len(segs) - 1 and "between" in features and rng.random() < 0.5:
                for _ in range(rng.randint(1, 2)):
                    c = rng.choice(["C mid", "* mid", "! mid", ""])
                    lines.append(c)
                    comments.append((c, len(lines), False))
                    phys_all.append((c, len(lines), False))
        items.append(L(text, (start, last), label, name))
        for c, n, inl in comments:
            items.append(Cm(c, n, inl))
        if sentinel is None:
            off.extend(items[n_items0:])
        else:
            off.extend(Cm(c.rstrip(), n, False) for c, n, _ in phys_all)
    if hidden is not None:
        return lines, items, off
    return lines, items


def omp_free_layout(stmts, rng, features, hidden):
    """free form in which the statements whose index is in `hidden` sit behind the '!$ ' sentinel (all their physical lines).
    Returns (lines, items when the option is on, items when it is off)."""
    lines, on, off = [], [], []
    for idx, (label, name, text) in enumerate(stmts):
        indent = " " * (rng.randint(0, 4) if idx else 0)
        hide = idx in hidden
        cuts = []
        if "split" in features and rng.random() < 0.7:
            b = token_boundaries(text)
            if b:
                cuts = sorted(rng.sample(b, min(len(b), rng.randint(1, 2))))
        if "split-literal" in features and hide:
            inside = [p for p in range(1, len(text)) if in_literal(text, p)]
            if inside:
                cuts = sorted(rng.sample(inside, 1))
        segs, prev = [], 0
        for c in cuts:
            segs.append((prev, c))
            prev = c
        segs.append((prev, len(text)))
        start = len(lines) + 1
        phys_of = []
        mids = []
        for si, (a, b_) in enumerate(segs):
            seg = text[a:b_]
            cut_lit_before = si > 0 and in_literal(text, a)
            cut_lit_after = si < len(segs) - 1 and in_literal(text, b_)
            tail_amp = "" if si == len(segs) - 1 else ("&" if cut_lit_after else " &")
            if hide:
                if si == 0:
                    phys = indent + "!$ " + head(label, name) + seg + tail_amp
                else:
                    lead = "&" if cut_lit_before else rng.choice(["& ", "&", "  "])
                    phys = " " * rng.randint(0, 3) + rng.choice(["!$ ", "!$"] if lead.startswith("&") else ["!$ "]) + lead + seg + tail_amp
            else:
                lead = "&" if cut_lit_before else (rng.choice(["& ", ""]) if si else "")
                phys = (indent if si == 0 else "   ") + (head(label, name) if si == 0 else "") + lead + seg + tail_amp
            lines.append(phys)
            phys_of.append((phys, len(lines)))
            if si < len(segs) - 1 and "between" in features and rng.random() < 0.5:
                c = ("  ! mid %d" if hide or rng.random() < 0.4 else rng.choice(["  !$omp mid %d", "!$omp mid %d &", "  !$acc mid %d"])) % len(lines)
                lines.append(c)
                mids.append((c.lstrip(), len(lines)))
        last = len(lines)
        on.append(L(text, (start, last), label, name))
        for c, n in mids:
            on.append(Cm(c, n, False))
        if hide:
            # option off: every physical line of the statement is an ordinary comment (and so are the comment lines between them)
            allc = [(p.lstrip(), n) for p, n in phys_of] + mids
            for c, n in sorted(allc, key=lambda t: t[1]):
                off.append(Cm(c, n, False))
        else:
            off.append(L(text, (start, last), label, name))
            for c, n in mids:
                off.append(Cm(c, n, False))
    return lines, on, off


CPP_LINES = [
    ["#if defined(X) && (Y > 1)"], ["#ifdef X"], ["#ifndef X"], ["#elif Y"], ["#else"], ["#endif"], ["#include \"file.h\""],
    ["#include <sys.h>"], ["#define A 1; b"], ["#define F(x) ((x) + 1) ! no comment"], ["#undef A"], ["#line 12 \"f.F90\""],
    ["#error stop 'here"], ["#warning careful & so"], ["#"], ["# 1 \"f.F90\" 2"], ["  #  define  B  'q"],
    ["#define LONG \\", "   1 + \\", "   2"], ["#if A && \\", "    B"],
]


def with_directives(lines, items, rng, n_dir, fixed=False, at_top=None):
    """insert preprocessor lines between the statements of an already rendered source (never inside a continued statement).
    Returns (lines, items): the directive items sit where the lines are, every other item keeps its text and moves by the number of
    lines inserted above it."""
    # positions at which a line can be inserted: before physical line p (1-based) when no statement spans across p-1 .. p
    stmt_spans = [it[2] for it in items if it[0] != "Comment"]
    ok_pos = [p for p in range(1, len(lines) + 2) if not any(a < p <= b for a, b in stmt_spans)]
    chosen = sorted(rng.choice(ok_pos) for _ in range(n_dir))
    ins = {}
    if at_top is not None:
        ins[1] = [at_top]
    for p in chosen:
        ins.setdefault(p, []).append(rng.choice(CPP_LINES))
    out_lines, new_no = [], {}
    dir_items = []      # (position p, item)
    for p in range(1, len(lines) + 2):
        for d in ins.get(p, []):
            d = [x.lstrip() for x in d] if fixed else d
            start = len(out_lines) + 1
            out_lines.extend(d)
            text = "".join(x.rstrip()[:-1] if x.rstrip().endswith("\\") else x for x in d)
            dir_items.append((p, ("CppDirective", text.strip(), (start, len(out_lines)), None, None)))
        if p <= len(lines):
            out_lines.append(lines[p - 1])
            new_no[p] = len(out_lines)
    out_items = []
    di = 0
    # delivery order: an item is delivered when its first line is read; comments inside/behind a statement follow the statement
    # (they are in `items` in delivery order already), so a directive goes in front of the first item that starts at or after p
    pending = list(dir_items)
    for it in items:
        first_line = it[2][0]
        # a comment belonging to a continued statement has a line number inside the statement's span: never a candidate position
        while pending and pending[0][0] <= first_line and not any(a < pending[0][0] <= b for a, b in stmt_spans):
            if it[0] == "Comment" and any(a <= first_line <= b for a, b in stmt_spans):
                break
            out_items.append(pending.pop(0)[1])
        out_items.append(it[:2] + ((new_no[it[2][0]], new_no[it[2][1]]),) + it[3:])
    out_items.extend(d for _, d in pending)
    return out_lines, out_items


def include_layout(stmts, rng, features, nested=False, fixed_files=False, missing_first=False, header=0):
    """free form with a run of whole statements moved into a file of the (virtual) include directory `inc`; a second directory
    `other`, searched later, holds a file of the same name with different content.  Returns (lines, items, files, include_dirs)."""
    n = len(stmts)
    a = rng.randint(1, n - 3)
    b = rng.randint(a + 1, n - 1)
    inner = stmts[a:b]
    files = {}
    if fixed_files:
        ffeat = {f for f in features if f in ("split", "between", "trailing", "before")} | {"labels"}
        lay = lambda st: fixed_layout(st, rng, ffeat)
        inc_deep = "      include 'deep.inc'"
    elif header:
        # behind a long header the code keeps a six-blank margin: its only sign of free form is the '&' at the end of its lines
        # (no trailing comments: a '&' with a comment behind it is not the last character of its line)
        lay = lambda st: free_layout(st, rng, {"margin", "split", "lead", "before"})
        inc_deep = "      include 'deep.inc'"
    else:
        lay = lambda st: free_layout(st, rng, features, first_indent_max=2)
        inc_deep = "include 'deep.inc'"
    inner_lines, inner_items = lay(inner)
    if nested and len(inner) >= 2:
        k = rng.randint(1, len(inner) - 1)
        deep = inner[k:]
        deep_lines, deep_items = lay(deep)
        files["inc/deep.inc"] = "\n".join(deep_lines) + "\n"
        head_lines, head_items = lay(inner[:k])
        inner_lines = head_lines + [inc_deep]
        inner_items = head_items + deep_items
    if header:
        # a long notice in front of the code of the included file (more than `header` characters of comment lines)
        hdr = []
        while sum(len(h) + 1 for h in hdr) <= header:
            hdr.append("! notice %03d %s" % (len(hdr), "-" * 60))
        inner_items = [Cm(h, k + 1) for k, h in enumerate(hdr)] + \
            [(it[:2] + ((it[2][0] + len(hdr), it[2][1] + len(hdr)),) + it[3:]) if not (nested and it in deep_items) else it for it in inner_items]
        inner_lines = hdr + inner_lines
    files["inc/part.inc"] = "\n".join(inner_lines) + "\n"
    files["other/part.inc"] = "wrong = 1\n"
    pre_lines, pre_items = free_layout(stmts[:a], rng, features)
    inc_line = rng.choice(["include 'part.inc'", "  include \"part.inc\"", "INCLUDE 'part.inc'"])
    lines = pre_lines
    if missing_first:
        lines = lines + ["include 'absent.inc'"]
        pre_items = pre_items + [L("include 'absent.inc'", (len(lines), len(lines)))]
    lines = lines + [inc_line]
    post_lines, post_items = free_layout(stmts[b:], rng, features, first_indent_max=8)
    off = len(lines)
    lines = lines + post_lines
    items = pre_items + inner_items + [it[:2] + ((it[2][0] + off, it[2][1] + off),) + it[3:] for it in post_items]
    return lines, items, files, ["inc", "other"]


# =====================================================================================================
# the rules
# =====================================================================================================
FREE_FEATURES = [
    ("plain", set()), ("indentation", {"indent"}), ("comment and blank lines between statements", {"before"}),
    ("continuation at token boundaries", {"split"}), ("continuation with a leading '&'", {"split", "lead"}),
    ("comment / blank lines between continuation lines", {"split", "lead", "between"}),
    ("continuation inside a character literal", {"split-literal"}),
    ("continuation inside a literal with comment lines between", {"split-literal", "between", "trailing"}),
    ("trailing comments", {"trailing"}), ("statements joined with ';'", {"semicolon"}),
    ("';' with trailing comments", {"semicolon", "trailing", "before"}),
    ("everything at once", {"split", "lead", "between", "trailing", "indent", "before", "semicolon"}),
    ("six-blank margin, '&' followed by blanks", {"split", "lead", "between", "before", "margin"}),
    ("continuation at token boundaries and inside literals, trailing comments", {"split", "split-both", "lead", "trailing"}),
    ("every line indented with a tab, continuation lines", {"split", "lead", "tabs"}),
]
FIXED_FEATURES = [
    ("plain", set()), ("label placement within columns 1-5", {"labels"}), ("'0' in column 6 of an initial line", {"zero", "labels"}),
    ("indentation behind column 6", {"indent"}), ("comment lines (C, c, *, !) and blank lines", {"before"}),
    ("continuation lines (any mark in column 6)", {"split"}), ("comment lines between continuation lines", {"split", "between"}),
    ("character literal continued over lines", {"split-literal"}),
    ("literal continued with comment lines between", {"split-literal", "between"}), ("trailing comments", {"trailing"}),
    ("everything at once", {"split", "trailing", "between", "before", "labels", "zero", "indent"}),
    ("continuation at token boundaries and inside literals, trailing comments", {"split", "split-both", "trailing"}),
]


def _show(src, k=14):
    ls = src.split("\n")
    return " / ".join(ls[:k]) + (" / ..." if len(ls) > k else "")


class Runner:
    """runs generated cases through the interpreted reader; one finding per (kind of layout, what differs)"""

    def __init__(self, m, r, tier):
        self.m, self.r, self.tier = m, r, tier
        self.world = None
        self.loc = m.loc(m.funcs[(m.modfile[RF], "FortranReaderBase.get_source_item")]) \
            if (m.modfile.get(RF), "FortranReaderBase.get_source_item") in m.funcs else None
        self.failed = {}
        self.dead = False

    def reps(self, quick, thorough):
        return quick if self.tier == "quick" else thorough

    def read(self, case, after_item=None, lookahead=False):
        """the items of the case (None after an analysis problem, which is recorded on the rule result)"""
        r = self.r
        try:
            if self.world is None:
                self.world = World(self.m)
            w = self.world
            w.files = dict(case.files or {})
            w.ev.steps = 0
            w.log = []
            w.exited = False
            rd = make_reader(w, case.source, mode=case.mode, **case.opts)
            out = []
            nxt = rd.get(w.ev, "next")

            def get():
                try:
                    return nxt()
                except PE.PyRaise as err:
                    if err.exc_type == "StopIteration":
                        return None
                    raise
            for _ in range(600):
                item = get()
                if item is None:
                    break
                if lookahead:
                    # a consumer that reads one more item, then restores both (last one first) and reads again
                    ahead = get()
                    put = rd.get(w.ev, "put_item")
                    if ahead is not None:
                        put(ahead)
                    put(item)
                    item = get()
                    if item is None:
                        break
                out.append(summarise(w, item))
                if after_item is not None:
                    after_item(w, rd, item, out)
            else:
                raise PE.Unsupported("the reader does not end within 600 items")
            self.reader = rd
            return out
        except PE.Unsupported as err:
            if not self.dead:
                r.error("the reader cannot be interpreted statically on %r (%s)" % (_show(case.source, 4), err))
            self.dead = True
            return None
        except PE.PyRaise as err:
            r.instances += 1
            r.ob(False)
            self.fail(case, "raises", "raises %s" % err.exc_type)
            return None
        except RecursionError:
            if not self.dead:
                r.error("the reader recurses too deeply for the evaluator on %r" % _show(case.source, 3))
            self.dead = True
            return None

    def fail(self, case, what, text):
        key = "reader|%s|%s" % (case.title, what)
        if key in self.failed:
            self.failed[key] += 1
            return
        self.failed[key] = 1
        self.r.fail(key, "the reader, interpreted on a generated source (%s): %s.  Source: %s"
                    % (case.what, text, _show(case.source)), self.loc)

    def expect(self, case, want, got=None, exact_text=False, only_lines=False, note=None):
        r = self.r
        if got is None:
            got = self.read(case)
        if got is None:
            return None
        r.instances += 1
        g, w_ = got, want
        if only_lines:
            g = [(i[0], i[1], None, i[3], i[4]) for i in got if i[0] != "Comment"]
            w_ = [(i[0], i[1], None, i[3], i[4]) for i in want if i[0] != "Comment"]
        d = same_stream(g, w_, exact_text)
        r.ob(d is None, ("%s: %d items as laid out" % (case.what, len(w_))) if r.obligations % 12 == 0 else None)
        if d is not None:
            k, gi, wi, what = d
            self.fail(case, what, "item %d differs in its %s: delivered %r, the source holds %r%s"
                      % (k + 1, what, gi, wi, ("; " + note) if note else ""))
        return got


def _rng(*key):
    return random.Random("|".join(map(str, key)))


def free_rule(m, rid, tier):
    r = RuleResult(rid, "free-form layout by interpretation: the reader (FortranStringReader and everything below it, interpreted from "
                        "the AST) is run on sources generated from 3 lists of statements under %d layouts (indentation, continuation "
                        "at token boundaries with and without leading '&', continuation inside character literals, comment and blank "
                        "lines between statements and between continuation lines, trailing comments, ';'); it detects free form and "
                        "delivers the same statements -- text (blank-insensitive outside literals, literals character for "
                        "character, names in their spelling), label, construct name -- whatever the layout" % len(FREE_FEATURES))
    run = Runner(m, r, tier)
    for rep in range(run.reps(2, 8)):
        for pi, prog in enumerate(PROGRAMS):
            for title, feats in FREE_FEATURES:
                rng = _rng("free", rep, pi, title)
                lines, items = free_layout(prog, rng, feats)
                for ic in ((False, True) if rep % 2 == 0 else (False,)):
                    case = Case(title, lines, items, {"ignore_comments": ic}, what="%s, comments %s" % (title, "ignored" if ic else "kept"))
                    got = run.expect(case, items, only_lines=True)
                    if got is None:
                        if run.dead:
                            return r
                        continue
                    fmt = run.reader.get(run.world.ev, "format")
                    if not fmt.get(run.world.ev, "is_free") or fmt.get(run.world.ev, "is_strict"):
                        run.fail(case, "form", "the source is free form (its first statement starts in columns 1-5) but is read as %s"
                                 % fmt.get(run.world.ev, "mode"))
    # a source (an include file of FORMAT statements, say) in which every statement carries a label
    lines = ["30 return", "100 format (a)", "10 call Foo(1)"]
    items = [L("return", (1, 1), 30), L("format (a)", (2, 2), 100), L("call Foo(1)", (3, 3), 10)]
    case = Case("labelled-statements-only", lines, items, {"ignore_comments": True}, what="free form, every statement labelled")
    run.expect(case, items)
    r.floor = 60
    return r


def stream_rule(m, rid, tier):
    r = RuleResult(rid, "the item stream by interpretation: on the generated free-form and fixed-form layouts the reader delivers every "
                        "statement exactly once and in order, with its label and construct name separated from the text and a "
                        "(first, last) span that is exactly the physical lines it occupies (continuation lines, comment lines between "
                        "them and ';' included); an item pushed back with put_item() is the next one delivered and the rest of the "
                        "stream is unchanged; get_item() at the end gives None")
    run = Runner(m, r, tier)
    for rep in range(run.reps(1, 5)):
        for pi, prog in enumerate(PROGRAMS):
            for form, table, layout in (("free", FREE_FEATURES, free_layout), ("fixed", FIXED_FEATURES, fixed_layout)):
                for title, feats in table:
                    rng = _rng("stream", form, rep, pi, title)
                    lines, items = layout(prog, rng, feats)
                    case = Case("%s/%s" % (form, title), lines, items, {"ignore_comments": False}, what="%s form, %s" % (form, title))
                    pushed = []

                    def after(w, rd, item, out, _rng_=rng, _pushed=pushed):
                        # read ahead and restore: every third item is pushed back once and must come again
                        if len(out) % 3 == 0 and (not _pushed or _pushed[-1][0] is not item):
                            _pushed.append((item, len(out)))
                            rd.get(w.ev, "put_item")(item)
                            again = rd.get(w.ev, "next")()
                            _pushed[-1] = (item, len(out), again is item)
                    got = run.read(case, after_item=after)
                    if got is None:
                        if run.dead:
                            return r
                        continue
                    run.expect(case, items, got=got)
                    r.instances += 1
                    lost = [p for p in pushed if len(p) == 3 and not p[2]]
                    r.ob(not lost)
                    if lost:
                        run.fail(case, "put-back", "item %d was pushed back with put_item() and the next item delivered is a different one"
                                 % lost[0][1])
                    w = run.world
                    try:
                        end = run.reader.get(w.ev, "get_item")()
                    except PE.PyRaise as err:
                        end = err
                    r.instances += 1
                    r.ob(end is None)
                    if end is not None:
                        run.fail(case, "end", "get_item() after the last item gives %r, not None" % (end,))
    # a reader created with the default option (comments ignored) whose consumer asks for comments per call, reads one item ahead
    # and restores: what it pushed back it gets again (the stream fparser1 sees)
    if not run.dead:
        rng = _rng("stream", "override")
        lines, items = free_layout(PROGRAMS[0], rng, {"before", "trailing", "split", "between"})
        case = Case("override/put-back", lines, items, {}, what="free form, comments asked for per call, every item pushed back once")
        try:
            w = run.world or World(m)
            run.world = w
            w.files = {}
            w.ev.steps = 0
            rd = make_reader(w, case.source)          # ignore_comments defaults to True
            got = []
            for _ in range(600):
                try:
                    it = rd.get(w.ev, "next")(ignore_comments=False)
                except PE.PyRaise as err:
                    if err.exc_type == "StopIteration":
                        break
                    raise
                rd.get(w.ev, "put_item")(it)
                again = rd.get(w.ev, "get_item")(ignore_comments=False)
                r.instances += 1
                r.ob(again is it)
                if again is not it:
                    run.fail(case, "put-back-override", "the item %r was pushed back with put_item() and get_item(ignore_comments=False) "
                             "delivers %r instead" % (summarise(w, it), summarise(w, again)))
                    break
                got.append(summarise(w, it))
            else:
                raise PE.Unsupported("the reader does not end")
            run.expect(case, items, got=got)
        except PE.Unsupported as err:
            r.error("the reader cannot be interpreted statically (%s)" % err)
        except PE.PyRaise as err:
            r.instances += 1
            r.ob(False)
            run.fail(case, "raises", "raises %s" % err.exc_type)
    # strict fixed form (Fortran 77 cards): columns 7-72 belong to the statement, 73-80 hold a sequence number, on continuation cards too
    def card(text, seq, label="", cont=" "):
        return "%-72s%08d" % ("%-5s%s%s" % (label, cont, text), seq)
    lines = [card("subroutine Foo(a, b, c)", 10), card("a = b", 20, label="10"), card("+ c", 30, cont="&"), card("+ 1", 40, cont="1"),
             card("call Bar('x y', a)", 50), card("end", 60)]
    items = [L("subroutine Foo(a, b, c)", (1, 1)), L("a = b+ c+ 1", (2, 4), 10), L("call Bar('x y', a)", (5, 5)), L("end", (6, 6))]
    case = Case("f77-cards", lines, items, {"ignore_comments": False}, mode="f77", what="strict fixed form with sequence numbers in columns 73-80")
    run.expect(case, items)
    # ... and a comment card behind a statement (known finding F71: the look-ahead for continuation cards swallows it)
    lines = [card("x = 1", 10), "C a comment card", card("y = 2", 20)]
    items = [L("x = 1", (1, 1)), Cm("C a comment card", 2), L("y = 2", (3, 3))]
    case = Case("f77-comment-card", lines, items, {"ignore_comments": False}, mode="f77", what="strict fixed form, a comment card behind a statement")
    run.expect(case, items)
    # the reader is told the source is fixed form; a statement that starts in the label field makes it go on in free form, and
    # that line is already delivered as the free-form statement it is
    lines = ["      subroutine Foo(n)", "      integer n, i", "      do 10 i = 1, n", "        n = n + i", " 10 continue", "      end"]
    items = [L("subroutine Foo(n)", (1, 1)), L("integer n, i", (2, 2)), L("do 10 i = 1, n", (3, 3)), L("n = n + i", (4, 4)),
             L("continue", (5, 5), 10), L("end", (6, 6))]
    case = Case("declared-fixed-turns-free", lines, items, {"ignore_comments": False}, mode="fix",
                what="declared fixed form, one statement starts in column 2")
    run.expect(case, items)
    r.floor = 60
    return r


def comments_rule(m, rid, tier):
    r = RuleResult(rid, "comments by interpretation: with comments kept, on the generated free-form layouts every comment (full line, "
                        "trailing, between continuation lines; blank lines as empty comments) is delivered exactly once, with its "
                        "text unchanged, its line number, its inline flag, and in place (a trailing comment directly behind its "
                        "statement); with comments ignored the reader delivers exactly the statements it delivers for the same "
                        "source with every comment removed")
    run = Runner(m, r, tier)
    for rep in range(run.reps(2, 6)):
        for pi, prog in enumerate(PROGRAMS):
            for title, feats in FREE_FEATURES:
                if not feats & {"before", "between", "trailing"}:
                    continue
                rng = _rng("comments", rep, pi, title)
                lines, items = free_layout(prog, rng, feats)
                case = Case(title, lines, items, {"ignore_comments": False}, what="%s, comments kept" % title)
                if run.expect(case, items) is None and run.dead:
                    return r
                # no line of these sources is a conditional-compilation line ('!$' followed by a blank), so enabling their
                # handling or the processing of directives changes nothing: '!$omp ...' lines are comments like any other
                for extra in ({"include_omp_conditional_lines": True}, {"process_directives": True}):
                    case2 = Case(title + "/" + list(extra)[0], lines, items, dict({"ignore_comments": False}, **extra),
                                 what="%s, comments kept, %s=True" % (title, list(extra)[0]))
                    if run.expect(case2, items) is None and run.dead:
                        return r
                ign = run.read(Case(title, lines, items, {"ignore_comments": True}, what="%s, comments ignored" % title))
                # the same source with every comment removed (lines that only hold a comment or nothing disappear, so only text,
                # label and name are comparable)
                bare_lines, bare_items = free_layout(prog, _rng("comments", rep, pi, title), feats - {"before", "between", "trailing"})
                bare = run.read(Case(title, bare_lines, bare_items, {"ignore_comments": True}, what="%s, no comments in the source" % title))
                if ign is None or bare is None:
                    if run.dead:
                        return r
                    continue
                r.instances += 1
                a = [(i[0], squeeze(i[1] or "")) + tuple(i[3:5]) for i in ign]
                b = [(i[0], squeeze(i[1] or "")) + tuple(i[3:5]) for i in bare]
                r.ob(a == b and all(i[0] != "Comment" for i in ign))
                if a != b or any(i[0] == "Comment" for i in ign):
                    k = next((j for j in range(min(len(a), len(b))) if a[j] != b[j]), min(len(a), len(b)))
                    run.fail(case, "ignored", "with comments ignored item %d is %r; the same statements without any comment give %r"
                             % (k + 1, ign[k] if k < len(ign) else None, bare[k] if k < len(bare) else None))
    r.floor = 40
    return r


def errline_rule(m, rid, tier):
    r = RuleResult(rid, "the line an error would name, by interpretation: on the generated free-form layouts, at the moment a statement "
                        "is delivered the reader's line counter is the statement's last physical line (the parser reports "
                        "reader.linecount and quotes source_lines[linecount-1]) -- the reader has not read ahead past it, wherever "
                        "the statement sits and whatever follows it (comment lines, blank lines, continuation lines with comments "
                        "between)")
    run = Runner(m, r, tier)
    for rep in range(run.reps(1, 5)):
        for pi, prog in enumerate(PROGRAMS):
            for title, feats in FREE_FEATURES:
                rng = _rng("errline", rep, pi, title)
                lines, items = free_layout(prog, rng, feats)
                for ic in (False, True):
                    case = Case(title, lines, items, {"ignore_comments": ic}, what="%s, comments %s" % (title, "ignored" if ic else "kept"))
                    seen = []

                    def after(w, rd, item, out, _seen=seen):
                        s_ = out[-1]
                        if s_ and s_[0] == "Line":
                            lc = rd.fields.get("linecount")
                            sl = rd.fields.get("source_lines") or []
                            _seen.append((s_, lc, sl[lc - 1] if isinstance(lc, int) and 0 < lc <= len(sl) else None))
                    got = run.read(case, after_item=after)
                    if got is None:
                        if run.dead:
                            return r
                        continue
                    want = [i for i in items if i[0] == "Line"]
                    r.instances += 1
                    bad = None
                    for k, (s_, lc, quoted) in enumerate(seen):
                        if k >= len(want):
                            break
                        last = want[k][2][1]
                        if lc != last or quoted != lines[last - 1].expandtabs().rstrip():
                            bad = (k, s_, lc, quoted, last)
                            break
                    r.ob(bad is None and len(seen) == len(want))
                    if bad is not None:
                        k, s_, lc, quoted, last = bad
                        run.fail(case, "line-counter", "when statement %d (%r) is delivered the line counter is %s (line text %r); the "
                                 "statement ends on line %d (%r): an error in it is reported at the wrong line"
                                 % (k + 1, s_[1], lc, quoted, last, lines[last - 1].rstrip()))
                    elif len(seen) != len(want):
                        run.fail(case, "count", "%d statements are delivered, the source holds %d" % (len(seen), len(want)))
    r.floor = 60
    return r


F67_CASE = ["      program Main", "   ! a remark", "      integer Idx", "     &       , j", "      end program Main"]
# a line that ends at a word boundary (its trailing blanks trimmed) and a continuation line whose text starts in column 7 (F73)
F73_CASE = ["      program Main", "      integer", "     &Idx", "      end program Main"]


def fixed_rule(m, rid, tier):
    r = RuleResult(rid, "fixed form by interpretation: the reader is run on the 3 statement lists laid out in fixed source form under %d "
                        "layouts (labels anywhere in columns 1-5, blank or '0' in column 6 of an initial line, any other mark in "
                        "column 6 of a continuation line, comment lines introduced by C, c, * or !, character literals continued "
                        "across lines); it detects fixed form and delivers the same statements as for the free-form layout -- text, "
                        "label, construct name -- with every character of a continued literal" % len(FIXED_FEATURES))
    run = Runner(m, r, tier)
    for rep in range(run.reps(2, 8)):
        for pi, prog in enumerate(PROGRAMS):
            for title, feats in FIXED_FEATURES:
                rng = _rng("fixed", rep, pi, title)
                lines, items = fixed_layout(prog, rng, feats)
                for ic in ((False, True) if rep % 2 == 0 else (False,)):
                    case = Case(title, lines, items, {"ignore_comments": ic}, what="fixed form, %s, comments %s" % (title, "ignored" if ic else "kept"))
                    got = run.expect(case, items, only_lines=True)
                    if got is None:
                        if run.dead:
                            return r
                        continue
                    fmt = run.reader.get(run.world.ev, "format")
                    if not fmt.get(run.world.ev, "is_fixed"):
                        run.fail(case, "form", "the source is fixed form but is read as %s" % fmt.get(run.world.ev, "mode"))
    # a long file: the form is a property of the whole text, however the file is read (a fixed-form file of 70 000 / 150 000 characters,
    # given by name and as an open file)
    if not run.dead:
        rng = _rng("fixed", "long")
        text = []
        size = 70000 if tier == "quick" else 150000
        total = 0
        while total < size:
            lines, _items = fixed_layout(PROGRAMS[len(text) % 3], rng, {"split", "before", "labels", "indent"})
            text.extend(lines)
            total += sum(len(x) + 1 for x in lines)
        long_text = "\n".join(text) + "\n"
        try:
            w = run.world or World(m)
            run.world = w
            w.files = {"big/long.f": long_text}
            w.ev.steps = 0
            for how in ("name", "file object"):
                arg = "big/long.f" if how == "name" else w._open("big/long.f")
                fmt = w.call(SI, "get_source_info", arg)
                r.instances += 1
                ok = bool(fmt.get(w.ev, "is_fixed"))
                r.ob(ok, "a fixed-form file of %d characters given by %s: %s" % (len(long_text), how, fmt.get(w.ev, "mode")))
                if not ok:
                    case = Case("long-file/%s" % how.split()[0], text[:6], [], {}, what="a fixed-form file of %d characters, given by %s"
                                % (len(long_text), how))
                    run.fail(case, "form", "get_source_info says %s for a file in which every line is fixed form: the form depends on how "
                             "the file is read (in pieces that do not end at line ends, say), not on its text" % fmt.get(w.ev, "mode"))
        except PE.Unsupported as err:
            r.error("get_source_info cannot be interpreted statically on a file of the virtual file system (%s)" % err)
        except PE.PyRaise as err:
            r.instances += 1
            r.ob(False)
            run.fail(Case("long-file", text[:6], [], {}), "raises", "get_source_info raises %s on a long fixed-form file" % err.exc_type)
    # a file object that has already been read from: the form is that of the whole file, and the read position is put back
    if not run.dead:
        part_text = "program Main\n" + "".join("      %s\n" % t for t in ("integer :: Idx", "Idx = 1", "print *, Idx", "end program Main"))
        try:
            w = run.world or World(m)
            run.world = w
            w.files = {"part/read.f90x": part_text}
            w.ev.steps = 0
            fobj = w._open("part/read.f90x")
            first = fobj.fields["readline"]()
            here = fobj.pos
            fmt = w.call(SI, "get_source_info", fobj)
            r.instances += 1
            ok = bool(fmt.get(w.ev, "is_free")) and fobj.pos == here
            r.ob(ok, "a free-form file object read up to line 2 before the detection: %s, position %s" % (fmt.get(w.ev, "mode"), "restored" if fobj.pos == here else "moved"))
            if not ok:
                case = Case("partly-read-file-object", part_text.split("\n")[:4], [], {}, what="an open free-form file (first statement in column 1, the "
                            "others from column 7) of which the first line has been read already")
                run.fail(case, "form", "get_source_info says %s (read position %s): the form is judged from what is left of the file "
                         "instead of the whole file, or the caller's read position is lost"
                         % (fmt.get(w.ev, "mode"), "restored" if fobj.pos == here else "moved from %d to %d" % (here, fobj.pos)))
        except PE.Unsupported as err:
            r.error("get_source_info cannot be interpreted statically on a partly read file object (%s)" % err)
        except PE.PyRaise as err:
            r.instances += 1
            r.ob(False)
            run.fail(Case("partly-read-file-object", [], [], {}), "raises", "get_source_info raises %s on a partly read file object" % err.exc_type)
    # a comment introduced by '!' in columns 2-5 (F67)
    items = [L("program Main", (1, 1)), Cm("   ! a remark", 2), L("integer Idx, j", (3, 4)), L("end program Main", (5, 5))]
    case = Case("bang-comment-in-columns-2-5", F67_CASE, items, {"ignore_comments": False},
                what="fixed form with a '!' comment that starts in columns 2-5")
    got = run.read(case)
    if got is not None:
        fmt = run.reader.get(run.world.ev, "format")
        if not fmt.get(run.world.ev, "is_fixed"):
            r.instances += 1
            r.ob(False)
            run.fail(case, "form", "the source is fixed form but is read as %s: the comment line votes for free form, and the "
                     "continuation line after it is then a statement of its own (%r)"
                     % (fmt.get(run.world.ev, "mode"), [i[1] for i in got if i[0] == "Line"]))
        else:
            run.expect(case, items, got=got, only_lines=True)
    # columns 7-72 of a short line are blank up to column 72: a line that ends with a word and a continuation that starts with one (F73)
    items = [L("program Main", (1, 1)), L("integer Idx", (2, 3)), L("end program Main", (4, 4))]
    case = Case("word-boundary-at-line-end", F73_CASE, items, {}, what="fixed form, a line that ends with a keyword (trailing blanks trimmed) and "
                "a continuation line whose text starts in column 7")
    got = run.read(case)
    if got is not None:
        texts = [" ".join(i[1].split()) for i in got if i[0] == "Line"]
        r.instances += 1
        ok = texts == [i[1] for i in items]
        r.ob(ok, "word boundary at a line end: %r" % texts)
        if not ok:
            run.fail(case, "words", "the statements delivered are %r: the blank columns between the end of a short line and column 72 "
                     "are dropped, so the last word of the line and the first word of its continuation line become one word "
                     "(expected %r)" % (texts, [i[1] for i in items]))
    r.floor = 60
    return r


def cpp_rule(m, rid, tier):
    r = RuleResult(rid, "preprocessor lines by interpretation: %d kinds of directive lines (conditionals, #include, #define with ';', '!' "
                        "and quotes in them, #undef, #line, #error, #warning, the null directive, line markers, indented '#', "
                        "backslash continuations) are inserted between the statements of generated free-form and fixed-form sources; "
                        "the reader delivers one directive item per inserted directive, at that position, with its text intact "
                        "(continuations spliced) and its line numbers, and every other item exactly as without the directives "
                        "(line numbers moved by the lines inserted above); the source form detected is the same" % len(CPP_LINES))
    run = Runner(m, r, tier)
    for rep in range(run.reps(2, 8)):
        for pi, prog in enumerate(PROGRAMS):
            for form, layout, table in (("free", free_layout, FREE_FEATURES), ("fixed", fixed_layout, FIXED_FEATURES)):
                for title, feats in (table[0], table[-1], table[5]):
                    rng = _rng("cpp", form, rep, pi, title)
                    lines, items = layout(prog, rng, feats)
                    # (the first directive of every other source is a backslash-continued one in front of the first statement)
                    top = [d for d in CPP_LINES if len(d) > 1][(rep + pi) % 2] if (rep + pi + len(title)) % 2 == 0 else None
                    l2, i2 = with_directives(lines, items, rng, 0 if top else 5, fixed=(form == "fixed"), at_top=top)
                    case = Case("%s/%s" % (form, title), l2, i2, {"ignore_comments": False},
                                what="%s form, %s, %s" % (form, title, "a continued directive in front of the first statement" if top else "5 directive lines inserted"))
                    got = run.expect(case, i2)
                    if got is None:
                        if run.dead:
                            return r
                        continue
                    fmt = run.reader.get(run.world.ev, "format")
                    if bool(fmt.get(run.world.ev, "is_fixed")) != (form == "fixed"):
                        run.fail(case, "form", "with the directive lines inserted the %s-form source is read as %s"
                                 % (form, fmt.get(run.world.ev, "mode")))
    r.floor = 30
    return r


def omp_rule(m, rid, tier):
    r = RuleResult(rid, "conditional-compilation lines by interpretation: statements of the generated sources (free form: '!$ ' in front, "
                        "continuation lines '!$ &', '!$&' or '!$' + blanks, literals continued; fixed form: '!$', 'c$', 'C$' or '*$' in "
                        "columns 1-2, label in 3-5, mark in 6) are hidden behind the sentinel; with the option on the reader delivers "
                        "them exactly like the statements written without the sentinel, and genuine '!$omp' lines stay comments; "
                        "with the option off every such line is an ordinary comment")
    run = Runner(m, r, tier)
    for rep in range(run.reps(2, 8)):
        for pi, prog in enumerate(PROGRAMS):
            for title, feats in (("plain", set()), ("continuation lines", {"split"}), ("continuation with comment lines between", {"split", "between"}),
                                 ("literal continued", {"split-literal"})):
                rng = _rng("omp", rep, pi, title)
                hidden = set(rng.sample(range(1, len(prog) - 1), 3))
                lines, on, off = omp_free_layout(prog, rng, feats, hidden)
                # a genuine directive is a comment either way
                lines = lines + ["!$omp end parallel"]
                extra = Cm("!$omp end parallel", len(lines))
                for opt, want, what in ((True, on + [extra], "on"), (False, off + [extra], "off")):
                    case = Case("free/%s/%s" % (title, what), lines, want,
                                {"ignore_comments": False, "include_omp_conditional_lines": opt},
                                what="free form, %s, statements %s behind '!$ ', conditional lines %s" % (title, sorted(hidden), what))
                    if run.expect(case, want) is None and run.dead:
                        return r
            for title, feats in (("plain", set()), ("continuation, labels, trailing comments", {"split", "between", "trailing", "labels", "zero"}),
                                 ("literal continued", {"split-literal"})):
                rng = _rng("ompfix", rep, pi, title)
                hidden = {i: rng.choice(["!$", "c$", "*$", "C$"]) for i in rng.sample(range(1, len(prog) - 1), 3)}
                lines, on, off = fixed_layout(prog, rng, feats, hidden)
                for opt, want, what in ((True, on, "on"), (False, off, "off")):
                    case = Case("fixed/%s/%s" % (title, what), lines, want,
                                {"ignore_comments": False, "include_omp_conditional_lines": opt},
                                what="fixed form, %s, statements %s behind a sentinel in columns 1-2, conditional lines %s"
                                     % (title, sorted(hidden), what))
                    if run.expect(case, want) is None and run.dead:
                        return r
    r.floor = 40
    return r


def include_rule(m, rid, tier):
    r = RuleResult(rid, "INCLUDE by interpretation on a virtual file system: a run of whole statements of a generated source is moved "
                        "into a file of the first include directory (a file of the same name with other content sits in a later "
                        "directory; optionally part of it is moved on into a second file it includes) and replaced by an INCLUDE "
                        "line; the reader delivers the same statements in the same order, the included ones with the line numbers of "
                        "their file.  With no such file on the path the INCLUDE line itself is delivered, once, in place")
    run = Runner(m, r, tier)
    for rep in range(run.reps(2, 8)):
        for pi, prog in enumerate(PROGRAMS):
            for title, feats in (("plain", set()), ("continuations and comments", {"split", "between", "trailing", "before", "indent"})):
                for nested in (False, True):
                    rng = _rng("include", rep, pi, title, nested)
                    lines, items, files, dirs = include_layout(prog, rng, feats, nested)
                    lines0, items0, files0 = lines, items, files
                    for ic in (False, True):
                        case = Case("%s%s" % (title, "/nested" if nested else ""), lines, items, {"ignore_comments": ic, "include_dirs": dirs},
                                    files=files, what="%s%s, comments %s" % (title, ", nested include" if nested else "", "ignored" if ic else "kept"))
                        want = [i for i in items if not (ic and i[0] == "Comment")]
                        if run.expect(case, want) is None and run.dead:
                            return r
                    # the included files in fixed form (the form of every file is detected on its own)
                    rng = _rng("include-fixed", rep, pi, title, nested)
                    lines, items, files, dirs = include_layout(prog, rng, feats, nested, fixed_files=True)
                    case = Case("%s%s/fixed-files" % (title, "/nested" if nested else ""), lines, items, {"ignore_comments": False, "include_dirs": dirs},
                                files=files, what="%s%s, include files in fixed form" % (title, ", nested include" if nested else ""))
                    if run.expect(case, items) is None and run.dead:
                        return r
                    # a long notice (more than 4 kB / 8 kB of comment lines) in front of the code of the included file
                    if not nested:
                        rng = _rng("include-header", rep, pi, title)
                        lines, items, files, dirs = include_layout(prog, rng, feats, False, header=(4200 if rep % 2 == 0 else 8300))
                        case = Case("%s/long-header" % title, lines, items, {"ignore_comments": True, "include_dirs": dirs}, files=files,
                                    what="%s, the included file begins with a long comment header" % title)
                        if run.expect(case, [i for i in items if i[0] != "Comment"]) is None and run.dead:
                            return r
                    # an INCLUDE that cannot be resolved directly in front, and a consumer that reads one item ahead and restores
                    rng = _rng("include-ahead", rep, pi, title, nested)
                    lines, items, files, dirs = include_layout(prog, rng, feats, nested, missing_first=True)
                    case = Case("%s%s/read-ahead" % (title, "/nested" if nested else ""), lines, items, {"ignore_comments": True, "include_dirs": dirs},
                                files=files, what="%s%s, an unresolved INCLUDE in front, consumer reads one item ahead and restores"
                                                  % (title, ", nested include" if nested else ""))
                    want = [i for i in items if i[0] != "Comment"]
                    got = run.read(case, lookahead=True)
                    if got is None:
                        if run.dead:
                            return r
                        continue
                    run.expect(case, want, got=got)
                    # the file is nowhere: the line stays
                    lines, items, files = lines0, items0, files0
                    inc_no = next(k for k, l_ in enumerate(lines) if l_.strip().lower().startswith("include")) + 1
                    case = Case("%s/missing" % title, lines, items, {"ignore_comments": True, "include_dirs": ["nowhere"]}, files=files,
                                what="%s, include file not on the path" % title)
                    got = run.read(case)
                    if got is None:
                        if run.dead:
                            return r
                        continue
                    r.instances += 1
                    inc = [i for i in got if i[0] == "Line" and (i[1] or "").lower().startswith("include")]
                    ok = len(inc) == 1 and inc[0][2] == (inc_no, inc_no) and squeeze(inc[0][1]) == squeeze(lines[inc_no - 1])
                    r.ob(ok)
                    if not ok:
                        run.fail(case, "unresolved", "the INCLUDE line of a file that is not on the path is delivered as %r (expected once, "
                                 "unchanged, at line %d)" % (inc, inc_no))
    r.floor = 20
    return r
