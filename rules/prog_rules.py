"""Rules over whole programs parsed by interpretation (rules/prog_interp.py; sources in rules/prog_samples.py).

Every rule says what it compares; none imports or runs repository code.  The programs are few and small (a parse costs about a
second), so these rules decide the listed programs only -- they are the program-level counterpart of the statement-level samples."""
import random
import re

from sa import pureeval as PE
from sa.report import RuleResult
from rules import prog_interp as PI
from rules import prog_samples as PS
from rules import two_roundtrip as TR
from rules import reader_interp as RI

_WORLDS = {}
# 'anon' (a main program without PROGRAM statement behind other units) shows known finding F7 in everything that looks at the tree or
# the regenerated text (the earlier units are dropped), and F16; it is used where the reader position and the symbol tables matter.
# 'cppbody' holds preprocessor lines and an unresolved INCLUDE of its own.
TREE_SAMPLES = [n for n in sorted(PS.VALID) if n not in ("anon",)]
PLAIN_SAMPLES = [n for n in sorted(PS.VALID) if n not in ("anon", "cppbody")]


def world(m, std):
    k = (id(m), std)
    if k not in _WORLDS:
        _WORLDS[k] = PI.PWorld(m, std)
    return _WORLDS[k]


class Run:
    def __init__(self, m, r):
        self.m, self.r = m, r
        self.dead = False
        self.failed = set()
        f = m.funcs.get((m.modfile.get(PI.UT), "BlockBase.match"))
        self.loc = m.loc(f) if f else None

    def parse(self, std, src, clear=True, **opts):
        """-> result of PWorld.parse, or None after an analysis problem (recorded)"""
        if self.dead:
            return None
        try:
            w = world(self.m, std)
            if not clear:
                return w.parse(src, _keep_tables=True, **opts)
            return w.parse(src, **opts)
        except PE.Unsupported as err:
            self.r.error("the parser cannot be interpreted statically on %r (%s)" % (src[:40], err))
            self.dead = True
            return None
        except RecursionError:
            self.r.instances += 1
            self.r.ob(False)
            self.fail("recursion", "parsing %r by interpretation does not terminate (unbounded recursion)" % src[:60])
            return None

    def fail(self, key, text):
        if key in self.failed:
            return
        self.failed.add(key)
        self.r.fail("program|%s" % key, text, self.loc)


def guarded(fn):
    """a rule whose interpretation meets a construct the evaluator cannot follow outside a parse (printing a tree, say) declines with
    an analysis error of its own; the other rules of the check still report (exit 1 outranks exit 2)"""
    import functools

    @functools.wraps(fn)
    def wrapper(m, rid, tier, *a, **k):
        try:
            return fn(m, rid, tier, *a, **k)
        except PE.Unsupported as err:
            r = RuleResult(rid, "whole programs by interpretation (%s)" % fn.__name__)
            r.error("%s: the program cannot be interpreted statically (%s)" % (fn.__name__, err))
            return r
        except PE.PyRaise as err:
            r = RuleResult(rid, "whole programs by interpretation (%s)" % fn.__name__)
            r.error("%s: the interpreted code raises %s outside a parse (%s)" % (fn.__name__, err.exc_type, (err.msg or "")[:80]))
            return r
    return wrapper



def pick(names, tier, k):
    names = sorted(names)
    if tier == "thorough":
        return names
    return [names[(i * 3 + 1) % len(names)] for i in range(k)] if len(names) > k else names


def show(src, k=10):
    ls = src.rstrip("\n").split("\n")
    return " / ".join(ls[:k]) + (" / ..." if len(ls) > k else "")


# =====================================================================================================
def nodes_of(node):
    """every Inst of a tree, parents before children, in source order"""
    if isinstance(node, TR.Inst):
        yield node
        for field in ("content", "items"):
            v = node.fields.get(field)
            if v is not None:
                for x in nodes_of(v):
                    yield x
                break
    elif isinstance(node, (list, tuple)):
        for x in node:
            for y in nodes_of(x):
                yield y


def shape(node):
    return PI.tree_shape(node)


@guarded
def roundtrip_rule(m, rid, tier, tokens=False):
    what = ("token for token: every name (in its spelling), character literal and number of the source appears in the regenerated text, in "
            "order, and nothing else does" if tokens else
            "the regenerated text is accepted again, gives a tree of the same shape and prints to itself")
    r = RuleResult(rid, "whole programs by interpretation (reader, block engine, statement matchers, symbol tables and printers all "
                        "interpreted from the AST): %d small programs that together use every block construct, labels, construct names "
                        "and comments are parsed under both standards with comments kept and ignored; %s" % (len(PS.VALID) + len(PS.VALID_2008), what))
    run = Run(m, r)
    pool = TREE_SAMPLES if tokens else sorted(PS.VALID)
    cases = [("f2003", n, PS.VALID[n]) for n in pick(pool, tier, 3)] + [("f2008", n, PS.VALID[n]) for n in pick(pool, tier, 1)] \
        + [("f2008", n, PS.VALID_2008[n]) for n in pick(PS.VALID_2008, tier, 1)]
    for std, name, src in cases:
        for ic in ((True, False) if tier == "thorough" or name in ("comments", "main") else (True,)):
            res = run.parse(std, src, ignore_comments=ic)
            if res is None:
                if run.dead:
                    return r
                continue
            r.instances += 1
            tag = "%s/%s/%s" % (name, std, "ignore" if ic else "keep")
            if res[0] != "tree":
                r.ob(False)
                run.fail("rejected|" + tag, "the valid program %r (%s, comments %s) is rejected: %s %s.  Source: %s"
                         % (name, std, "ignored" if ic else "kept", res[1], (res[2] or "")[:80], show(src)))
                continue
            t1 = str(res[1])
            if tokens:
                ok, why = same_tokens(src, t1, ic)
                r.ob(ok, "%s: tokens kept" % tag)
                if not ok:
                    run.fail("tokens|" + tag, "program %r (%s, comments %s): %s.  Regenerated: %s" % (name, std, "ignored" if ic else "kept", why, show(t1, 14)))
                continue
            res2 = run.parse(std, t1 + "\n", ignore_comments=ic)
            if res2 is None:
                if run.dead:
                    return r
                continue
            ok = res2[0] == "tree" and str(res2[1]) == t1 and shape(res2[1]) == shape(res[1])
            r.ob(ok, "%s: fixpoint" % tag)
            if not ok:
                if res2[0] != "tree":
                    why = "its regenerated text is rejected (%s %s)" % (res2[1], (res2[2] or "")[:80])
                elif str(res2[1]) != t1:
                    why = "the regenerated text prints differently the second time"
                else:
                    why = "the regenerated text parses to a tree of another shape"
                run.fail("fixpoint|" + tag, "program %r (%s, comments %s): %s.  Regenerated: %s" % (name, std, "ignored" if ic else "kept", why, show(t1, 14)))
    r.floor = 4
    return r


WORD = re.compile(r"'(?:[^']|'')*'|\"(?:[^\"]|\"\")*\"|[A-Za-z_]\w*|\d+\.?\d*(?:[edED][+-]?\d+)?")


def code_words(text, drop_comments=True):
    out = []
    for line in text.split("\n"):
        # cut a trailing comment (outside literals)
        q, cut = None, len(line)
        for i, ch in enumerate(line):
            if q:
                if ch == q:
                    q = None
            elif ch in "'\"":
                q = ch
            elif ch == "!":
                cut = i
                break
        out += WORD.findall(line[:cut])
    return out


def same_tokens(src, printed, ignore_comments):
    """names keep their spelling, literals and numbers are reproduced: compare the word sequences, leaving out what the printer writes
    in upper case (keywords, intrinsic names) from both sides"""
    pw = code_words(printed)
    sw = code_words(src)
    keywords = {w.lower() for w in pw if w[0].isalpha() and w.upper() == w and len(w) > 1} | {"kind", "len", "unit", "fmt"}
    # words that are names somewhere in the printed text are names, whatever keyword they resemble
    names = {w for w in pw if (w[0].isalpha() or w[0] == "_") and w.upper() != w}
    keywords -= {n.lower() for n in names}
    a = [w for w in sw if not (w[0].isalpha() and w.lower() in keywords)]
    b = [w for w in pw if not (w[0].isalpha() and w.lower() in keywords)]
    # (an intrinsic reference is printed in upper case -- documented -- also where the same word is a declared name elsewhere)
    def same(x, y):
        return x == y or (y.isupper() and x.lower() == y.lower())
    if len(a) == len(b) and all(same(x, y) for x, y in zip(a, b)):
        return True, ""
    k = next((i for i in range(min(len(a), len(b))) if not same(a[i], b[i])), min(len(a), len(b)))
    return False, "word %d of the source is %r, of the regenerated text %r (source words %r ..., regenerated %r ...)" \
        % (k + 1, a[k] if k < len(a) else None, b[k] if k < len(b) else None, a[max(0, k - 2):k + 3], b[max(0, k - 2):k + 3])


# =====================================================================================================
GARBAGE = ["x = = 3", "call 1a(", "integer :: :: q", "@ nonsense"]


def statement_lines(src):
    """indices of physical lines that hold a whole statement of their own (no comment lines, no continuation lines, no END/opening lines)"""
    lines = src.rstrip("\n").split("\n")
    out = []
    for k, l in enumerate(lines):
        t = l.strip().lower()
        if not t or t.startswith("!") or t.startswith("#") or l.rstrip().endswith("&") or (k > 0 and lines[k - 1].split("!")[0].rstrip().endswith("&")):
            continue
        out.append(k)
    return lines, out


@guarded
def errline_rule(m, rid, tier):
    r = RuleResult(rid, "the reported error line, by interpretation of whole programs: one statement of a valid program (any position: "
                        "specification part, nested constructs, contained subprograms, END and opening statements included) is replaced "
                        "by text that is no Fortran statement; the parser, interpreted, raises FortranSyntaxError whose message names "
                        "that physical line and quotes its text (`at line N` / `>>>text`)")
    run = Run(m, r)
    rng = random.Random("errline")
    for name in (pick(PS.VALID, tier, 3) if tier == "thorough" else sorted(set(pick(PS.VALID, tier, 2)) | {"anon"})):
        src = PS.VALID[name]
        lines, cand = statement_lines(src)
        ks = cand if tier == "thorough" else rng.sample(cand, min(3, len(cand)))
        for k in ks:
            mut = list(lines)
            indent = lines[k][:len(lines[k]) - len(lines[k].lstrip())]
            mut[k] = indent + GARBAGE[k % len(GARBAGE)]
            s = "\n".join(mut) + "\n"
            res = run.parse("f2003", s, ignore_comments=(k % 2 == 0))
            if res is None:
                if run.dead:
                    return r
                continue
            r.instances += 1
            want = "at line %d\n>>>%s" % (k + 1, mut[k])
            ok = res[0] == "error" and res[1] == "FortranSyntaxError" and (res[2] or "").startswith(want)
            r.ob(ok, "%s line %d: reported there" % (name, k + 1) if r.obligations % 6 == 0 else None)
            if not ok:
                got = "a tree (the text was accepted)" if res[0] == "tree" else "%s: %r" % (res[1], (res[2] or "")[:70])
                run.fail("errline|%s" % ("accepted" if res[0] == "tree" else res[1] if res[1] != "FortranSyntaxError" else "line"),
                         "program %r with line %d replaced by %r: expected FortranSyntaxError %r, got %s.  Source: %s"
                         % (name, k + 1, mut[k].strip(), want, got, show(s, 12)))
    r.floor = 6
    return r


# =====================================================================================================
END_RE = re.compile(r"^\s*(\d+\s+)?end\b", re.I)
# opening statements whose removal leaves an END without a partner (not PROGRAM: a main program needs none; not a label-terminated DO:
# its terminal statement is an ordinary labelled statement)
OPEN_RE = re.compile(r"^\s*(\d+\s+)?(\w+\s*:\s*)?(module\s+\w+\s*$|subroutine|function|integer function|do\s+(?!\d)|if\b.*\bthen\s*$|select|where\s*\(.*\)\s*$|forall\s*\(.*\)\s*$|associate|type\s*::|interface|block\s*$|block\s+data\b|critical\s*$|submodule)", re.I)


def one_line_form(line):
    """`where (mask) x = y` / `forall (i = 1:n) a(i) = 0` / `if (c) x = 1`: a statement, not the opening of a construct"""
    mo = re.match(r"\s*(\d+\s+)?(\w+\s*:\s*)?(where|forall|if)\s*\(", line, re.I)
    if not mo:
        return False
    depth, i = 1, mo.end()
    while i < len(line) and depth:
        depth += {"(": 1, ")": -1}.get(line[i], 0)
        i += 1
    rest = line[i:].split("!")[0].strip().lower()
    return bool(rest) and rest != "then"


@guarded
def nesting_rule(m, rid, tier):
    r = RuleResult(rid, "ill-nested programs are rejected, by interpretation of whole programs: from each valid program, variants are made "
                        "by deleting an END statement, repeating one, deleting an opening statement, giving an END another construct or "
                        "unit name, and unbalancing the parentheses of a statement; the parser, interpreted, answers each with an error "
                        "(never a tree)")
    run = Run(m, r)
    rng = random.Random("nesting")
    for std, table in (("f2003", PS.VALID), ("f2008", PS.VALID_2008)):
        names_ = pick(table, tier, 3 if std == "f2003" else 1)
        if std == "f2003" and "blockdata" not in names_:
            names_ = names_ + ["blockdata"]      # (small; the one unit whose name check does not go through a scoping region)
        for name in names_:
            src = table[name]
            lines = src.rstrip("\n").split("\n")
            ends = [k for k, l in enumerate(lines) if END_RE.match(l)]
            opens = [k for k, l in enumerate(lines) if OPEN_RE.match(l) and not END_RE.match(l) and not one_line_form(l)]
            named_ends = [k for k in ends if re.search(r"end\s+(?:block\s+data|\w+)\s+\w+\s*$", lines[k], re.I)]
            parens = [k for k, l in enumerate(lines) if "(" in l.split("!")[0] and "'" not in l and '"' not in l]
            muts = []
            bare_ends = [k for k in ends if re.match(r"\s*end\s*$", lines[k], re.I)]
            for k in ends:
                # (a bare END further down closes whatever unit is open: deleting an END above it leaves a well-nested file)
                if not any(b > k for b in bare_ends):
                    muts.append(("END deleted", lines[:k] + lines[k + 1:], k))
                if not re.match(r"\s*end(\s+program\b.*)?\s*$", lines[k], re.I):      # (a lone END / END PROGRAM is an empty main program)
                    muts.append(("END repeated", lines[:k + 1] + [lines[k]] + lines[k + 1:], k))
            for k in opens:
                muts.append(("opening statement deleted", lines[:k] + lines[k + 1:], k))
            # the labelled statement that ends a `do <label> ...` loop
            do_labels = {mo.group(1) for l in lines for mo in [re.match(r"\s*(?:\w+\s*:\s*)?do\s+(\d+)\b", l, re.I)] if mo}
            for k, l in enumerate(lines):
                mo = re.match(r"\s*(\d+)\s+\S", l)
                if mo and mo.group(1) in do_labels:
                    muts.append(("terminal statement of a labelled DO deleted", lines[:k] + lines[k + 1:], k))
            for k in named_ends:
                muts.append(("END with another name", lines[:k] + [re.sub(r"(\w+)\s*$", r"other_\1", lines[k])] + lines[k + 1:], k))
            for k in parens:
                l = lines[k]
                i = l.index("(")
                muts.append(("'(' surplus", lines[:k] + [l[:i] + "(" + l[i:]] + lines[k + 1:], k))
                j = l.rindex(")") if ")" in l else None
                if j is not None:
                    muts.append(("')' missing", lines[:k] + [l[:j] + l[j + 1:]] + lines[k + 1:], k))
            if tier != "thorough":
                muts = rng.sample(muts, min(6, len(muts)))
            for what, mut, k in muts:
                s = "\n".join(mut) + "\n"
                res = run.parse(std, s, ignore_comments=True)
                if res is None:
                    if run.dead:
                        return r
                    continue
                r.instances += 1
                key = "%s|%s|%s" % (name, what, lines[k].strip()[:30])
                ok = res[0] == "error"
                r.ob(ok, "%s: %s at line %d rejected" % (name, what, k + 1) if r.obligations % 10 == 0 else None)
                if not ok:
                    run.fail("accepted|" + key, "program %r (%s) with %s (line %d, %r) is accepted; regenerated as: %s"
                             % (name, std, what, k + 1, lines[k].strip(), show(str(res[1]), 14)))
    r.floor = 6
    return r


# =====================================================================================================
def tables_snapshot(w):
    """{top-level name: (sorted symbols, sorted modules, [children...])} of the interpreted symbol tables"""
    ev = w.rw.ev

    def one(t):
        data = t.fields.get("_data_symbols") or {}
        mods = t.fields.get("_modules") or {}
        return (t.get(ev, "name"), sorted((k, v.primitive_type) for k, v in data.items()), sorted(mods.keys()),
                [one(c) for c in t.get(ev, "children")])
    top = w.tables.fields.get("_symbol_tables") or {}
    return sorted(one(t) for t in top.values()), (w.tables.fields.get("_current_scope") is None)


@guarded
def state_rule(m, rid, tier):
    r = RuleResult(rid, "a failed parse leaves nothing behind, by interpretation of whole programs: the same (interpreted) parser is given "
                        "an invalid program -- an error at depth, inside nested scoping units -- and then a valid one; after the failure "
                        "no scoping region is open and no symbol table of the failed parse remains, and the valid program gives the "
                        "tree, text and symbol tables it gives to a freshly created parser")
    run = Run(m, r)
    rng = random.Random("state")
    names = pick(PLAIN_SAMPLES, tier, 2)
    fresh_cache = {}
    for name in names:
        src = PS.VALID[name]
        lines, cand = statement_lines(src)
        # break a statement deep inside (the later the deeper, usually)
        ks = [cand[len(cand) * 2 // 3], cand[-2]] if tier == "thorough" else [cand[len(cand) * 2 // 3]]
        for k in ks:
            mut = list(lines)
            mut[k] = "  x = = 3"
            bad = "\n".join(mut) + "\n"
            for follow in ((names[:3] if name not in names[:3] else names[1:4]) if tier == "thorough" else names[:1]):
                good = PS.VALID[follow]
                w = world(m, "f2003")
                if follow not in fresh_cache:
                    fresh = run.parse("f2003", good, ignore_comments=True)
                    if fresh is None:
                        if run.dead:
                            return r
                        continue
                    fresh_cache[follow] = (fresh[0], str(fresh[1]) if fresh[0] == "tree" else fresh[1:], tables_snapshot(w))
                fresh_out = fresh_cache[follow]
                res = run.parse("f2003", bad, ignore_comments=True)
                if res is None:
                    if run.dead:
                        return r
                    continue
                r.instances += 1
                snap = tables_snapshot(w)
                clean = res[0] == "error" and snap == ([], True)
                r.ob(clean, "%s broken at line %d: no table, no open scope afterwards" % (name, k + 1))
                if not clean:
                    run.fail("left-behind|%s|%s" % (name, "+".join(t[0] for t in snap[0]) or "open-scope"), "after the failed parse of %r (line %d replaced by `x = = 3`; outcome %s) the symbol tables "
                             "hold %r and %s: a later parse with the same parser sees them"
                             % (name, k + 1, res[0] if res[0] == "tree" else res[1], snap[0], "no scope is open" if snap[1] else "a scoping region is still open"))
                if not clean:
                    continue            # what the next parse sees of it is the same defect
                again = run.parse("f2003", good, clear=False, ignore_comments=True)
                if again is None:
                    if run.dead:
                        return r
                    continue
                r.instances += 1
                again_out = (again[0], str(again[1]) if again[0] == "tree" else again[1:], tables_snapshot(w))
                same = again_out == fresh_out
                r.ob(same, "%s after the failed %s: as with a fresh parser" % (follow, name))
                if not same:
                    what = "outcome" if again_out[0] != fresh_out[0] else ("text" if again_out[1] != fresh_out[1] else "symbol tables")
                    run.fail("history|%s|%s" % (name, what), "program %r parsed after the failed parse of %r differs from its parse by a fresh "
                             "parser in its %s: %r vs %r" % (follow, name, what, again_out[1 if what != "symbol tables" else 2],
                                                               fresh_out[1 if what != "symbol tables" else 2]))
    r.floor = 2
    return r


# =====================================================================================================
@guarded
def tree_rule(m, rid, tier):
    r = RuleResult(rid, "the tree is a tree, by interpretation of whole programs (Base.__new__, BlockBase.match, _set_parent and walk "
                        "interpreted): in the tree of every sample program each node object occurs once, the parent of every node is the "
                        "node that holds it (directly or in a nested tuple/list), the root has no parent, get_root() gives the root from "
                        "everywhere, and walk() yields every node once, in the order of the regenerated source")
    run = Run(m, r)
    cases = [("f2003", n, PS.VALID[n]) for n in (TREE_SAMPLES if tier == "thorough" else sorted(set(pick(TREE_SAMPLES, tier, 1)) | {"cppbody"}))] \
        + [("f2008", n, PS.VALID_2008[n]) for n in pick(PS.VALID_2008, tier, 1)]
    for std, name, src in cases:
        for ic in ((True, False) if tier == "thorough" else (False,)):
            res = run.parse(std, src, ignore_comments=ic)
            if res is None:
                if run.dead:
                    return r
                continue
            if res[0] != "tree":
                continue
            w = world(m, std)
            root = res[1]
            r.instances += 1
            seen = {}
            problems = []

            def visit(node, holder):
                if isinstance(node, TR.Inst):
                    if id(node) in seen:
                        problems.append(("twice", "%s %r occurs twice in the tree (under %s and under %s)"
                                         % (node.cls.name, str(node)[:40], seen[id(node)], holder.cls.name if holder else "the root")))
                        return
                    seen[id(node)] = holder.cls.name if holder else "the root"
                    par = node.fields.get("parent")
                    if par is not holder:
                        problems.append(("parent", "%s %r is held by %s but its parent is %s"
                                         % (node.cls.name, str(node)[:40], holder.cls.name if holder else "nothing (it is the root)",
                                            par.cls.name if isinstance(par, TR.Inst) else repr(par))))
                    for field in ("content", "items"):
                        v = node.fields.get(field)
                        if v is not None:
                            visit(v, node)
                            break
                elif isinstance(node, (list, tuple)):
                    for x in node:
                        visit(x, holder)
            visit(root, None)
            try:
                all_nodes = list(nodes_of(root))
                for n_ in all_nodes[::7]:
                    gr = n_.get(w.ev, "get_root")()
                    if gr is not root:
                        problems.append(("get_root", "get_root() from %s %r gives %s, not the root" % (n_.cls.name, str(n_)[:30], getattr(gr, "cls", gr))))
                        break
                walked = w.ev.g["walk"](root)
                ids = [id(x) for x in walked if isinstance(x, TR.Inst)]
                want = [id(x) for x in all_nodes]
                if sorted(ids) != sorted(want):
                    problems.append(("walk", "walk() yields %d nodes, the tree has %d (a node is skipped or visited twice)" % (len(ids), len(want))))
                elif ids != want:
                    problems.append(("walk-order", "walk() does not yield the nodes in source order"))
            except PE.Unsupported as err:
                r.error("walk / get_root cannot be interpreted statically (%s)" % err)
                return r
            r.ob(not problems, "%s (%s): %d nodes, all linked" % (name, std, len(seen)))
            for kind, text in problems[:2]:
                run.fail("tree|%s|%s" % (kind, name), "program %r (%s, comments %s): %s" % (name, std, "ignored" if ic else "kept", text))
    r.floor = 2
    return r


# =====================================================================================================
@guarded
def comments_rule(m, rid, tier):
    r = RuleResult(rid, "comments in the tree, by interpretation of whole programs: with comments kept, every comment of the sample "
                        "programs (leading, between statements, trailing, inside a continuation, inside constructs, after the last END) "
                        "is in the regenerated text exactly once, unchanged, in source order, a trailing comment directly behind its "
                        "statement; with comments ignored the tree is the tree of the source without any comment")
    run = Run(m, r)
    names = ["comments", "main"] + ([n for n in PLAIN_SAMPLES if n not in ("comments", "main")] if tier == "thorough" else [])
    for name in names:
        src = PS.VALID[name]
        kept = run.parse("f2003", src, ignore_comments=False)
        if kept is None:
            if run.dead:
                return r
            continue
        r.instances += 1
        if kept[0] != "tree":
            r.ob(False)
            run.fail("rejected|%s" % name, "program %r is rejected with comments kept: %s %s" % (name, kept[1], (kept[2] or "")[:60]))
            continue
        printed = str(kept[1])
        want = source_comments(src)
        got = [l.strip() for l in printed.split("\n") if l.strip().startswith("!")]
        ok = got == [c for c, _ in want]
        # place: the statement (code words) printed directly in front of each comment is the statement the comment follows in the source
        if ok:
            pl = [l.strip() for l in printed.split("\n")]
            for (c, before), idx in zip(want, [i for i, l in enumerate(pl) if l.startswith("!")]):
                prev = next((pl[j] for j in range(idx - 1, -1, -1) if not pl[j].startswith("!")), None)
                a = [w_.lower() for w_ in code_words(prev or "")][:3]
                b = [w_.lower() for w_ in code_words(before or "")][:3]
                if before is not None and a[:1] != b[:1]:
                    ok = False
                    run.fail("place|%s" % name, "program %r: the comment %r follows %r in the source but %r in the regenerated text"
                             % (name, c, before.strip(), prev))
                    break
        else:
            run.fail("comments|%s" % name, "program %r: the comments of the source are %r; the regenerated text has %r" % (name, [c for c, _ in want], got))
        r.ob(ok, "%s: %d comments kept once and in place" % (name, len(want)))
        # ignored == removed
        ign = run.parse("f2003", src, ignore_comments=True)
        bare = run.parse("f2003", strip_comments(src), ignore_comments=True)
        if ign is None or bare is None:
            if run.dead:
                return r
            continue
        r.instances += 1
        a = (ign[0], str(ign[1]) if ign[0] == "tree" else ign[1], shape(ign[1]) if ign[0] == "tree" else None)
        b = (bare[0], str(bare[1]) if bare[0] == "tree" else bare[1], shape(bare[1]) if bare[0] == "tree" else None)
        r.ob(a == b, "%s: ignoring comments == removing them" % name)
        if a != b:
            run.fail("ignored|%s" % name, "program %r parsed with comments ignored differs from the parse of the same source with every comment "
                     "removed: %r vs %r" % (name, a[1], b[1]))
    r.floor = 3
    return r


def split_comment(line):
    q = None
    for i, ch in enumerate(line):
        if q:
            if ch == q:
                q = None
        elif ch in "'\"":
            q = ch
        elif ch == "!":
            return line[:i], line[i:]
    return line, None


def source_comments(src):
    """[(comment text, the code line it follows or None)] in source order"""
    out = []
    last_code = None
    pending = None          # code of a continued statement
    for line in src.rstrip("\n").split("\n"):
        code, com = split_comment(line)
        if code.strip():
            if pending is None:
                last_code = code
            if code.rstrip().endswith("&"):
                pending = pending or code
            else:
                pending = None
        if com is not None:
            out.append((com.strip(), last_code))
    return out


def strip_comments(src):
    out = []
    for line in src.rstrip("\n").split("\n"):
        code, com = split_comment(line)
        if com is not None and not code.strip():
            continue
        out.append(code.rstrip())
    return "\n".join(out) + "\n"


# =====================================================================================================
# what the scoping structure of the samples is: {table: (declared symbols, used modules, [nested tables])}
EXPECTED_TABLES = {
    "anon": [("consts", ["pi"], [], []), ("fparser2:main_program", ["count", "val"], [], []), ("helper", ["x"], [], [])],
    "main": [("main", ["arr", "idx", "j"], [], [])],
    "module": [("mod_a", ["nn"], ["other_mod"], [("swap_i", ["a", "b", "tmp"], [], []), ("twice", ["x", "y"], [], [])])],
    "shadow": [("shade", ["cos"], [], [("first", ["sin", "x"], [], []), ("second", ["y"], [], [])])],
    "function": [("fact", ["i", "n"], [], []), ("show", ["x"], [], [])],
    "select": [("case_it", ["k", "msg"], [], [])],
}
# intrinsic references: exactly these calls are intrinsic (printed in upper case); the other name(args) of the line are not
EXPECTED_INTRINSICS = {
    "shadow": {"x = sin(1) + cos(2) + TAN(0.5)": True, "y = SIN(1.0) + cos(1) + ABS(- 1.0)": True},
    "main": {"Arr(1) = SIN(1.0) + REAL(j)": True},
}


@guarded
def symtab_rule(m, rid, tier):
    r = RuleResult(rid, "symbol tables after a parse, by interpretation of whole programs: for the sample programs there is one top-level "
                        "table per module / main program / external subprogram and one nested table per contained subprogram, each with "
                        "the variables declared in that scope and the modules it uses; a reference name(args) is printed as an intrinsic "
                        "(upper case) exactly when the name is an intrinsic that no enclosing scope declares -- a declaration in a sibling "
                        "scope has no effect; in Fortran 2008 a BLOCK has a table of its own")
    run = Run(m, r)
    names = sorted(EXPECTED_TABLES) if tier == "thorough" else ["shadow", "module", "anon"]
    for name in names:
        res = run.parse("f2003", PS.VALID[name], ignore_comments=True)
        if res is None:
            if run.dead:
                return r
            continue
        r.instances += 1
        if res[0] != "tree":
            r.ob(False)
            run.fail("rejected|%s" % name, "program %r is rejected: %s %s" % (name, res[1], (res[2] or "")[:60]))
            continue
        snap, closed = tables_snapshot(world(m, "f2003"))

        def simple(t):
            return (t[0], [s_[0] for s_ in t[1]], t[2], [simple(c) for c in t[3]])
        got = [simple(t) for t in snap]
        want = sorted((n, sorted(sy), sorted(mo), [(cn, sorted(cs), sorted(cm), []) for cn, cs, cm, _ in kids]) for n, sy, mo, kids in EXPECTED_TABLES[name])
        ok = got == want and closed
        r.ob(ok, "%s: tables %r" % (name, [t[0] for t in got]))
        if not ok:
            run.fail("tables|%s" % name, "program %r: the symbol tables are %r%s; its scoping units and declarations are %r"
                     % (name, got, "" if closed else " (and a scope is still open)", want))
        printed = str(res[1])
        for line in EXPECTED_INTRINSICS.get(name, {}):
            r.instances += 1
            ok2 = line in printed
            r.ob(ok2, "%s: `%s`" % (name, line))
            if not ok2:
                near = next((l.strip() for l in printed.split("\n") if l.strip().lower().startswith(line.lower().split("=")[0].strip().lower() + " =")), "?")
                run.fail("intrinsic|%s|%s" % (name, line[:12]), "program %r: expected the statement `%s` (intrinsic references in upper case, "
                         "names declared in an enclosing scope left alone); the regenerated text has `%s`" % (name, line, near))
    # a BLOCK construct opens a scope (Fortran 2008)
    res = run.parse("f2008", PS.VALID_2008["block"], ignore_comments=True)
    if res is not None and res[0] == "tree":
        r.instances += 1
        snap, closed = tables_snapshot(world(m, "f2008"))
        got = [(t[0], [s_[0] for s_ in t[1]], [(c[0].split(":")[0], [s_[0] for s_ in c[1]]) for c in t[3]]) for t in snap]
        ok = len(got) == 1 and got[0][0] == "blk" and got[0][1] == ["i"] and len(got[0][2]) == 1 and got[0][2][0][1] == ["sin"] and closed
        r.ob(ok, "block: %r" % (got,))
        if not ok:
            run.fail("tables|block", "program 'block' (f2008): the symbol tables are %r; expected table blk with i and one nested table (the "
                     "BLOCK construct) with sin" % (got,))
        r.instances += 1
        ok2 = "i = sin" in str(res[1])
        r.ob(ok2)
        if not ok2:
            run.fail("intrinsic|block", "program 'block': `i = sin` inside the BLOCK that declares sin is regenerated as %r"
                     % next((l.strip() for l in str(res[1]).split("\n") if l.strip().lower().startswith("i = s")), "?"))
    # a BLOCK that is read twice (the enclosing labelled DO is first tried as a block DO, then read again as an action-term DO, its
    # statements served from the per-line cache): still one table, holding the declaration
    res = run.parse("f2008", PS.VALID_2008["blockdo"], ignore_comments=True)
    if res is not None:
        r.instances += 1
        got = None
        if res[0] == "tree":
            snap, closed = tables_snapshot(world(m, "f2008"))
            got = [(t[0], [s_[0] for s_ in t[1]], [(c[0].split(":")[0], [s_[0] for s_ in c[1]]) for c in t[3]]) for t in snap]
        ok = got == [("scale", ["a", "i", "n"], [("block", ["t"])])] and closed
        r.ob(ok, "blockdo: %r" % (got,))
        if not ok:
            run.fail("tables|blockdo", "program 'blockdo' (f2008, a BLOCK in the body of `do 10 ... / 10 a(i) = ...`): %s; expected table scale "
                     "with a, i, n and one nested table (the BLOCK) with t -- the loop body is read twice, and the second reading must "
                     "neither add a second table nor lose the declaration"
                     % ("the symbol tables are %r" % (got,) if got is not None else "rejected with %s %s" % (res[1], (res[2] or "")[:60])))
    r.floor = 5
    return r


# =====================================================================================================
@guarded
def standards_rule(m, rid, tier):
    r = RuleResult(rid, "the two standards on whole programs, by interpretation: every Fortran 2003 sample program is accepted by the "
                        "parser created for Fortran 2008 and regenerates to the same text (comments kept and ignored); the Fortran 2008 "
                        "samples (BLOCK, CRITICAL, ERROR STOP, SUBMODULE) are accepted for 2008 and rejected with FortranSyntaxError for 2003; "
                        "with the symbol tables' consistency checks switched on the samples are accepted all the same")
    run = Run(m, r)
    for name in pick(PS.VALID, tier, 2):
        for ic in ((True, False) if tier == "thorough" else (False,)):
            a = run.parse("f2003", PS.VALID[name], ignore_comments=ic)
            b = run.parse("f2008", PS.VALID[name], ignore_comments=ic)
            if a is None or b is None:
                if run.dead:
                    return r
                continue
            r.instances += 1
            ta = str(a[1]) if a[0] == "tree" else None
            tb = str(b[1]) if b[0] == "tree" else None
            ok = ta is not None and ta == tb
            r.ob(ok, "%s: same text under both standards" % name)
            if not ok:
                if tb is None:
                    why = "is rejected by the 2008 parser (%s %s)" % (b[1], (b[2] or "")[:70])
                elif ta is None:
                    why = "is rejected by the 2003 parser (%s)" % (a[1],)
                else:
                    la, lb = ta.split("\n"), tb.split("\n")
                    k = next((i for i in range(min(len(la), len(lb))) if la[i] != lb[i]), min(len(la), len(lb)))
                    why = "regenerates differently: line %d is %r for 2003 and %r for 2008" % (k + 1, la[k] if k < len(la) else None, lb[k] if k < len(lb) else None)
                run.fail("standards|%s" % name, "the Fortran 2003 program %r (comments %s) %s" % (name, "ignored" if ic else "kept", why))
    for name in sorted(PS.VALID_2008):
        a = run.parse("f2003", PS.VALID_2008[name], ignore_comments=True)
        b = run.parse("f2008", PS.VALID_2008[name], ignore_comments=True)
        if a is None or b is None:
            if run.dead:
                return r
            continue
        r.instances += 1
        ok = b[0] == "tree" and a[0] == "error" and a[1] == "FortranSyntaxError"
        r.ob(ok, "%s: 2008 only" % name)
        if not ok:
            run.fail("standards|2008|%s" % name, "the Fortran 2008 program %r: 2008 parser -> %s, 2003 parser -> %s (expected a tree and "
                     "FortranSyntaxError)" % (name, b[0] if b[0] == "tree" else b[1], a[0] if a[0] == "tree" else a[1]))
    # the same with the symbol tables' consistency checks switched on (SYMBOL_TABLES.enable_checks, a public non-default
    # configuration): a program without duplicate declarations is accepted all the same and gives the same text
    for std, table in (("f2008", PS.VALID_2008), ("f2003", PS.VALID), ("f2008", PS.VALID)):
        names = sorted(table) if (tier == "thorough" or table is PS.VALID_2008) else pick(table, tier, 1)
        for name in names:
            a = run.parse(std, table[name], ignore_comments=True)
            b = run.parse(std, table[name], ignore_comments=True, symbol_checks=True)
            if a is None or b is None:
                if run.dead:
                    return r
                continue
            r.instances += 1
            ok = a[0] == "tree" and b[0] == "tree" and str(a[1]) == str(b[1])
            r.ob(ok, "%s (%s): accepted with the table checks on" % (name, std))
            if not ok:
                run.fail("standards|checks|%s|%s" % (std, name), "the sample program %r is %s by the %s parser once SYMBOL_TABLES.enable_checks(True) "
                         "is in force (without the checks: %s)"
                         % (name, "rejected with %s %s" % (b[1], (b[2] or "")[:80]) if b[0] != "tree" else "regenerated differently", std,
                            "a tree" if a[0] == "tree" else a[1]))
    r.floor = 6
    return r


# =====================================================================================================
GARBAGE_SOURCES = [
    "program p\n  x = = 3\nend program p\n",
    "program p\n  call foo(\nend program p\n",
    "subroutine s(a\n  integer a\nend subroutine s\n",
    "module m\ncontains\n  subroutine s()\n  end subroutine t\nend module m\n",
    "program p\n  if (a then\n  end if\nend program p\n",
    "program p\n  do i = 1\n  end do\nend program p\n",
    "program p\n  integer :: i\n  i = sin(1.0, 2.0)\nend program p\n",
    "  i = cos()\nend\n",
    "program p\n  print *, 'unterminated\nend program p\n",
    "end\nend\n",
    "program p\n  10 format (3q)\nend program p\n",
    "program p\n  real :: a(\nend program p\n",
    "function f(\nend function\n",
    "program p\n  type t\n    integer :: i\n  end type u\nend program p\n",
    "program p\n  select case (i)\n  case (\n  end select\nend program p\n",
    "@@@\n",
    "program p\n  use\nend program p\n",
    "program p\nend program q\n",
    "module m\n  interface\n    subroutine s(\n  end interface\nend module m\n",
    "program p\n  where (a > 0\n  end where\nend program p\n",
    # error paths of the DO constructs: terminal statement missing, with another label, not allowed to end a DO
    "subroutine s(a, n)\n  real :: a(n)\n  do 10 i = 1, n\n    a(i) = 0.0\n  a(1) = 1.0\nend subroutine s\n",
    "subroutine s(a, n)\n  real :: a(n)\n  do 10 i = 1, n\n    a(i) = 0.0\n20 continue\nend subroutine s\n",
    "subroutine s(a, n)\n  real :: a(n)\n  do 10 i = 1, n\n    a(i) = 0.0\n10 return\n  a(1) = 1.0\nend subroutine s\n",
    "program p\n  do 10 i = 1, 2\n  do 10 j = 1, 2\n    x = 1\n  y = 2\nend program p\n",
    # shapes and bounds: a section where a shape is wanted, bounds remapping, bad bounds
    "subroutine s()\n  real :: a(1:2, :)\nend subroutine s\n",
    "subroutine s(p, t)\n  real, pointer :: p(:,:)\n  real, target :: t(9)\n  p(1:3, 1:3) => t\nend subroutine s\n",
    "subroutine s()\n  real :: a(:2)\n  allocate (a(1:))\nend subroutine s\n",
    "program p\n  integer :: i(3)\n  i(1:2:) = 0\n  i(::) = 1\nend program p\n",
    # a name on END that differs, for every kind of unit
    "block data init_c\n  integer :: k\n  common /c/ k\nend block data init_d\n",
    "function f(x)\n  f = x\nend function g\n",
    # odd but accepted or rejected without fuss
    "program p\n  ;\nend program p\n",
    "program p\n  x = 1 ;; y = 2 ;\nend program p\n",
    "program p\n  implicit real(a-h, o-z)\n  character*(*) c\nend program p\n",
]


@guarded
def garbage_rule(m, rid, tier):
    r = RuleResult(rid, "a tree or a FortranSyntaxError, by interpretation of whole programs: %d malformed sources (errors in every kind "
                        "of statement and at every nesting depth, wrong intrinsic arity, unbalanced delimiters, stray END, mismatched "
                        "names) are parsed under both standards; the parser, interpreted, ends with a tree or with FortranSyntaxError -- "
                        "no NoMatchError, InternalSyntaxError, InternalError, AttributeError, IndexError ... comes out (the process exit "
                        "on a mismatched unit name is known finding F3)" % len(GARBAGE_SOURCES))
    run = Run(m, r)
    srcs = GARBAGE_SOURCES
    for std in (("f2003", "f2008") if tier == "thorough" else ("f2008",)):
        for src in srcs:
            res = run.parse(std, src, ignore_comments=True)
            if res is None:
                if run.dead:
                    return r
                continue
            r.instances += 1
            ok = res[0] == "tree" or res[1] in ("FortranSyntaxError", "SystemExit")
            r.ob(ok, "%r: %s" % (src[:30], res[0] if res[0] == "tree" else res[1]) if r.obligations % 5 == 0 else None)
            if not ok:
                run.fail("escapes|%s|%s" % (res[1], src[:24]), "parsing %r (%s) ends in %s (%s): neither a tree nor FortranSyntaxError"
                         % (src, std, res[1], (res[2] or "")[:80]))
    # generated malformed sources: one to three mutations of a sample program -- a token deleted, doubled, swapped with another,
    # replaced by a delimiter / keyword or with one inserted in front of it, the line cut off behind it, a line deleted or doubled,
    # a character deleted, doubled or replaced by punctuation (seeded generator: the same sources on every run)
    rng = random.Random("garbage")
    pools = [("f2003", PS.VALID), ("f2008", PS.VALID_2008), ("f2008", PS.VALID)]
    small = [n for n in sorted(PS.VALID) if len(PS.VALID[n]) < 420]
    count = 160 if tier == "thorough" else 14
    made = 0
    while made < count:
        std, table = pools[made % 3]
        names = sorted(table) if tier == "thorough" else ([n for n in sorted(table) if n in small] or sorted(table)[:1])
        name = names[rng.randrange(len(names))]
        src = table[name]
        for _ in range(1 + rng.randrange(3)):          # 1-3 mutations, as the property's quantifier has it
            src = mutate_token(src, rng) if src is not None else None
        if src is None:
            continue
        made += 1
        res = run.parse(std, src, ignore_comments=bool(made % 2))
        if res is None:
            if run.dead:
                return r
            continue
        r.instances += 1
        ok = res[0] == "tree" or res[1] in ("FortranSyntaxError", "SystemExit")
        r.ob(ok, "%s mutated: %s" % (name, res[0] if res[0] == "tree" else res[1]) if made % 10 == 0 else None)
        if not ok:
            # (the words of the message, not the offending text it quotes: one id per raise site)
            what = " ".join(re.findall(r"[A-Za-z_]{4,}", (res[2] or "").split("\n")[0])[:8])
            run.fail("escapes|%s|%s" % (res[1], what), "parsing a mutated copy of sample %r (%s) ends in %s (%s): neither a tree nor "
                     "FortranSyntaxError.  Source: %s" % (name, std, res[1], (res[2] or "")[:90], show(src, 40)))
    r.floor = 12
    return r


GARBAGE_TOKEN = re.compile(r"'[^'\n]*'|\"[^\"\n]*\"|[A-Za-z_]\w*|\d+\.?\d*(?:[eEdD][+-]?\d+)?|\*\*|//|::|=>|==|/=|<=|>=|\.\w+\.|\S")
GARBAGE_INSERTS = ["(", ")", ",", "=", "::", "'", "*", "%", ":", "/", "(/", "[", ";", "1", "x", ".", " end ", " if ", "=>", "&", "then", "do", "else", "call"]


def mutate_token(src, rng):
    lines = src.rstrip("\n").split("\n")
    k = rng.randrange(len(lines))
    toks = [(mo.start(), mo.end()) for mo in GARBAGE_TOKEN.finditer(lines[k])]
    if not toks:
        return None
    a, b = toks[rng.randrange(len(toks))]
    kind = ("del", "dup", "ins", "swap", "trunc", "rep", "delline", "dupline", "char")[rng.randrange(9)]
    line = lines[k]
    if kind == "delline":
        if len(lines) < 2:
            return None
        del lines[k]
        return "\n".join(lines) + "\n"
    if kind == "dupline":
        lines.insert(k, lines[k])
        return "\n".join(lines) + "\n"
    if kind == "rep":
        line = line[:a] + GARBAGE_INSERTS[rng.randrange(len(GARBAGE_INSERTS))] + line[b:]
    if kind == "char":
        i = rng.randrange(len(line))
        line = line[:i] + ("", line[i] * 2, "()',=:*/&;!.%\"[]<>+- "[rng.randrange(21)])[rng.randrange(3)] + line[i + 1:]
    if kind == "del":
        line = line[:a] + line[b:]
    elif kind == "dup":
        line = line[:b] + " " + line[a:b] + line[b:]
    elif kind == "ins":
        line = line[:a] + GARBAGE_INSERTS[rng.randrange(len(GARBAGE_INSERTS))] + line[a:]
    elif kind == "swap":
        c, d = toks[rng.randrange(len(toks))]
        if (c, d) == (a, b):
            return None
        (a, b), (c, d) = sorted([(a, b), (c, d)])
        line = line[:a] + line[c:d] + line[b:c] + line[a:b] + line[d:]
    else:
        line = line[:b]
    if line == lines[k]:
        return None
    lines[k] = line
    return "\n".join(lines) + "\n"


# =====================================================================================================
@guarded
def include_rule(m, rid, tier):
    r = RuleResult(rid, "INCLUDE in the tree, by interpretation of whole programs on a virtual file system: a run of whole statements of a "
                        "sample program (any run: it may start or end inside a construct) is moved into a file and replaced by an "
                        "INCLUDE line; with the file on the include path the tree and the regenerated text are those of the original "
                        "program; without it the INCLUDE line is an Include_Stmt node at that place and is re-emitted (where the "
                        "program is valid with the line in place)")
    run = Run(m, r)
    rng = random.Random("include-tree")
    for name in pick([n for n in PLAIN_SAMPLES if n != "comments"], tier, 2):
        src = PS.VALID[name]
        base = run.parse("f2003", src, ignore_comments=True)
        if base is None:
            if run.dead:
                return r
            continue
        if base[0] != "tree":
            continue
        base_text, base_shape = str(base[1]), shape(base[1])
        lines, cand = statement_lines(src)
        cand = [k for k in cand if k > 0]
        for rep in range(4 if tier == "thorough" else 2):
            a = rng.choice(cand[:-1])
            b = rng.choice([k for k in cand if k > a] + [len(lines)])
            moved = lines[a:b]
            main = lines[:a] + [rng.choice(["  include 'part.inc'", "include \"part.inc\"", "      INCLUDE 'part.inc'"])] + lines[b:]
            files = {"inc/part.inc": "\n".join(moved) + "\n", "other/part.inc": "  wrong = = 1\n"}
            res = run.parse("f2003", "\n".join(main) + "\n", files=files, ignore_comments=True, include_dirs=["inc", "other"])
            if res is None:
                if run.dead:
                    return r
                continue
            r.instances += 1
            ok = res[0] == "tree" and str(res[1]) == base_text and shape(res[1]) == base_shape
            r.ob(ok, "%s: lines %d-%d moved into a file: same tree" % (name, a + 1, b))
            if not ok:
                why = ("is rejected (%s %s)" % (res[1], (res[2] or "")[:70])) if res[0] != "tree" else \
                    ("regenerates differently" if str(res[1]) != base_text else "gives a tree of another shape")
                run.fail("include|%s" % ("rejected" if res[0] != "tree" else "differs"), "program %r with lines %d-%d moved into inc/part.inc "
                         "and replaced by an INCLUDE line %s.  Main source: %s" % (name, a + 1, b, why, show("\n".join(main), 12)))
    # unresolved: a whole statement of the execution part / specification part replaced by an include line keeps the program valid
    for name, after in (("main", "  j = 0"), ("function", "  r = 1")):
        src = PS.VALID[name]
        if after not in src:
            continue
        s = src.replace(after + "\n", after + "\n  include 'absent.inc'\n", 1)
        res = run.parse("f2003", s, ignore_comments=True, include_dirs=["nowhere"])
        if res is None:
            if run.dead:
                return r
            continue
        r.instances += 1
        ok = False
        why = ""
        if res[0] == "tree":
            text = str(res[1]).split("\n")
            inc = [i for i, l in enumerate(text) if l.strip().upper().startswith("INCLUDE")]
            nodes = [n for n in nodes_of(res[1]) if n.cls.name == "Include_Stmt"]
            prev = text[inc[0] - 1].strip().lower() if inc else ""
            ok = len(inc) == 1 and len(nodes) == 1 and "absent.inc" in text[inc[0]] and prev == after.strip().lower()
            why = "the regenerated text has %d INCLUDE lines and the tree %d Include_Stmt nodes (line before it: %r)" % (len(inc), len(nodes), prev)
        else:
            why = "the program is rejected (%s %s)" % (res[1], (res[2] or "")[:60])
        r.ob(ok, "%s: unresolved include kept in place" % name)
        if not ok:
            run.fail("unresolved|%s" % name, "program %r with `include 'absent.inc'` (no such file) behind `%s`: %s" % (name, after.strip(), why))
    r.floor = 3
    return r


# directive lines whose regenerated text is their own text (checked against the printers when this table was written)
DIRECTIVES = ["#if defined(X) && (Y > 1)", "#ifdef X", "#ifndef X", "#elif Y", "#else", "#endif", "#include \"file.h\"", "#define A 1",
              "#define F(x) ((x) + 1)", "#undef A", "#line 12 \"f.F90\"", "#error stop here", "#warning careful", "#"]


def strip_directives(sh):
    """the shape of a tree without its preprocessor-directive nodes.  Where a directive sits inside a specification part it is wrapped in
    a part node of its own (an `Implicit_Part` that holds nothing else), and between the components of a derived type it splits the
    `Component_Part` in two: part nodes left empty are dropped and neighbouring part nodes of one class are joined, so that what is
    compared is every construct and every statement, in their nesting."""
    name, kids = sh
    if not isinstance(kids, list):
        return sh
    out = []
    for k in kids:
        if isinstance(k, tuple) and isinstance(k[0], str) and k[0].startswith("Cpp_"):
            continue
        k = strip_directives(k)
        if isinstance(k[1], list) and not k[1]:
            continue
        if out and isinstance(k[1], list) and isinstance(out[-1][1], list) and out[-1][0] == k[0] and k[0].endswith("_Part"):
            out[-1] = (k[0], out[-1][1] + k[1])
            continue
        out.append(k)
    return (name, out)


def shared_do_boundary(lines, k):
    """is line k the second `do <label>` of two adjacent DO statements with one label?"""
    if k == 0:
        return False
    a = re.match(r"\s*(?:\w+\s*:\s*)?do\s+(\d+)\b", lines[k - 1], re.I)
    b = re.match(r"\s*(?:\w+\s*:\s*)?do\s+(\d+)\b", lines[k], re.I)
    return bool(a and b and a.group(1) == b.group(1))


@guarded
def directive_rule(m, rid, tier):
    r = RuleResult(rid, "preprocessor lines in the tree, by interpretation of whole programs: %d kinds of directive lines are inserted "
                        "between the statements of the sample programs (at any depth, before the first and after the last statement); "
                        "the program is accepted, the regenerated text holds every inserted line once, unchanged and in order, and "
                        "without those lines it is the regenerated text of the original program" % len(DIRECTIVES))
    run = Run(m, r)
    rng = random.Random("directive-tree")
    for name in pick([n for n in PLAIN_SAMPLES if n != "comments"], tier, 2):
        src = PS.VALID[name]
        base = run.parse("f2003", src, ignore_comments=True)
        if base is None:
            if run.dead:
                return r
            continue
        if base[0] != "tree":
            continue
        base_text = str(base[1])
        base_shape = strip_directives(shape(base[1]))
        lines, cand = statement_lines(src)
        # (between the DO statements of a nest that shares its terminal statement a directive line makes the parse fail: the named
        #  case below carries that finding, F74)
        cand = [k for k in cand if not shared_do_boundary(lines, k)]
        for rep in range(3 if tier == "thorough" else 1):
            pos = sorted(rng.sample(cand + [len(lines)], min(4, len(cand))))
            out, used = [], []
            for k, l in enumerate(lines + [None]):
                if k in pos:
                    d = rng.choice(DIRECTIVES)
                    used.append(d)
                    out.append(d)
                if l is not None:
                    out.append(l)
            res = run.parse("f2003", "\n".join(out) + "\n", ignore_comments=True)
            if res is None:
                if run.dead:
                    return r
                continue
            r.instances += 1
            ok = False
            if res[0] == "tree":
                text = str(res[1]).split("\n")
                got = [l.strip() for l in text if l.strip().startswith("#")]
                # (a directive in front of a construct is collected as the first child of that construct, which only moves the
                # indentation of the opening statement: lines are compared without their indentation)
                # (a statement label is printed over the first columns of the indentation: the blanks behind it belong to it)
                def flat(l):
                    return re.sub(r"^(\d+)\s+", r"\1 ", l.strip())
                rest = "\n".join(flat(l) for l in text if not l.strip().startswith("#"))
                same_text = rest == "\n".join(flat(l) for l in base_text.split("\n"))
                same_tree = strip_directives(shape(res[1])) == base_shape
                ok = got == used and same_text and same_tree
                why = ("the directive lines of the regenerated text are %r, inserted were %r" % (got, used)) if got != used else \
                    "apart from the directive lines the regenerated text differs from that of the original program" if not same_text else \
                    "without its directive nodes the tree is not the tree of the original program (compared class by class, statement " \
                    "by statement; the part nodes a directive is wrapped in, or splits, are not counted)"
            else:
                why = "the program is rejected (%s %s)" % (res[1], (res[2] or "")[:70])
            r.ob(ok, "%s: %d directive lines kept in place" % (name, len(used)))
            if not ok:
                run.fail("directives|%s" % ("rejected" if res[0] != "tree" else "differs"), "program %r with %r inserted before lines %r: %s.  Source: %s"
                         % (name, used, [p + 1 for p in pos], why, show("\n".join(out), 14)))
    # a directive between the two DO statements of a nest that ends on one shared statement (F74)
    src = "subroutine Nest(a, n)\n  real :: a(n, n)\n  do 20 i = 1, n\n#ifdef INNER\n  do 20 j = 1, n\n    a(i, j) = 0.0\n20 continue\nend subroutine Nest\n"
    res = run.parse("f2003", src, ignore_comments=True)
    if res is not None:
        r.instances += 1
        ok = res[0] == "tree"
        r.ob(ok, "a directive inside a shared-termination DO nest")
        if not ok:
            run.fail("directives|shared-do-nest", "a directive line between the two DO statements of a nest that shares its terminal "
                     "statement makes the program unacceptable (%s %s): inserting a preprocessor line between two statements changed how "
                     "the Fortran is parsed.  Source: %s" % (res[1], (res[2] or "")[:60].replace("\n", " / "), show(src, 9)))
    # a main program whose body holds nothing but preprocessor lines (sample 'cppbody'), and includes inside nested labelled loops
    src = PS.VALID["cppbody"]
    res = run.parse("f2003", src, ignore_comments=True)
    if res is not None:
        r.instances += 1
        want = [l.strip() for l in src.split("\n") if l.strip().startswith("#")]
        ok = res[0] == "tree" and [l.strip() for l in str(res[1]).split("\n") if l.strip().startswith("#")] == want
        r.ob(ok, "cppbody: a body of directives only")
        if not ok:
            run.fail("directives|only-body", "a main program whose body consists of preprocessor lines only %s.  Source: %s"
                     % ("is rejected (%s %s)" % (res[1], (res[2] or "")[:60].replace("\n", " / ")) if res[0] != "tree" else "loses or changes directive lines", show(src, 8)))
    r.floor = 2
    return r


# =====================================================================================================
NAME_RE = re.compile(r"^(\w+)\s*:\s*(?=(do|if|select|where|forall|associate|block|critical)\b)", re.I)


def statements_of(src):
    """[(label, construct name, text)] of a sample source without continuation lines (comments dropped)"""
    out = []
    for line in src.rstrip("\n").split("\n"):
        code, _ = split_comment(line)
        t = code.strip()
        if not t:
            continue
        if t.endswith("&"):
            return None
        label = None
        mo = re.match(r"(\d+)\s+", t)
        if mo:
            label, t = int(mo.group(1)), t[mo.end():]
        name = None
        mo = NAME_RE.match(t)
        if mo:
            name, t = mo.group(1), t[mo.end():]
        out.append((label, name, t))
    return out


@guarded
def layout_rule(m, rid, tier, form="free"):
    feats_free = [("continuation at token boundaries", {"split"}), ("continuation with leading '&' and comment lines between", {"split", "lead", "between"}),
                  ("continuation inside character literals", {"split-literal"}), ("statements joined with ';'", {"semicolon"}),
                  ("indentation, comment lines, trailing comments", {"indent", "before", "trailing"}),
                  ("everything at once", {"split", "lead", "between", "trailing", "indent", "before", "semicolon"})]
    feats_fixed = [("plain columns", set()), ("labels anywhere in columns 1-5, '0' in column 6", {"labels", "zero"}),
                   ("continuation lines with comment lines between", {"split", "between"}),
                   ("character literals continued", {"split-literal"}), ("everything at once", {"split", "between", "before", "labels", "zero", "indent", "trailing"})]
    if form == "free":
        r = RuleResult(rid, "free-form layout of whole programs, by interpretation of reader and parser together: the statements of the "
                            "sample programs are laid out anew (continuation at token boundaries and inside literals, leading '&', "
                            "comment and blank lines, trailing comments, ';', indentation); the tree and the regenerated text are those "
                            "of the plain layout")
        table, layout = feats_free, RI.free_layout
    else:
        r = RuleResult(rid, "fixed form of whole programs, by interpretation of reader and parser together: the statements of the sample "
                            "programs are written in fixed source form (labels in columns 1-5, continuation marks in column 6, comment "
                            "lines C/c/*/!, literals continued over lines); the source is read as fixed form and the tree and the "
                            "regenerated text are those of the free-form program")
        table, layout = feats_fixed, RI.fixed_layout
    run = Run(m, r)
    names = [n for n in PLAIN_SAMPLES if statements_of(PS.VALID[n]) is not None]
    for name in (names if tier == "thorough" else names[1:3]):
        stmts = statements_of(PS.VALID[name])
        plain = "\n".join(RI.head(lb, nm) + tx for lb, nm, tx in stmts) + "\n"
        base = run.parse("f2003", plain, ignore_comments=True)
        if base is None:
            if run.dead:
                return r
            continue
        if base[0] != "tree":
            continue
        base_text, base_shape = str(base[1]), shape(base[1])
        for title, feats in (table if tier == "thorough" else table[-1:] + table[:1]):
            rng = random.Random("layout|%s|%s|%s" % (form, name, title))
            lines, _items = layout(stmts, rng, feats)
            src = "\n".join(lines) + "\n"
            res = run.parse("f2003", src, ignore_comments=True)
            if res is None:
                if run.dead:
                    return r
                continue
            r.instances += 1
            ok = res[0] == "tree" and str(res[1]) == base_text and shape(res[1]) == base_shape
            if ok and form == "fixed":
                fmt = world(m, "f2003").reader.get(world(m, "f2003").rw.ev, "format")
                ok = bool(fmt.get(world(m, "f2003").rw.ev, "is_fixed"))
            r.ob(ok, "%s, %s: same tree" % (name, title))
            if not ok:
                why = ("is rejected (%s %s)" % (res[1], (res[2] or "")[:70].replace("\n", " / "))) if res[0] != "tree" else \
                    ("regenerates differently" if str(res[1]) != base_text else ("gives a tree of another shape" if shape(res[1]) != base_shape else "is not read as fixed form"))
                run.fail("layout|%s|%s" % (form, "rejected" if res[0] != "tree" else "differs"), "program %r in %s form (%s) %s.  Source: %s"
                         % (name, form, title, why, show(src, 16)))
    r.floor = 3
    return r


@guarded
def conditional_rule(m, rid, tier):
    r = RuleResult(rid, "conditional-compilation lines in whole programs, by interpretation of reader and parser together: three "
                        "statements of each sample program are put behind the '!$ ' sentinel (continuation lines '!$ &'); with the "
                        "option enabled the tree and the regenerated text are those of the program without sentinels; with the option "
                        "off (comments ignored) they are those of the program without these statements")
    run = Run(m, r)
    names = [n for n in PLAIN_SAMPLES if statements_of(PS.VALID[n]) is not None]
    for name in (names if tier == "thorough" else names[:2]):
        stmts = statements_of(PS.VALID[name])
        # hide simple executable statements only (removing them must leave a valid program)
        simple = [i for i, (lb, nm, tx) in enumerate(stmts) if lb is None and nm is None and re.match(r"[A-Za-z]\w*(\(.*\))?\s*=[^=]", tx)]
        if len(simple) < 2:
            continue
        rng = random.Random("cond|%s" % name)
        hidden = set(rng.sample(simple, min(3, len(simple))))
        plain = "\n".join(RI.head(lb, nm) + tx for lb, nm, tx in stmts) + "\n"
        without = "\n".join(RI.head(lb, nm) + tx for i, (lb, nm, tx) in enumerate(stmts) if i not in hidden) + "\n"
        lines, on, off = RI.omp_free_layout(stmts, rng, {"split"}, hidden)
        src = "\n".join(lines) + "\n"
        for opt, ref, what in ((True, plain, "enabled"), (False, without, "off")):
            base = run.parse("f2003", ref, ignore_comments=True)
            res = run.parse("f2003", src, ignore_comments=True, include_omp_conditional_lines=opt)
            if base is None or res is None:
                if run.dead:
                    return r
                continue
            if base[0] != "tree":
                continue
            r.instances += 1
            ok = res[0] == "tree" and str(res[1]) == str(base[1]) and shape(res[1]) == shape(base[1])
            r.ob(ok, "%s, conditional lines %s" % (name, what))
            if not ok:
                why = ("is rejected (%s %s)" % (res[1], (res[2] or "")[:70].replace("\n", " / "))) if res[0] != "tree" else "gives another tree / text"
                run.fail("conditional|%s|%s" % (what, "rejected" if res[0] != "tree" else "differs"), "program %r with statements %s behind '!$ ', "
                         "conditional lines %s, %s than the program %s.  Source: %s"
                         % (name, sorted(hidden), what, why, "without sentinels" if opt else "without these statements", show(src, 16)))
    r.floor = 2
    return r
