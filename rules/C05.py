"""C05 -- fixed-form source is recognised and parses like its free-form equivalent (structural clauses)."""
from rules import regex_rules
from rules import reader_rules as rr


def run(m, tier):
    results = regex_rules.c05_rules(m)
    results.append(rr.rule_quote_state(m, "C05.R6"))
    results.append(rr.rule_splitquote(m, "C05.R7"))
    results.append(rr.rule_fixed_continuation(m, "C05.R9"))
    results.append(rr.rule_inline_table(m, "C05.R10"))
    from rules import order_rules
    results.append(order_rules.memo_purity_rule(m, "C05.R11", ("fparser.common.sourceinfo", "fparser.common.readfortran", "fparser.common.splitline"),
                                               ("format-detection and reading", "the source form is decided from the content read now, not from what the same file name held before"), 70))
    from rules import reader_interp
    results.append(reader_interp.fixed_rule(m, "C05.R12", tier))
    from rules import prog_rules
    results.append(prog_rules.layout_rule(m, "C05.R13", tier, "fixed"))
    expl = ("Decides structural clauses of C05 by bounded-exhaustive evaluation of the pure string predicates of the reader, interpreted "
            "from their AST (never imported): the form detector (voting expression + regex literal) votes free for no label field, "
            "comment line or fixed-form continuation line and for every statement starting in columns 1-5 / trailing '&'; "
            "_is_fix_comment is true exactly for C/c/*/! in column 1 and blank lines; _is_fix_cont accepts every non-blank non-zero "
            "mark in column 6 after a blank label field; the fixed-form label conversion is total and blank-insensitive on columns 1-5 "
            "(242 label fields); character context is threaded across continuation lines and ends at a comment. Does NOT decide tree "
            "equality of the two renderings.")
    return results, expl
