"""C04 -- free-form layout does not change the parse (structural clauses)."""
from rules import reader_rules as rr
from rules import regex_rules


def run(m, tier):
    results = [rr.rule_quote_state(m, "C04.R1"), rr.rule_semicolon(m, "C04.R2"), rr.rule_splitquote(m, "C04.R4"),
               regex_rules.label_name_rules(m, "C04.R5"), rr.rule_queue(m, "C04.R6"), rr.rule_literal_folding(m, "C04.R7"),
               rr.rule_continuation(m, "C04.R8"), rr.rule_inline_table(m, "C04.R9")]
    from rules import taint_rules
    results += taint_rules.c04_rules(m)
    from rules import two_roundtrip
    results.append(two_roundtrip.layout_rule(m, "C04.R10", floor=1000))
    results.append(two_roundtrip.optional_blank_rule(m, "C04.R11"))
    from rules import reader_interp
    results.append(reader_interp.free_rule(m, "C04.R12", tier))
    from rules import prog_rules
    results.append(prog_rules.layout_rule(m, "C04.R13", tier, "free"))
    expl = ("Decides structural necessary conditions of layout independence: the quote state returned by handle_inline_comment is "
            "threaded through every continuation loop and a comment ends character context (path-sensitive over the function); ';' is "
            "split on the tokenised line only, each part has the replace map undone and label then construct name re-extracted; "
            "splitquote types every quoted region as String and case-folds only unquoted text; the label / construct-name regexes "
            "separate `10 outer: stmt` correctly; the parts of a ';' line keep their order in the queue; every keyword comparison in "
            "the 350 matchers is case-blind; one iteration of the free-form continuation loop decided as a table (leading/trailing '&', '&' inside literals). Does NOT decide tree equality over the layout space.")
    return results, expl
