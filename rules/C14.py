"""C14 -- preprocessor directives are kept as nodes and do not disturb the Fortran (structural clauses)."""
import ast
import json
import os
import re

from sa import astutil as A
from sa import pureeval as PE
from sa import tables
from sa.report import RuleResult
from rules import common_block as cb
from rules import reader_rules as rr
from rules import C11

HERE = os.path.dirname(os.path.abspath(__file__))
ORACLE = os.path.join(os.path.dirname(HERE), "oracle", "cpp.json")
CPP = "fparser.two.C99Preprocessor"
RF = "fparser.common.readfortran"


def r1_registry(m):
    r = RuleResult("C14.R1", "the registry of directive classes is exactly the Cpp_*_Stmt classes of the module")
    r.floor = 12
    names = m.snap["cpp_class_names"]
    defined = sorted(c["name"] for k, c in m.classes.items() if c["module"] == CPP and c["name"].startswith("Cpp_") and c["name"].endswith("_Stmt"))
    r.instances += len(defined)
    for n in defined:
        ok = n in names
        r.ob(ok, "%s registered" % n)
        if not ok:
            r.fail("unregistered|%s" % n, "class %s is not listed in CPP_CLASS_NAMES: match_cpp_directive never tries it and the directive "
                   "line is not recognised" % n, None)
    for n in names:
        if n not in defined:
            r.instances += 1
            r.ob(False)
            r.fail("dangling|%s" % n, "CPP_CLASS_NAMES lists %s, which is not a class of the module (AttributeError when a directive is met)" % n, None)
    if len(set(names)) != len(names):
        r.fail("duplicate", "CPP_CLASS_NAMES lists a class twice", None)
    # every registered class is tried for every directive line: the loop of match_cpp_directive runs over the whole registry
    f = m.need_func(CPP, "match_cpp_directive")
    loops = [n for n in A.body_nodes(f.node) if isinstance(n, ast.For) and
             any(isinstance(c, ast.Call) and A.dotted(c.func) == "getattr" for c in ast.walk(n))]
    r.instances += 1
    if len(loops) != 1:
        r.error("match_cpp_directive: the loop trying the registered classes was not found (anchor changed)")
        return r
    it = loops[0].iter
    whole = isinstance(it, ast.Name) and it.id == "CPP_CLASS_NAMES"
    if isinstance(it, ast.Name) and not whole:
        defs = [n for n in A.body_nodes(f.node) if isinstance(n, ast.Assign) and any(A.text(t) == it.id for t in n.targets)]
        whole = bool(defs) and all(A.text(d.value) == "CPP_CLASS_NAMES" for d in defs)
    if whole:
        r.ob(True, "match_cpp_directive tries `for %s in %s`: the whole registry" % (A.text(loops[0].target), A.text(it)))
    else:
        # a narrowed dispatch is not decided structurally here; C14.R12 interprets the function on every directive sample instead
        r.undet("match_cpp_directive does not try the whole registry for every line (`for %s in %s`): decided by C14.R12 (interpretation "
                "on the directive samples), not by this rule" % (A.text(loops[0].target), A.text(it)[:40]))
    return r


def heads(m, key):
    """Compiled head regexes of a directive class (its class-level regex/Pattern attributes)."""
    out = []
    for name, d in m.classes[key]["own"].items():
        for p in d.get("patterns") or []:
            out.append((name, re.compile(p["pattern"], p["flags"])))
    return out


def r2_handlers(m):
    r = RuleResult("C14.R2", "every directive kind of the property is recognised by the reader and accepted by exactly its class's head pattern")
    r.floor = 14
    oracle = json.load(open(ORACLE))["kinds"]
    names = m.snap["cpp_class_names"]
    hd = m.need_func(RF, "FortranReaderBase.handle_cpp_directive")
    fmt_props = {}
    fk = m.key("FortranFormat", "fparser.common.sourceinfo")
    for nm, d in m.classes[fk]["own"].items():
        if d.get("kind") == "property":
            pf = m.method(fk, nm)
            if pf is not None:
                fmt_props[nm] = pf.node
    formats = [(nm_, PE.Obj({"_format": PE.Obj({"_is_free": fr_, "_is_strict": st_, "_f2py_enabled": False}, fmt_props)}))
               for nm_, fr_, st_ in (("free-form", True, False), ("fixed-form", False, False), ("strict fixed-form", False, True))]
    ev = PE.Evaluator(PE.module_regexes(m, RF))
    null_cls = m.key("Cpp_Null_Stmt", CPP) if m.has_class("Cpp_Null_Stmt", CPP) else None
    fixc = m.funcs.get((m.modfile[RF], "_is_fix_comment"))
    if fixc is None:
        r.error("_is_fix_comment vanished")
    for kind in oracle:
        r.instances += 1
        cname = kind["cls"]
        if not m.has_class(cname, CPP):
            r.ob(False)
            r.fail("%s|noclass" % kind["kind"], "no class %s exists for the %s directive" % (cname, kind["kind"]), None)
            continue
        key = m.key(cname, CPP)
        bad = None
        for s in kind["samples"]:
            # the reader recognises it as a directive line
            # (in every source form, and also when the '#' is indented: the first non-blank character decides)
            for fname, fobj in formats:
                for s_in in (s, "  " + s.lstrip()):
                    try:
                        res = ev.run_function(hd.node, [fobj, s_in])
                        if not (isinstance(res, tuple) and res[1] is True and res[0] == s_in):
                            bad = (s_in, "the %s reader does not deliver it as a directive item (handle_cpp_directive -> %r)" % (fname, res,))
                    except (PE.Unsupported, PE.PyRaise) as err:
                        r.error("handle_cpp_directive cannot be interpreted (%s)" % err)
            # ... in fixed form as well: a '#' line is not a comment line (it would be dropped, or kept as a Comment)
            if fixc is not None and s[:1] == "#":
                for strict in (False, True):
                    for f2py in (False, True):
                        try:
                            isc = ev.run_function(fixc.node, [s, strict, f2py])
                        except (PE.Unsupported, PE.PyRaise) as err:
                            r.error("_is_fix_comment cannot be interpreted (%s)" % err)
                            isc = False
                        if isc:
                            bad = (s, "in fixed form _is_fix_comment(%r, isstrict=%s, f2py_enabled=%s) classes it as a comment line: the "
                                      "directive is dropped (comments ignored) or becomes a Comment node" % (s, strict, f2py))
            line = s.strip()
            mine = heads(m, key)
            if cname == "Cpp_Null_Stmt":
                f = m.method(key, "match")
                lits = [A.const(c) for n in A.body_nodes(f.node) if isinstance(n, ast.Compare) for c in [n.left] + n.comparators]
                if "#" not in lits:
                    bad = (s, "Cpp_Null_Stmt.match no longer compares the stripped line with '#'")
                continue
            if not mine:
                r.error("%s has no class-level head pattern" % cname)
                continue
            acc = [nm for nm, rx in mine if rx.match(s) or rx.match(line)]
            if not acc:
                bad = (s, "none of %s's head patterns %s accepts it" % (cname, [rx.pattern for _, rx in mine]))
            # an earlier registered class must not accept it
            for other in names[:names.index(cname)] if cname in names else []:
                if not m.has_class(other, CPP):
                    continue
                for nm, rx in heads(m, m.key(other, CPP)):
                    if rx.match(s) or rx.match(line):
                        bad = (s, "the earlier registered class %s also accepts it (pattern %r) and would win" % (other, rx.pattern))
        r.ob(bad is None, "%s: %d samples accepted by %s only" % (kind["kind"], len(kind["samples"]), cname))
        if bad:
            r.fail("%s|%s" % (kind["kind"], bad[0]), "the directive %r (%s): %s" % (bad[0], kind["kind"], bad[1]),
                   m.loc(hd) if "reader does not deliver" in bad[1] else (m.loc(m.method(key, "match")) if m.method(key, "match") else None))
    return r


def r3_reader_item(m):
    r = RuleResult("C14.R3", "a '#' line (with backslash continuations) becomes one CppDirective item spanning all its physical lines")
    r.floor = 2
    g = m.need_func(RF, "FortranReaderBase.get_source_item")
    r.instances += 1
    ok = False
    blk = None
    for n in A.body_nodes(g.node):
        if isinstance(n, ast.If) and A.text(n.test) == "is_cpp_directive":
            blk = n
    if blk is None:
        r.error("get_source_item: the `if is_cpp_directive:` block was not found")
        return r
    loop = [s for s in blk.body if isinstance(s, ast.While)]
    ret = [s for s in blk.body if isinstance(s, ast.Return)]
    ok = len(loop) == 1 and "endswith('\\\\')" in A.text(loop[0].test) and bool(ret) and "cpp_directive_item" in A.text(ret[0].value)
    reads_in_loop = len(loop) == 1 and any(isinstance(c, ast.Call) and A.text(c.func) in ("get_single_line", "self.get_single_line") for c in ast.walk(loop[0]))
    strips_bs = len(loop) == 1 and any("[:-1]" in A.text(c) for c in ast.walk(loop[0]) if isinstance(c, ast.Call))
    r.ob(ok and reads_in_loop and strips_bs, "get_source_item: continuation loop on trailing backslash, reads the next line, strips the backslash, returns a cpp_directive_item")
    if not (ok and reads_in_loop and strips_bs):
        r.fail("get_source_item|cpp-continuation", "get_source_item no longer joins backslash-continued directive lines into one CppDirective item", m.loc(g, blk))
    # the directive check precedes every Fortran interpretation of the line
    r.instances += 1
    pos_cpp = blk.lineno
    others = [n.lineno for n in A.body_nodes(g.node) if isinstance(n, ast.Call) and
              A.text(n.func) in ("self.handle_cf2py_start", "_is_fix_comment", "self.handle_inline_comment", "handle_inline_comment", "extract_label")]
    ok = bool(others) and pos_cpp < min(others)
    r.ob(ok, "get_source_item: directive recognition precedes f2py/comment/label handling")
    if not ok:
        r.fail("get_source_item|cpp-first", "get_source_item interprets a '#' line as Fortran (comment/label handling) before checking for a directive", m.loc(g, blk))
    k = m.key("CppDirective", RF)
    r.instances += 1
    ok = m.issub(k, m.key("Line", RF))
    r.ob(ok, "CppDirective is a Line (so it is never dropped by the comment filter)")
    if not ok:
        r.fail("CppDirective|base", "CppDirective no longer derives from Line", None)
    return r


def run(m, tier):
    ctx = cb.get_ctx(m)
    blocks = tables.engine_instances(m, "BlockBase")
    r3 = C11.r1_always_tried(m, ctx, blocks)
    r3.rule = "C14.R4"
    r3.title = "match_cpp_directive is tried at every position of every block and around program units (shared with C11.R1)"
    r4 = C11.r2_items(m, ctx)
    r4.rule = "C14.R5"
    r5 = C11.r2_nodes(m, ctx, blocks)
    r5.rule = "C14.R6"
    for rr_ in (r3, r4, r5):
        for f in rr_.findings:
            f.rule = rr_.rule
    results = [r1_registry(m), r2_handlers(m), r3_reader_item(m), r3, r4, r5, rr.rule_semicolon(m, "C14.R7"), rr.rule_directive_splice(m, "C14.R8")]
    from rules import guard_rules
    results.append(guard_rules.alt_delimiter_rule(m, "C14.R9", "C99Preprocessor"))
    from rules import regex_rules
    results.append(regex_rules.c14_detector_rule(m, "C14.R10"))
    r11 = C11.r11_strict_order(m, blocks, "C14.R11")
    r11.title = "a block that enforces the order of its classes lists only parts: the cpp-directive matcher is appended after the listed classes, so elsewhere a directive between two statements would end their matching"
    results.append(r11)
    from rules import two_roundtrip
    results.append(two_roundtrip.cpp_dispatch_rule(m, "C14.R12"))
    from rules import shapes_rules
    results += shapes_rules.c14_rules(m)
    from rules import reader_interp
    results.append(reader_interp.cpp_rule(m, "C14.R13", tier))
    from rules import prog_rules
    results.append(prog_rules.directive_rule(m, "C14.R14", tier))
    expl = ("Decides structural clauses of C14: registry exhaustiveness (Cpp_*_Stmt classes == CPP_CLASS_NAMES); for each of the 14 "
            "directive kinds the reader's '#' predicate and exactly the expected class's head pattern accept the canonical samples; "
            "backslash continuation joins into one CppDirective item before any Fortran interpretation of the line; the directive "
            "matcher is in the class list of every block-engine call site and around units; its peek gives the item back; directives "
            "before a failed construct are restored; ';' splitting looks at the tokenised line only; the payload of every directive "
            "class is printed. Does NOT decide position equality for every insertion.")
    return results, expl
