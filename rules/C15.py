"""C15 -- OpenMP conditional-compilation lines (structural clauses)."""
from rules import regex_rules


def run(m, tier):
    results = regex_rules.c15_rules(m)
    results.append(regex_rules.c15_flow_rule(m))
    from rules import order_rules
    results.append(order_rules.option_forwarding_rule(m, "C15.R4"))
    from rules import reader_rules
    results.append(reader_rules.rule_continuation(m, "C15.R5", omp=True))
    results.append(reader_rules.rule_nested_reader_option(m, "C15.R6", "include_omp_conditional_lines",
                                                          "conditional lines inside an included file are otherwise treated as comments although handling is enabled"))
    from rules import reader_interp
    results.append(reader_interp.omp_rule(m, "C15.R7", tier))
    from rules import prog_rules
    results.append(prog_rules.conditional_rule(m, "C15.R8", tier))
    expl = ("Decides structural clauses of C15: the three sentinel regex literals built in set_format (folded statically) accept "
            "exactly the sentinel forms of the property ('!$', 'c$', 'C$', '*$' in columns 1-2 plus a valid label/continuation field in "
            "fixed form; '!$ ' after optional blanks in free form) and reject '!$omp'-style directives; group 1 is the 2-character "
            "sentinel and the replacement (interpreted from its AST) keeps the columns; every replacement is gated by the enabling "
            "flag (the continuation form by had_omp_sentinels) and precedes comment classification on both routes. Does NOT decide tree equality.")
    return results, expl
