"""C08.R8 -- delimiters are stripped (`x[1:-1]`) only from text whose first AND last character were both tested: otherwise a
matcher accepts text with an unbalanced bracket or quote (`(a`, `a)`)."""
import ast

from sa import astutil as A
from sa.report import RuleResult


def facts_at(func_node, target, P):
    """Conditions known to hold when `target` is evaluated: (test, polarity) from enclosing ifs and from earlier early exits."""
    out = []
    x = target
    while x in P and x is not func_node:
        p_ = P[x]
        if isinstance(p_, ast.If):
            if x in p_.body:
                out.append((p_.test, True))
            elif x in p_.orelse:
                out.append((p_.test, False))
        elif isinstance(p_, ast.IfExp):
            if x is p_.body:
                out.append((p_.test, True))
            elif x is p_.orelse:
                out.append((p_.test, False))
        elif isinstance(p_, ast.BoolOp) and x in p_.values:
            for v in p_.values[:p_.values.index(x)]:
                out.append((v, isinstance(p_.op, ast.And)))
        # earlier statements of the same block that leave the function when their test holds
        for field in ("body", "orelse", "finalbody"):
            blk = getattr(p_, field, None)
            if isinstance(blk, list) and x in blk:
                for s in blk[:blk.index(x)]:
                    if isinstance(s, ast.If) and s.body and isinstance(s.body[-1], (ast.Return, ast.Raise, ast.Continue, ast.Break)) and not s.orelse:
                        out.append((s.test, False))
                    if isinstance(s, ast.Assert):
                        out.append((s.test, True))
        x = p_
    return out


def expand(test, pol):
    """split (test, polarity) into atomic literals: and-true / or-false distribute; `not` flips."""
    if isinstance(test, ast.UnaryOp) and isinstance(test.op, ast.Not):
        return expand(test.operand, not pol)
    if isinstance(test, ast.BoolOp):
        if (isinstance(test.op, ast.And) and pol) or (isinstance(test.op, ast.Or) and not pol):
            out = []
            for v in test.values:
                out += expand(v, pol)
            return out
        return [(test, pol)]
    return [(test, pol)]


def lit_ends(t, pol, T):
    """(start, end) proven by one atomic fact about the text expression T."""
    start = end = False
    if isinstance(t, ast.Compare) and len(t.ops) == 1:
        l, r_ = A.text(t.left), t.comparators[0]
        eq = (isinstance(t.ops[0], ast.Eq) and pol) or (isinstance(t.ops[0], ast.NotEq) and not pol)
        isin = (isinstance(t.ops[0], ast.In) and pol) or (isinstance(t.ops[0], ast.NotIn) and not pol)
        if eq or isin:
            if l in ("%s[0]" % T, "%s[:1]" % T) and not A.text(r_).startswith(T):
                start = True
            if l in ("%s[-1]" % T, "%s[-1:]" % T):
                end = True
            if l == "%s[0] + %s[-1]" % (T, T):
                start = end = True
            if A.text(r_) == "%s[0]" % T and isinstance(t.left, ast.Constant):
                start = True
            if A.text(r_) == "%s[-1]" % T and isinstance(t.left, ast.Constant):
                end = True
    if isinstance(t, ast.Call) and isinstance(t.func, ast.Attribute) and A.text(t.func.value) == T and pol:
        if t.func.attr == "startswith":
            start = True
        if t.func.attr == "endswith":
            end = True
    return start, end


def entails(test, pol, T):
    """(start, end): what the truth (pol) / falsity (not pol) of `test` proves about the two ends of T."""
    if isinstance(test, ast.UnaryOp) and isinstance(test.op, ast.Not):
        return entails(test.operand, not pol, T)
    if isinstance(test, ast.BoolOp):
        parts = [entails(v, pol, T) for v in test.values]
        conj = (isinstance(test.op, ast.And) and pol) or (isinstance(test.op, ast.Or) and not pol)
        if conj:
            return any(p_[0] for p_ in parts), any(p_[1] for p_ in parts)
        return all(p_[0] for p_ in parts), all(p_[1] for p_ in parts)
    return lit_ends(test, pol, T)


def single_def(func_node, name):
    defs = [n for n in A.body_nodes(func_node) if isinstance(n, ast.Assign) and any(isinstance(t, ast.Name) and t.id == name for t in n.targets)]
    tup = [n for n in A.body_nodes(func_node) if isinstance(n, ast.Assign) and any(isinstance(t, ast.Tuple) and name in A.assigned_names(t) for t in n.targets)]
    return defs, tup


def proves_ends(func_node, site, P, T, depth=0):
    facts = facts_at(func_node, site, P)
    start = any(entails(t, pol, T)[0] for t, pol in facts)
    end = any(entails(t, pol, T)[1] for t, pol in facts)
    # x[0] == x[-1] closes a pair once one end is known
    for t, pol in facts:
        for lit, lp in expand(t, pol):
            if isinstance(lit, ast.Compare) and len(lit.ops) == 1 and isinstance(lit.ops[0], ast.Eq) and lp and \
                    {A.text(lit.left), A.text(lit.comparators[0])} == {"%s[0]" % T, "%s[-1]" % T} and (start or end):
                start = end = True
    # `i = T.find(c)` ... `i == len(T) - 1`: the searched character is the last one
    for t, pol in facts:
        for lit, lp in expand(t, pol):
            if isinstance(lit, ast.Compare) and len(lit.ops) == 1 and lp and isinstance(lit.ops[0], ast.Eq):
                sides = [lit.left, lit.comparators[0]]
                for a_, b_ in (sides, sides[::-1]):
                    if isinstance(a_, ast.Name) and A.text(b_) == "len(%s) - 1" % T:
                        defs, tup = single_def(func_node, a_.id)
                        if defs and not tup and all(isinstance(d.value, ast.Call) and isinstance(d.value.func, ast.Attribute)
                                                    and d.value.func.attr in ("find", "rfind", "index", "rindex")
                                                    and A.text(d.value.func.value) == T for d in defs):
                            end = True
    if (start and end) or depth > 2:
        return start, end
    # T is a prefix / suffix of another text whose end was tested: `line = string[4:].lstrip()` keeps the last character
    base = None
    node = None
    if T.isidentifier():
        defs, tup = single_def(func_node, T)
        if len(defs) == 1 and not tup:
            node = defs[0].value
        elif defs and not tup:
            # the nearest preceding definition in an enclosing block reaches the site
            anc = set()
            x_ = site
            while x_ in P:
                x_ = P[x_]
                anc.add(id(x_))
            stmt = site
            while stmt in P and not isinstance(stmt, ast.stmt):
                stmt = P[stmt]
            cands = [d for d in defs if id(P.get(d)) in anc and d.lineno < stmt.lineno]
            if cands:
                node = max(cands, key=lambda d: d.lineno).value
    else:
        try:
            node = ast.parse(T, mode="eval").body
        except SyntaxError:
            node = None
    x = node
    strips = set()
    while isinstance(x, ast.Call) and isinstance(x.func, ast.Attribute) and x.func.attr in ("strip", "lstrip", "rstrip") and not x.args:
        strips.add(x.func.attr)
        x = x.func.value
    while isinstance(x, ast.Call) and len(x.args) == 1 and isinstance(x.func, ast.Name):
        x = x.args[0]        # repmap(...) restores placeholders inside, the ends stay
    if isinstance(x, ast.Subscript) and isinstance(x.slice, ast.Slice) and x.slice.step is None:
        base = A.text(x.value)
        bs, be = proves_ends(func_node, site, P, base, depth + 1)
        lo, hi = x.slice.lower, x.slice.upper
        if hi is None and "strip" not in strips and "rstrip" not in strips:
            end = end or be                       # a suffix keeps the last character
        if (lo is None or A.const(lo, 1) == 0) and "strip" not in strips and "lstrip" not in strips:
            start = start or bs                   # a prefix keeps the first character
        # X[: i + 1] with i = X.find(c) / X.index(c) / X.rfind(c): the slice ends at that character
        if hi is not None and isinstance(hi, ast.BinOp) and isinstance(hi.op, ast.Add) and A.const(hi.right, 0) == 1 and isinstance(hi.left, ast.Name):
            idefs, _ = single_def(func_node, hi.left.id)
            if len(idefs) >= 1 and all(isinstance(d.value, ast.Call) and isinstance(d.value.func, ast.Attribute)
                                       and d.value.func.attr in ("find", "rfind", "index", "rindex") and A.text(d.value.func.value) == base
                                       for d in idefs) and "strip" not in strips and "rstrip" not in strips:
                end = True
    return start, end


def delimiter_rule(m, rid, exceptions=None):
    r = RuleResult(rid, "delimiters are stripped with x[1:-1] only where both the first and the last character of x were tested on that path")
    r.floor = 25
    exceptions = exceptions or {}
    used = set()
    for (path, q), f in sorted(m.funcs.items()):
        if "/tests/" in path or "/two/" not in path:
            continue
        P = None
        for n in A.body_nodes(f.node):
            if not (isinstance(n, ast.Subscript) and isinstance(n.slice, ast.Slice) and A.const(n.slice.lower, 0) == 1
                    and isinstance(n.slice.upper, ast.UnaryOp) and isinstance(n.slice.upper.op, ast.USub) and A.const(n.slice.upper.operand, 0) == 1
                    and n.slice.step is None and isinstance(n.ctx, ast.Load)):
                continue
            if P is None:
                P = A.parents(f.node)
            T = A.text(n.value)
            if "content" in T or "items" in T:
                continue          # list slices of printers
            if T.isidentifier():
                defs, _ = single_def(f.node, T)
                if defs and any(isinstance(d.value, ast.Call) and isinstance(d.value.func, ast.Attribute)
                                and d.value.func.attr in ("split", "findall", "rsplit") for d in defs):
                    continue      # a list
            r.instances += 1
            start, end = proves_ends(f.node, n, P, T)
            # a regex guard on the same text: `m = R.match(T)` tested before, where the pattern itself begins and ends with the delimiters
            key = "%s|%s" % (q, T)
            if not (start and end) and key in exceptions:
                used.add(key)
                r.ob(True, "%s: `%s` -- confirmed by reading: %s" % (q, A.text(n), exceptions[key]))
                continue
            ok = start and end
            r.ob(ok, "%s: `%s` both ends tested" % (q, A.text(n)) if r.instances % 6 == 0 else None)
            if not ok:
                r.fail("%s|strip-unchecked|%s" % (q, T), "%s strips the first and last character of `%s` but only %s tested on that path: text with an "
                       "unbalanced delimiter (`(a` or `a)`) is accepted and its real first/last character silently dropped"
                       % (q, T, "its first character was" if start else ("its last character was" if end else "neither end was")), m.loc(f, n))
    stale = sorted(set(exceptions) - used)
    if stale:
        r.notes.append("exceptions no longer needed: %s" % stale)
    return r
