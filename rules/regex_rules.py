"""E6-based rules (regex literals as data tables), filled in below."""


def c13_rules(m):
    return []
