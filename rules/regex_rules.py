"""E6-based rules: regex literals and small pure string predicates of the reader treated as data tables and decided by
bounded-exhaustive enumeration (the predicates are interpreted from their AST by sa.pureeval, never imported)."""
import ast
import itertools
import re

from sa import astutil as A
from sa import flow as F
from sa import pureeval as PE
from sa.model import AnalysisError
from sa.report import RuleResult

RF = "fparser.common.readfortran"
SI = "fparser.common.sourceinfo"


def words(alphabet, maxlen, minlen=0):
    for n in range(minlen, maxlen + 1):
        for t in itertools.product(alphabet, repeat=n):
            yield "".join(t)


def evaluator(m, modname):
    return PE.Evaluator(PE.module_regexes(m, modname))


def evaluator_with_funcs(m, modname):
    """evaluator whose globals also hold the module's own top-level functions (interpreted on demand)."""
    g = dict(PE.module_regexes(m, modname))
    ev = PE.Evaluator(g)
    # logging is a side channel: messages are accepted and dropped
    noop = lambda *a, **k: None
    logger = PE.Obj({"warning": noop, "error": noop, "info": noop, "debug": noop, "critical": noop, "log": noop})
    ev.g.setdefault("__name__", modname)
    ev.g.setdefault("logging", PE.Obj({"getLogger": lambda *a, **k: logger, "warning": noop, "error": noop, "info": noop, "debug": noop}))
    path = m.modfile.get(modname)
    for (p_, q), f in m.funcs.items():
        if p_ == path and "." not in q and q not in ev.g:
            ev.g[q] = (lambda fn: (lambda *a, **k: ev.run_function(fn.node, list(a), k)))(f)
    return ev


def run_pred(r, ev, func, args, what):
    """Interpret func on args; Unsupported -> analysis error recorded on r (returns a marker)."""
    try:
        return ev.run_function(func.node, args)
    except PE.PyRaise as err:
        return err
    except PE.Unsupported as err:
        r.error("%s: cannot interpret %s statically (%s)" % (what, func.qualname, err))
        raise


# =================================================================================================
# C05
# =================================================================================================
LABELS5 = ["     ", "   10", "10   ", "12345", "    1", "1    ", " 100 "]
COL6 = [" ", "&", "1", "9", "+", "$", ".", "*", "x", "0"]
FREE_STMTS = ["program p", "x = 1", "subroutine s(a)", "module m", "use m", "integer :: i", "end", "if (a) then", "do i=1,2", "real x"]


def detector_vote(m, r):
    """(vote(text) -> bool, function, voting test) for one iteration of the form detector's voting loop, interpreted from the AST;
    None (with the reason recorded on r) when the anchors are gone."""
    f = m.need_func(SI, "get_source_info_str")
    ev = evaluator(m, SI)
    vote_if = None
    P = A.parents(f.node)
    for n in A.body_nodes(f.node):
        if isinstance(n, ast.If) and any(isinstance(c, ast.Call) and A.text(c.func) == "_FREE_FORMAT_START" for c in ast.walk(n.test)):
            vote_if = n
    if vote_if is None:
        r.error("get_source_info_str: the test applying _FREE_FORMAT_START was not found (anchor vanished)")
        return None
    # (the detector is interpreted as a whole below: the shape of its loop does not matter)
    ev.g["FortranFormat"] = lambda is_free, is_strict, *a, **k: (is_free, is_strict)

    def vote(text):
        # the whole detector interpreted on a source that consists of this one physical line (so any state the loop keeps from
        # line to line starts from its initial value)
        res = ev.run_function(f.node, [text])
        if not (isinstance(res, tuple) and len(res) == 2):
            raise PE.Unsupported("get_source_info_str returns %r" % (res,))
        return bool(res[0])
    return vote, f, vote_if


def c14_detector_rule(m, rid):
    import json
    import os
    r = RuleResult(rid, "the source-form detector does not let a preprocessor line vote: inserting '#...' lines into fixed-form source "
                        "does not turn it into free form (one iteration of the voting loop interpreted on every directive sample)")
    r.floor = 20
    got = detector_vote(m, r)
    if got is None:
        return r
    vote, f, vote_if = got
    kinds = json.load(open(os.path.join(os.path.dirname(os.path.dirname(os.path.abspath(__file__))), "oracle", "cpp.json")))["kinds"]
    bad = None
    try:
        for kind in kinds:
            for s_ in kind["samples"]:
                for text in (s_, "  " + s_.lstrip()):
                    if text.rstrip().endswith("&"):
                        continue
                    r.instances += 1
                    v = vote(text)
                    r.ob(not v, "%r does not vote" % text if r.obligations % 10 == 0 else None)
                    if v and bad is None:
                        bad = text
    except PE.Unsupported as err:
        r.error("get_source_info_str: cannot interpret the voting expression statically (%s)" % err)
        return r
    if bad is not None:
        r.fail("vote|cpp", "the form detector votes free form for the preprocessor line %r: a fixed-form file that contains such a line is "
               "read as free form, so its comment and continuation lines no longer parse" % bad, m.loc(f, vote_if))
    return r


def c05_rules(m):
    out = []
    # ---------------------------------------------------------------- R1 detector
    r = RuleResult("C05.R1", "the form detector votes free exactly for a statement starting in columns 1-5 or a trailing '&', "
                             "never for a label field, a comment line or a fixed-form continuation line")
    r.floor = 3
    got = detector_vote(m, r)
    if got is None:
        out.append(r)
    else:
        vote, f, vote_if = got
        try:
            cases = []
            for lab in LABELS5:
                for c6 in COL6:
                    for rest in ("x = 1", "call foo(a,", "end", ""):
                        if (lab + c6 + rest).rstrip().endswith("&"):
                            continue   # a trailing '&' is the documented free-form vote
                        cases.append(("fixed", lab + c6 + rest, False))
            for ch in "cC*!":
                for rest in ("", " comment", "omment text", "$omp parallel", "     x = 1"):
                    cases.append(("comment", ch + rest, False))
            for k in range(0, 5):
                for st in FREE_STMTS:
                    if k == 0 and st[0] in "cC":
                        continue
                    cases.append(("free", " " * k + st, True))
            for base in ("      x = 1 + &", "      call foo(a, &", "   10 y = 2 &"):
                cases.append(("trailing-&", base, True))
                cases.append(("trailing-& followed by blanks", base + "   ", True))
            cases.append(("tab", "\tx = 1", False))
            # a statement with its label, starting in columns 1-5
            for text in ("30 return", "100 format (a)", "10 x = 1", " 20 continue", "1 i=2"):
                cases.append(("labelled free", text, True))
            # whole sources: only a directive that ends in a backslash is continued on the next line; a comment that ends in one is not
            margin = "      x = 1"
            cases.append(("comment ending in a backslash, then the only free-form line", "! see C:\\dir\\\nprogram p\n" + margin, True))
            cases.append(("fixed-form comment ending in a backslash, then the only free-form line", "C path a\\\nend program\n" + margin, True))
            cases.append(("statement ending in a backslash inside a literal, then a free-form line", margin + "\n      s = 'a\\'\nprogram p", True))
            cases.append(("continued directive, its continuation line in column 1", "#define A \\\n  foo\n" + margin, False))
            cases.append(("continued directive, then a free-form line", "#define A \\\n  foo\nprogram p\n" + margin, True))
            cases.append(("two continued directive lines", "#define A \\\n  foo \\\n  bar\n" + margin, False))
            bad = {}
            for kind, text, want in cases:
                r.instances += 1
                got = vote(text)
                ok = got == want
                r.ob(ok, "%s line %r votes free: %s" % (kind, text, got) if r.obligations % 40 == 0 else None)
                if not ok and kind not in bad:
                    bad[kind] = (text, got)
            for kind, (text, got) in bad.items():
                r.fail("vote|%s" % kind, "the form detector %s for the %s line %r (and possibly others of that kind)"
                       % ("votes free" if got else "does not vote free", kind, text), m.loc(f, vote_if))
        except PE.Unsupported as err:
            r.error("get_source_info_str: cannot interpret the voting expression statically (%s)" % err)
        out.append(r)
    # ---------------------------------------------------------------- R2 comment predicate, R4 continuation predicate
    r = RuleResult("C05.R2", "fixed-form comment lines are exactly those introduced by C, c, * or ! in column 1 (and blank lines); "
                             "any non-blank non-zero character in column 6 after a blank label field marks a continuation")
    r.floor = 2
    ev = evaluator(m, RF)
    fc = m.need_func(RF, "_is_fix_comment")
    fcont = m.need_func(RF, "_is_fix_cont")
    try:
        bad = {}
        for strict in (False, True):
            for ch in "*cC!":
                for rest in ("", " a comment", "omment", "     x = 1"):
                    r.instances += 1
                    got = run_pred(r, ev, fc, [ch + rest, strict, False], "C05.R2")
                    ok = got is True
                    r.ob(ok)
                    if not ok:
                        bad.setdefault("comment|%s" % ch, (ch + rest, got))
            for text in ("      x = 1", "   10 continue", "     & y + 1", "     1 y", "      call c(1)", "      c = 1", "10    c = *",
                         "     ! + 1", "     !y"):
                r.instances += 1
                got = run_pred(r, ev, fc, [text, strict, False], "C05.R2")
                ok = not got or isinstance(got, PE.PyRaise) and False
                r.ob(ok)
                if not ok:
                    bad.setdefault("statement", (text, got))
            r.instances += 1
            got = run_pred(r, ev, fc, ["", strict, False], "C05.R2")
            r.ob(got is True)
            if got is not True:
                bad.setdefault("blank", ("", got))
        r.sample("_is_fix_comment('c comment', False, False) -> True; ('      c = 1', ...) -> False")
        for key, (text, got) in bad.items():
            r.fail("_is_fix_comment|%s" % key, "_is_fix_comment(%r) gives %r" % (text, got), m.loc(fc))
        bad = {}
        for c6 in "&123456789+$.*xX-/:;,'\"!":
            r.instances += 1
            got = run_pred(r, ev, fcont, ["     " + c6 + " x + 1"], "C05.R2")
            ok = bool(got) and not isinstance(got, PE.PyRaise)
            r.ob(ok)
            if not ok:
                bad.setdefault("mark|%s" % c6, ("     " + c6 + " x + 1", got))
        for text in ("      x = 1", "   10 x = 1", "   10& x", "1    &x", "", "     ", "    &", None):
            r.instances += 1
            got = run_pred(r, ev, fcont, [text], "C05.R2")
            ok = not got and not isinstance(got, PE.PyRaise)
            r.ob(ok)
            if not ok:
                bad.setdefault("notcont|%r" % (text,), (text, got))
        r.sample("_is_fix_cont('     & x + 1') truthy; ('   10& x') falsy")
        for key, (text, got) in sorted(bad.items())[:4]:
            r.fail("_is_fix_cont|%s" % key, "_is_fix_cont(%r) gives %r%s" % (text, got, " (a valid continuation mark is not recognised)"
                   if key.startswith("mark") else " (not a continuation line)"), m.loc(fcont))
    except PE.Unsupported:
        pass
    out.append(r)
    # ---------------------------------------------------------------- R8 physical line normalisation
    r8 = RuleResult("C05.R8", "every physical line is tab-expanded and stripped of trailing blanks before columns are interpreted")
    r8.floor = 4
    gsl = m.need_func(RF, "FortranReaderBase.get_single_line")
    # the straight-line stretch of get_single_line from the first normalising assignment of `line` to the point where the line is
    # recorded (self.source_lines.append(line)), interpreted as a whole with conditional-line handling switched off
    body = gsl.node.body
    first = last = None
    for i_, s_ in enumerate(body):
        if first is None and isinstance(s_, ast.Assign) and A.text(s_.targets[0]) == "line" and any(
                isinstance(c, ast.Call) and isinstance(c.func, ast.Attribute) and c.func.attr in ("expandtabs", "rstrip", "strip") for c in ast.walk(s_.value)):
            first = i_
        if isinstance(s_, ast.Expr) and isinstance(s_.value, ast.Call) and A.text(s_.value.func) == "self.source_lines.append":
            last = i_
    if first is None or last is None or last < first:
        r8.error("get_single_line: the normalisation of the physical line up to `self.source_lines.append(line)` was not found")
    else:
        ev8 = evaluator(m, RF)
        stretch = body[first:last + 1]
        for raw, want in (("      x = 'abc       \n", "      x = 'abc"), ("      x = 1\r\n", "      x = 1"), ("\tx = 1\n", "        x = 1"),
                          ("   10\tcontinue  \t\n", "   10   continue"), ("      y\xa0= 2 \n", "      y = 2"), ("\n", ""), ("      x = 1", "      x = 1")):
            r8.instances += 1
            recorded = []
            me = PE.Obj({"_include_omp_conditional_lines": False, "_format": PE.Obj({"is_fixed": True, "is_f77": False}), "source_lines": recorded})
            env = {"line": raw, "self": me}
            try:
                ev8.block(stretch, env)
            except (PE.Unsupported, PE.PyRaise) as err:
                r8.error("cannot interpret the normalisation stretch of get_single_line (%s)" % err)
                break
            got = recorded[-1] if recorded else None
            ok = got == want and env.get("line") == want
            r8.ob(ok, "%r -> %r" % (raw, got))
            if not ok:
                r8.fail("normalise|%r" % raw, "get_single_line records the physical line %r as %r (continues with %r), expected %r: tabs shift the "
                        "columns / trailing blanks end up inside continued character literals" % (raw, got, env.get("line"), want), m.loc(gsl, stretch[0]))
    out.append(r8)
    # ---------------------------------------------------------------- R5 label conversion
    r = RuleResult("C05.R5", "the fixed-form label conversion is total on the label field (blanks are insignificant) and reads columns 1-5")
    r.floor = 1
    g = m.need_func(RF, "FortranReaderBase.get_source_item")
    # the statements that compute `label` from the label field: the leading part of the `if self._format.is_fixed:` block
    blk = None
    for n in A.body_nodes(g.node):
        if isinstance(n, ast.If) and A.text(n.test) in ("self._format.is_fixed", "self._format.is_fix") and \
                any(isinstance(x, (ast.Assign,)) and "label" in {y for t in x.targets for y in A.assigned_names(t)} for s_ in n.body for x in ast.walk(s_)):
            blk = n
    if blk is None:
        r.error("get_source_item: the fixed-form block that computes the statement label was not found (anchor vanished)")
    else:
        last = max(i for i, s_ in enumerate(blk.body) if any(isinstance(x, ast.Assign) and "label" in {y for t in x.targets for y in A.assigned_names(t)}
                                                             for x in ast.walk(s_)))
        stretch = blk.body[:last + 1]
        ev = evaluator_with_funcs(m, RF)
        bad = None
        cnt = 0
        for w in words(" 12", 5, 5):
            if not w.strip():
                continue
            cnt += 1
            r.instances += 1
            want = int(w.replace(" ", ""))
            env = {"line": w + " continue", "label": None, "name": None,
                   "self": PE.Obj({"_format": PE.Obj({"is_f77": True, "is_fixed": True, "is_fix": True})})}
            try:
                ev.block(stretch, env)
                got = env.get("label")
            except PE.PyRaise as err:
                got = err.exc_type
            except PE.Unsupported as err:
                r.error("cannot interpret the label extraction of get_source_item (%s)" % err)
                break
            ok = got == want
            r.ob(ok, "label field %r -> %r" % (w, got) if cnt % 60 == 1 else None)
            if not ok and bad is None:
                bad = (w, got, want)
        if bad:
            r.fail("label-field|%s" % A.text(stretch[0])[:40], "the fixed-form label field %r gives the label %r, not %r (blanks are not significant in "
                   "fixed form): the statement is lost or mislabelled" % (bad[0], bad[1], bad[2]), m.loc(g, stretch[0]))
    out.append(r)
    return out


# =================================================================================================
# C15
# =================================================================================================
def c15_rules(m):
    out = []
    r = RuleResult("C15.R1", "the conditional-compilation sentinel regexes accept exactly the sentinel forms of the property and "
                             "the replacement keeps the columns")
    r.floor = 3
    sf = m.need_func(RF, "FortranReaderBase.set_format")
    ev = PE.Evaluator({})
    consts = {}
    regs = {}    # attribute name -> list of (branch, pattern, flags)
    P = A.parents(sf.node)

    # the four source forms, with FortranFormat's own property definitions interpreted from their AST
    fk = m.key("FortranFormat", SI)
    props = {}
    for name, d in m.classes[fk]["own"].items():
        if d.get("kind") == "property":
            pf = m.method(fk, name)
            if pf is not None:
                props[name] = pf.node
    forms = {}
    for free in (True, False):
        for strict in (True, False):
            forms[(free, strict)] = PE.Obj({"_is_free": free, "_is_strict": strict, "_f2py_enabled": False}, props)

    def branch_of(node):
        """'fixed' / 'free' / 'mixed:<why>' : which source forms reach this statement."""
        x = node
        conds = []
        while x in P and P[x] is not sf.node:
            p = P[x]
            if isinstance(p, ast.If) and "_format" in A.text(p.test):
                conds.append((p.test, x in p.body))
            x = p
        if not conds:
            return "any"
        reach = set()
        for key, fobj in forms.items():
            me = PE.Obj({"_format": fobj})
            ok = True
            for test, pol in conds:
                val = bool(PE.Evaluator({}).ev(test, {"self": me}))
                if val != pol:
                    ok = False
            if ok:
                reach.add(key)
        fixed = {(False, True), (False, False)}
        free = {(True, False), (True, True)}
        if reach == fixed:
            return "fixed"
        if reach == free:
            return "free"
        return "mixed:%s" % sorted(reach)
    try:
        for n in A.body_nodes(sf.node):
            if isinstance(n, ast.Assign) and isinstance(n.targets[0], ast.Name) and isinstance(n.value, (ast.Constant, ast.JoinedStr)):
                consts[n.targets[0].id] = ev.ev(n.value, consts)
        for n in A.body_nodes(sf.node):
            if isinstance(n, ast.Assign) and isinstance(n.targets[0], ast.Attribute) and isinstance(n.value, ast.Call) \
                    and A.text(n.value.func) == "re.compile":
                pat = ev.ev(n.value.args[0], consts)
                fl = 0
                if len(n.value.args) > 1:
                    ft = A.text(n.value.args[1])
                    for nm, v in (("IGNORECASE", re.I), ("re.I", re.I)):
                        if nm in ft:
                            fl |= v
                regs.setdefault(n.targets[0].attr, []).append((branch_of(n), pat, fl))
    except PE.Unsupported as err:
        r.error("set_format: cannot fold the sentinel regex literals (%s)" % err)
    for attr, lst in regs.items():
        for br, pat, fl in lst:
            if br.startswith("mixed"):
                r.instances += 1
                r.ob(False)
                r.fail("set_format|branch|%s" % attr, "set_format compiles the sentinel regex %r for the source forms (is_free, is_strict) in %s: "
                       "fixed-form regexes must be used for exactly the two fixed forms (strict and non-strict) and free-form ones for the "
                       "free forms" % (pat, br[6:]), m.loc(sf))
    if any(br.startswith("mixed") for lst in regs.values() for br, _, _ in lst):
        out.append(r)
        return out
    fixed = [x for x in regs.get("_re_omp_sentinel", []) if x[0] == "fixed"]
    free = [x for x in regs.get("_re_omp_sentinel", []) if x[0] == "free"]
    cont = regs.get("_re_omp_sentinel_cont", [])
    if not (len(fixed) == 1 and len(free) == 1 and len(cont) == 1):
        r.error("set_format: expected one fixed, one free and one continuation sentinel regex, found %d/%d/%d" % (len(fixed), len(free), len(cont)))
        out.append(r)
        return out
    rf, rfr, rc = (re.compile(x[0][1], x[0][2]) for x in (fixed, free, cont))

    def check(name, rx, accept, reject, site):
        for text in accept:
            r.instances += 1
            mt = rx.match(text)
            ok = mt is not None and mt.end(1) - mt.start(1) == 2 and text[mt.start(1):mt.end(1)].lower() in ("!$", "c$", "*$")
            r.ob(ok, "%s accepts %r" % (name, text))
            if not ok:
                r.fail("%s|accept|%s" % (name, text), "the %s sentinel regex %r does not recognise %r (or its group 1 is not the 2-character "
                       "sentinel)" % (name, rx.pattern, text), site)
        for text in reject:
            r.instances += 1
            ok = rx.match(text) is None
            r.ob(ok, "%s rejects %r" % (name, text))
            if not ok:
                r.fail("%s|reject|%s" % (name, text), "the %s sentinel regex %r treats %r as a conditional-compilation line"
                       % (name, rx.pattern, text), site)
    site = m.loc(sf)
    check("fixed", rf,
          ["!$    x = 1", "c$    x = 1", "C$    x = 1", "*$    x = 1", "!$ 10 x = 1", "!$100 continue", "!$   &  + y", "c$   1  + y", "*$   +y", "!$   0x = 1"],
          ["!$omp parallel", "c$omp do", "*$omp end do", "C$OMP PARALLEL", " !$   x = 1", "      x = 1", "!$x   y = 1", "c comment", "!$ab  x"],
          site)
    check("free", rfr,
          ["!$ x = 1", "  !$ x = 1", "!$ 10 continue", "    !$ call foo()"],
          ["!$omp parallel", "!$x = 1", "x = 1 !$ y", "! $ x = 1", "!$", "c$ x = 1", "!$omp& private(i)"],
          site)
    check("free-continuation", rc,
          ["!$ & + y", "!$& + y", "  !$   &y", "!$ y"],
          ["x !$ & y", "! $ & y", "& y"],
          site)
    # replacement keeps the columns
    rp = m.need_func(RF, "FortranReaderBase.replace_omp_sentinels")
    ev2 = evaluator(m, RF)
    try:
        for rx, text in ((rf, "!$ 10 x = 1"), (rf, "c$   &  + y"), (rfr, "   !$ x = 1"), (rc, "!$& + y"),
                         (rfr, "!$ print *, '!$omp threads'"), (rf, "c$    c$ = 1"), (rf, "*$    x = y *$ z")):
            r.instances += 1
            res = ev2.run_function(rp.node, [text, rx])
            ok = isinstance(res, tuple) and res[1] is True and len(res[0]) == len(text) and \
                res[0] == text[:rx.match(text).start(1)] + "  " + text[rx.match(text).end(1):]
            r.ob(ok, "replace_omp_sentinels(%r) -> %r" % (text, res))
            if not ok:
                r.fail("replace|%s" % text, "replace_omp_sentinels(%r) gives %r: the sentinel is not replaced by exactly two blanks "
                       "(columns shift or text is lost)" % (text, res), m.loc(rp))
        r.instances += 1
        res = ev2.run_function(rp.node, ["      x = 1", rf])
        ok = res == ("      x = 1", False)
        r.ob(ok)
        if not ok:
            r.fail("replace|nomatch", "replace_omp_sentinels changes a line without sentinel: %r" % (res,), m.loc(rp))
    except PE.Unsupported as err:
        r.error("replace_omp_sentinels cannot be interpreted statically (%s)" % err)
    except PE.PyRaise as err:
        r.fail("replace|raises", "replace_omp_sentinels raises %s on a sentinel line" % err.exc_type, m.loc(rp))
    out.append(r)

    # ---------------------------------------------------------------- R2 gating and ordering
    r = RuleResult("C15.R2", "sentinel replacement happens only when conditional lines are enabled, and before the line is classified as a comment")
    r.floor = 3
    # the local that remembers whether the first line of the statement had a sentinel: the second result of the (non-continuation)
    # replacement in get_source_item, whatever it is called
    hv = "had_omp_sentinels"
    for n_ in A.body_nodes(m.need_func(RF, "FortranReaderBase.get_source_item").node):
        if isinstance(n_, ast.Assign) and isinstance(n_.value, ast.Call) and A.text(n_.value.func).endswith("replace_omp_sentinels") \
                and len(n_.value.args) > 1 and not A.text(n_.value.args[1]).endswith("_cont") and isinstance(n_.targets[0], ast.Tuple) \
                and len(n_.targets[0].elts) == 2 and isinstance(n_.targets[0].elts[1], ast.Name) and n_.targets[0].elts[1].id != "_":
            hv = n_.targets[0].elts[1].id
    sites = []
    for qn in ("get_single_line", "get_source_item"):
        f = m.need_func(RF, "FortranReaderBase." + qn)
        Pf = A.parents(f.node)
        for c in A.calls(f.node):
            if A.text(c.func).endswith("replace_omp_sentinels"):
                guards = []
                x = c
                while x in Pf and Pf[x] is not f.node:
                    p = Pf[x]
                    if isinstance(p, ast.If) and x in p.body:
                        guards.append(A.text(p.test))
                    x = p
                sites.append((f, c, guards))
    if len(sites) < 3:
        r.error("fewer than 3 replace_omp_sentinels call sites found (anchor vanished)")
    for f, c, guards in sites:
        r.instances += 1
        gtxt = " and ".join(guards)
        regex_arg = A.text(c.args[1]) if len(c.args) > 1 else ""
        if regex_arg.endswith("_cont"):
            ok = hv in gtxt
            why = "the continuation regex is applied although the first line had no sentinel"
        else:
            ok = "_include_omp_conditional_lines" in gtxt
            why = "sentinels are replaced although conditional-line handling is not enabled"
        r.ob(ok, "%s: `%s` under `%s`" % (f.qualname, A.text(c)[:60], gtxt[:80]))
        if not ok:
            r.fail("%s|gate|%s" % (f.qualname, regex_arg), "%s: %s (`%s` is guarded by `%s`)" % (f.qualname, why, A.text(c)[:50], gtxt[:60]), m.loc(f, c))
    # had_omp_sentinels only assigned from a gated call
    gsi = m.need_func(RF, "FortranReaderBase.get_source_item")
    r.instances += 1
    assigns = [n for n in A.body_nodes(gsi.node) if isinstance(n, ast.Assign) and hv in A.assigned_names(n.targets[0])]
    ok = all((isinstance(n.value, ast.Constant) and n.value.value is False) or
             (isinstance(n.value, ast.Call) and A.text(n.value.func).endswith("replace_omp_sentinels")) for n in assigns) and bool(assigns)
    r.ob(ok, "had_omp_sentinels is False or the result of the gated replacement")
    if not ok:
        r.fail("had_omp_sentinels", "had_omp_sentinels is assigned from something other than False / the gated sentinel replacement", m.loc(gsi))

    # ordering: replacement precedes comment classification
    def first_pos(f, pred):
        best = None
        for n in A.body_nodes(f.node):
            if isinstance(n, ast.Call) and pred(n):
                pos = (n.lineno, n.col_offset)
                if best is None or pos < best:
                    best = pos
        return best
    gsl = m.need_func(RF, "FortranReaderBase.get_single_line")
    r.instances += 1
    a = first_pos(gsl, lambda n: A.text(n.func).endswith("replace_omp_sentinels"))
    b = first_pos(gsl, lambda n: A.text(n.func) == "_is_fix_comment")
    ok = a is not None and b is not None and a < b
    r.ob(ok, "get_single_line: sentinel replacement (%s) precedes the fixed-form comment filter (%s)" % (a, b))
    if not ok:
        r.fail("get_single_line|order", "get_single_line filters fixed-form comment lines before replacing the conditional sentinel: an enabled "
               "`c$`/`!$`/`*$` line is discarded as a comment", m.loc(gsl))
    r.instances += 1
    a = first_pos(gsi, lambda n: A.text(n.func).endswith("replace_omp_sentinels"))
    b = first_pos(gsi, lambda n: A.text(n.func).endswith("handle_inline_comment") or A.text(n.func) == "_is_fix_comment")
    ok = a is not None and b is not None and a < b
    r.ob(ok, "get_source_item: sentinel replacement precedes comment handling")
    if not ok:
        r.fail("get_source_item|order", "get_source_item handles comments before replacing the free-form conditional sentinel: an enabled `!$ ` "
               "line is discarded as a comment", m.loc(gsi))
    # inside the free-form loop: continuation replacement precedes handle_inline_comment
    r.instances += 1
    ok = False
    for n in A.body_nodes(gsi.node):
        if isinstance(n, ast.While):
            pa = pb = None
            for c in ast.walk(n):
                if isinstance(c, ast.Call):
                    t = A.text(c.func)
                    pos = (c.lineno, c.col_offset)
                    if t.endswith("replace_omp_sentinels") and (pa is None or pos < pa):
                        pa = pos
                    if t.endswith("handle_inline_comment") and (pb is None or pos < pb):
                        pb = pos
            if pa is not None and pb is not None:
                ok = pa < pb
    r.ob(ok, "get_source_item: in the continuation loop the sentinel is replaced before the inline-comment split")
    if not ok:
        r.fail("get_source_item|loop-order", "in the free-form continuation loop the `!$ &` sentinel is not replaced before the inline comment "
               "is split off: the continuation line of a conditional statement becomes a comment", m.loc(gsi))
    out.append(r)
    return out


# =================================================================================================
# C13: the INCLUDE line regex ; C12/C04: label and construct-name extraction
# =================================================================================================
def c13_rules(m):
    r = RuleResult("C13.R4", "the INCLUDE-line regex accepts exactly `include 'file'` / `include \"file\"` (any case, blanks) and the "
                             "file name is the text between the quotes")
    r.floor = 1
    g = PE.module_regexes(m, RF)
    rx = g.get("_IS_INCLUDE_LINE")
    if rx is None:
        r.error("_IS_INCLUDE_LINE vanished")
        return [r]
    nx = m.need_func(RF, "FortranReaderBase.next")
    fname_expr = None
    for n in A.body_nodes(nx.node):
        if isinstance(n, ast.Assign) and A.text(n.targets[0]) == "filename":
            fname_expr = n.value
    ev = evaluator(m, RF)
    samples = (("include 'a.inc'", "a.inc"), ('INCLUDE "dir/b.h"', "dir/b.h"), ("  Include   'c d.f90'  ", "c d.f90"), ("include'x'", "x"),
               ('INCLUDE"y.h"', "y.h"))
    # 1. recognition (independent of how the name is extracted)
    for text, want in samples:
        r.instances += 1
        ok = rx(text) is not None
        r.ob(ok, "%r recognised as an INCLUDE line" % text)
        if not ok:
            r.fail("include|accept|%s" % text, "the INCLUDE line %r is not recognised by the reader (the parser's Include_Stmt accepts it, so the "
                   "file is never read and an Include_Stmt node stays in the tree)" % text, m.loc(nx))
    # 2. the file name is the text between the quotes
    for text, want in samples:
        if rx(text) is None or fname_expr is None:
            continue
        r.instances += 1
        try:
            mo = rx(text)
            got = ev.ev(_subst_item_line(fname_expr), {"__line__": text.strip(), "include_line": mo, "match": mo, "m": mo})
        except (PE.Unsupported, PE.PyRaise) as err:
            r.error("cannot interpret the file-name expression `%s` (%s)" % (A.text(fname_expr), err))
            break
        ok = got == want
        r.ob(ok, "%r -> file %r" % (text, got))
        if not ok:
            r.fail("include|name|%s" % text, "the file name of the INCLUDE line %r is extracted as %r instead of %r" % (text, got, want), m.loc(nx))
    for text in ("include", "include 'a' x", "include a.inc", "include abc", "x = include 'a'", "include ''", "included 'a'"):
        r.instances += 1
        ok = rx(text) is None or text == "included 'a'" and False
        if text == "included 'a'":
            ok = rx(text) is None
        r.ob(ok, "%r rejected" % text)
        if not ok:
            r.fail("include|reject|%s" % text, "%r is treated as an INCLUDE line" % text, m.loc(nx))
    return [r]


def _subst_item_line(expr):
    """Replace `item.line` by the name __line__ in a copy of expr."""
    class T(ast.NodeTransformer):
        def visit_Attribute(self, node):
            if A.text(node) == "item.line":
                return ast.copy_location(ast.Name(id="__line__", ctx=ast.Load()), node)
            return self.generic_visit(node)
    import copy
    return T().visit(copy.deepcopy(expr))


def label_name_rules(m, rid):
    r = RuleResult(rid, "label and construct-name extraction separate `10 outer: stmt` into (10, 'outer', 'stmt') and leave other text alone")
    r.floor = 2
    ev = evaluator(m, RF)
    el = m.need_func(RF, "extract_label")
    ec = m.need_func(RF, "extract_construct_name")
    try:
        for text, want in (("10 continue", (10, "continue")), ("  20   x = 1", (20, "x = 1")), ("x = 10", (None, "x = 10")),
                           ("100 format(1x)", (100, "format(1x)")), ("10x = 1", (None, "10x = 1")),
                           ("30 &", (30, "&")), ("1 2 3", (1, "2 3")), ("0 0 7", (0, "0 7")), ("10 20 continue", (10, "20 continue"))):
            r.instances += 1
            got = ev.run_function(el.node, [text])
            ok = got == want
            r.ob(ok, "extract_label(%r) -> %r" % (text, got))
            if not ok:
                r.fail("extract_label|%s" % text, "extract_label(%r) gives %r, expected %r" % (text, got, want), m.loc(el))
        for text, want in (("outer: do i=1,2", ("outer", "do i=1,2")), ("a :if (x) then", ("a", "if (x) then")), ("x = y", (None, "x = y")),
                           ("Loop_1:  do", ("Loop_1", "do")), ("outer: &", ("outer", "&")), ("outer:&", ("outer", "&")), ("outer :", ("outer", "")),
                           ("x(1:2) = 3", (None, "x(1:2) = 3")), ("print *, 'a: b'", (None, "print *, 'a: b'")),
                           ("a::b", (None, "a::b"))):
            r.instances += 1
            got = ev.run_function(ec.node, [text])
            ok = got == want
            r.ob(ok, "extract_construct_name(%r) -> %r" % (text, got))
            if not ok:
                r.fail("extract_construct_name|%s" % text, "extract_construct_name(%r) gives %r, expected %r" % (text, got, want), m.loc(ec))
    except PE.Unsupported as err:
        r.error("extract_label/extract_construct_name cannot be interpreted statically (%s)" % err)
    except PE.PyRaise as err:
        r.fail("extract|raises", "label/name extraction raises %s" % err.exc_type, m.loc(el))
    return r


# =================================================================================================
# C15.R3: in fixed form every physical line read from the source passes the sentinel replacement
# before it is classified as a comment or handed out
# =================================================================================================
class SentinelClient(F.Client):
    """$raw: the current line came from the source and has not been through replace_omp_sentinels yet."""
    track = {"$raw", "$norm", "@omp", "@fixed", "line", "ignore_comments", "ignore_empty"}

    def __init__(self, readers):
        self.readers = readers     # names of methods that read a physical line from the source
        self.bad = []
        self.unnormalised = []
        self.attr_vars = {"self._include_omp_conditional_lines": "@omp", "self._format.is_fixed": "@fixed"}

    def _is_read(self, call):
        t = A.text(call.func)
        if t == "next" and call.args and A.text(call.args[0]) == "self.source":
            return True
        return isinstance(call.func, ast.Attribute) and A.text(call.func.value) == "self" and call.func.attr in self.readers

    def call_raises(self, call, st):
        if A.text(call.func) == "next" and call.args and A.text(call.args[0]) == "self.source":
            return ("StopIteration",)
        if A.text(call.func) == "self.filo_line.pop":
            return ("IndexError",)
        return ()

    def stmt_effect(self, s, st):
        # `line = line.expandtabs()...`: from here on the columns are the ones the sentinel pattern describes
        if isinstance(s, ast.Assign) and any(isinstance(c, ast.Call) and isinstance(c.func, ast.Attribute) and c.func.attr == "expandtabs"
                                             for c in ast.walk(s.value)):
            return st.set("$norm", F.TRUE)
        return st

    def call_effect(self, call, st):
        t = A.text(call.func)
        if self._is_read(call):
            return (st.set("$raw", F.TRUE).set("$norm", F.FALSE),)
        if t.endswith("replace_omp_sentinels"):
            if st.get("$norm") != F.TRUE and st.get("$raw") == F.TRUE:
                self.unnormalised.append(call)
            return (st.set("$raw", F.FALSE),)
        if t == "_is_fix_comment" and st.get("$raw") == F.TRUE:
            self.bad.append((call, "is classified as a comment"))
        return (st,)


class SentinelFlow(F.Flow):
    def split_leaf(self, test, st):
        if isinstance(test, ast.Attribute) and A.dotted(test) in self.c.attr_vars:
            name = self.c.attr_vars[A.dotted(test)]
            t, f = self.truth_vals(st.get(name))
            return ({st} if t else set()), ({st} if f else set())
        return F.Flow.split_leaf(self, test, st)


def c15_flow_rule(m):
    from sa import flow as F_
    r = RuleResult("C15.R3", "with conditional lines enabled in fixed form, every line read from the source has its sentinel replaced before it "
                             "is classified as a comment or returned")
    r.floor = 1
    k = m.key("FortranReaderBase", RF)
    gsl = m.method(k, "get_single_line")
    if gsl is None:
        r.error("get_single_line vanished")
        return r
    # methods of the reader that read a physical line from the source (other than get_single_line itself)
    readers = set()
    for name, d in m.classes[k]["own"].items():
        f = m.method(k, name)
        if f is None or name in ("get_single_line", "get_next_line"):
            continue
        if any(A.text(c.func) == "next" and c.args and A.text(c.args[0]) == "self.source" for c in A.calls(f.node)):
            # does that helper replace the sentinel itself?
            if not any(A.text(c.func).endswith("replace_omp_sentinels") for c in A.calls(f.node)):
                readers.add(name)
    cl = SentinelClient(readers)
    fl = SentinelFlow(m, gsl, cl)
    out = fl.run(F.State({"$raw": F.FALSE, "$norm": F.FALSE, "@omp": F.TRUTHY, "@fixed": F.TRUTHY}))
    r.instances += 1
    r.ob(not cl.unnormalised, "get_single_line: the sentinel pattern is applied to the tab-expanded line")
    if cl.unnormalised:
        r.fail("get_single_line|sentinel-before-expandtabs", "get_single_line applies the fixed-form sentinel pattern to the line as read, before "
               "tabs are expanded: the pattern describes columns 3-6 as blanks/digits, so a tab-formatted conditional line "
               "(`c$<TAB>i = 1`) stays a comment", m.loc(gsl, cl.unnormalised[0]))
    r.instances += 1
    bad = list(cl.bad)
    n = 0
    for st, node in out.ret:
        if node is None or node.value is None:
            continue
        if isinstance(node.value, ast.Call) and A.text(node.value.func) == "self.get_single_line":
            continue      # recursion: the callee re-establishes the invariant for the line it returns
        n += 1
        if st.get("$raw") == F.TRUE and not (isinstance(node.value, ast.Constant) and node.value.value is None):
            if isinstance(node.value, ast.Name) and st.get(node.value.id) == F.NONE:
                continue
            bad.append((node, "is returned"))
    r.ob(not bad, "get_single_line: %d returning states; helper readers %s" % (n, sorted(readers)))
    if bad:
        node, what = bad[0]
        r.fail("get_single_line|raw-line|%s" % what.replace(" ", "-"), "get_single_line: with conditional lines enabled (fixed form) a line read from the "
               "source %s at `%s` without having passed replace_omp_sentinels: an enabled `c$`/`!$` line reached that way is dropped as a comment"
               % (what, A.text(node)[:60]), m.loc(gsl, node))
    return r


# =================================================================================================
# anchoring of alternations (the F17 class): `\Aa|b\Z` anchors only the first/last alternative
# =================================================================================================
def uneven_anchors(pattern, flags):
    """None when fine; otherwise a description of a top-level alternation whose alternatives are not anchored alike."""
    from re import _parser as sp
    from re import _constants as sc
    try:
        tree = sp.parse(pattern, flags)
    except Exception:
        return None
    items = list(tree)
    if len(items) != 1 or items[0][0] is not sc.BRANCH:
        return None
    alts = items[0][1][1]

    def starts(a):
        return len(a) > 0 and a[0][0] is sc.AT and a[0][1] in (sc.AT_BEGINNING_STRING, sc.AT_BEGINNING)

    def ends(a):
        return len(a) > 0 and a[-1][0] is sc.AT and a[-1][1] in (sc.AT_END_STRING, sc.AT_END)
    s = [starts(a) for a in alts]
    e = [ends(a) for a in alts]
    if any(s) and not all(s):
        return "%d of %d alternatives start with a begin anchor" % (sum(s), len(s))
    if any(e) and not all(e):
        return "%d of %d alternatives end with an end anchor" % (sum(e), len(e))
    return None


def anchor_rule(m, rid):
    import re
    r = RuleResult(rid, "no full-match pattern anchors only some alternatives of a top-level alternation (anchors bind tighter than '|')")
    r.floor = 150
    seen = set()

    def check(origin, pat, flags, where):
        if not isinstance(pat, str) or (origin, pat) in seen:
            return
        seen.add((origin, pat))
        r.instances += 1
        why = uneven_anchors(pat, flags or 0)
        r.ob(why is None, "%s: %r" % (origin, pat[:40]) if r.instances % 40 == 0 else None)
        if why:
            r.fail("%s|uneven-anchors" % origin, "%s: in %r %s: the anchor belongs to that alternative only, so the others match a mere "
                   "prefix/suffix of the text (e.g. 'integer, intent(in)) :: a' was accepted through such a pattern)"
                   % (origin, pat[:70], why), where)
    # pattern_tools objects: the plain pattern and the one abs() compiles
    for name, p in sorted(m.snap["patterns"].items()):
        check("pattern_tools.%s" % name, p.get("compiled_pattern"), p.get("compiled_flags"), "src/fparser/two/pattern_tools.py")
    # what abs() would build for every pattern object (the anchored form): interpret Pattern.__abs__ on each pattern text
    pk = [k for k in m.classes if k.endswith(":Pattern") and "pattern_tools" in k]
    if pk:
        f = m.method(pk[0], "__abs__")
        if f is None:
            r.error("pattern_tools.Pattern.__abs__ vanished")
        else:
            ev = PE.Evaluator({"Pattern": lambda label, pattern, optional=0, flags=0, value=None: PE.Obj({"label": label, "pattern": pattern})})
            made = 0
            for name, p in sorted(m.snap["patterns"].items()):
                if not isinstance(p.get("pattern"), str):
                    continue
                try:
                    obj = PE.Obj({"pattern": p["pattern"], "label": p.get("label"), "flags": p.get("flags", 0), "_flags": p.get("flags", 0),
                                  "value": p.get("value")})
                    res = ev.run_function(f.node, [obj])
                except (PE.Unsupported, PE.PyRaise):
                    continue
                if isinstance(res, PE.Obj):
                    try:
                        anchored = res.get(ev, "pattern")
                    except Exception:
                        continue
                    made += 1
                    check("abs(pattern_tools.%s)" % name, anchored, p.get("flags", 0), m.loc(f))
            r.notes.append("anchored forms built by interpreting Pattern.__abs__: %d" % made)
            if made < 50:
                r.error("Pattern.__abs__ could be interpreted for only %d patterns (anchor changed)" % made)
    # regexes stored on classes and compiled in functions
    for k, c in sorted(m.classes.items()):
        if "/tests/" in (c.get("file") or ""):
            continue
        for an, d in c["own"].items():
            for p in d.get("patterns") or []:
                if p.get("pattern"):
                    check("%s.%s" % (c["name"], an), p["pattern"], p.get("flags", 0), m.class_loc(k))
    for (path, q), f in sorted(m.funcs.items()):
        if "/tests/" in path:
            continue
        for c in A.calls(f.node):
            d = A.dotted(c.func) or ""
            if d in ("re.compile", "re.match", "re.search", "re.fullmatch") and c.args and isinstance(A.const(c.args[0]), str):
                check("%s:%s" % (q, c.lineno), A.const(c.args[0]), 0, m.loc(f, c))
    return r
