"""fparser2: class-local round trip decided by interpretation.

For a table of sample texts, `match` of the rule class is interpreted from its AST (never imported, never run); the classes it hands
pieces of the text to are recording stubs (a child prints back exactly the text it was given), the generic engines of fparser.two.utils
are interpreted too, `string_replace_map` is the model of one_taint._mini_map.  The result is printed with the class's interpreted
`tostr`.  Decided per sample:

  (accept)     the matcher accepts the sample;
  (carry-over) every character literal and every parenthesised group of the sample re-appears in the printed text (blank- and
               case-insensitive outside literals): nothing of the source is dropped or altered on the way through this class;
  (fixpoint)   the printed text is accepted by the same matcher and prints to itself.

A matcher that needs more of Python than sa/pureeval and the small object model here is reported as undetermined, never as a finding.
"""
import ast
import re

from sa import astutil as A
from sa import pureeval as PE
from sa.report import RuleResult
from rules import one_taint

UT = "fparser.two.utils"
F03 = "fparser.two.Fortran2003"
PT = "fparser.two.pattern_tools"


class Tok(PE.Obj):
    """a child node built by a stub constructor: remembers its class and prints the text it was given"""

    def __init__(self, text, tag):
        PE.Obj.__init__(self, {"string": text, "parent": None})     # .items/.children: the structure of a child is not modelled
        self.text = text
        self.tag = tag

    def get(self, ev, name):
        if name in self.fields:
            return self.fields[name]
        if name in ("tostr", "tofortran", "__str__"):
            return lambda *a, **k: self.text
        raise PE.Unsupported("attribute %s of a child node" % name)

    def __str__(self):
        return self.text

    def __repr__(self):
        return "%s(%r)" % (self.tag, self.text)


class World:
    def __init__(self, m, std="f2003"):
        self.m = m
        self.std = std
        self.base = m.key("Base", UT)
        self._leaf = {}
        self._acc = {}
        self._ns = {}
        self._cycles = 0
        self.depth = 2        # how many levels of children are validated by interpreting their own matchers
        self.build = 0        # how many levels of children are built as objects with .items (0: recording stubs only)
        self.parse_all = False  # children are parsed all the way down (full_parse)
        self.ev = PE.Evaluator({}, max_steps=3000000)
        g = self.ev.g
        pats = m.snap["patterns"]
        pk = m.key("Pattern", PT)
        self.f_rsplit, self.f_lsplit = m.method(pk, "rsplit"), m.method(pk, "lsplit")
        self.pev = PE.Evaluator(dict(PE.module_regexes(m, PT)))
        self.pattern_mod = PE.Obj({n: self.mk_pat(e["pattern"], e["flags"], e.get("value")) for n, e in pats.items() if "pattern" in e})
        self.pev.g.update(self.pattern_mod.fields)
        # class bodies build their own patterns: pattern.Pattern(label, regex, optional=0, flags=0, value=None)
        self.pattern_mod.fields["Pattern"] = lambda label, pat, optional=0, flags=0, value=None: self.mk_pat(pat, flags, value)
        for mod in (F03, UT):
            for name, val in PE.module_regexes(m, mod).items():
                g.setdefault(name, val)
        g["pattern"] = self.pattern_mod
        g["pattern_tools"] = self.pattern_mod
        g["string_replace_map"] = self.real_replace_map
        self._srm_world = None
        self._srm_memo = {}
        for mod in (UT, F03):
            path = m.modfile.get(mod)
            for (p_, q), f in m.funcs.items():
                if p_ == path and "." not in q and q not in g:
                    g[q] = (lambda fn: (lambda *a, **k: self.ev.run_function(fn.node, list(a), k)))(f)
        # the tokenising helpers of fparser.common.splitline that a few matchers import
        class _String(str):
            pass

        class _ParenString(str):
            pass
        g.setdefault("String", _String)
        g.setdefault("ParenString", _ParenString)
        for name, val in PE.module_regexes(m, "fparser.common.splitline").items():
            g.setdefault(name, val)
        spath = m.modfile.get("fparser.common.splitline")
        for (p_, q), f in m.funcs.items():
            if p_ == spath and "." not in q and q not in g and q != "string_replace_map":
                g[q] = (lambda fn: (lambda *a, **k: self.ev.run_function(fn.node, list(a), k)))(f)
        self.classes = {}
        for name, k in m.snap["std_classes"][std].items():
            self.classes[name] = k
        for k, c in m.classes.items():
            if c["module"] in (UT, F03) and m.issub(k, self.base):
                self.classes.setdefault(c["name"], k)
        for name, k in self.classes.items():
            if name not in g:
                g[name] = ClassRef(self, k)
        # the 2008 modules import the 2003 classes they extend under the name <Class>_2003
        for name, k in m.snap["std_classes"]["f2003"].items():
            g.setdefault(name + "_2003", ClassRef(self, k))
        g["SYMBOL_TABLES"] = PE.Obj({"current_scope": None})
        g["isinstance"] = self._isinstance
        g["hasattr"] = lambda o, n: (n in o.fields) if isinstance(o, PE.Obj) else hasattr(o, n)
        g["getattr"] = self._getattr
        g["type"] = self._type
        g["set"] = set
        g["repr"] = repr
        g["str"] = str
        g["len"] = len
        g["map"] = lambda fn_, *xs: [fn_(*t) for t in zip(*xs)]
        g["re"] = PE.Obj({"match": re.match, "search": re.search, "compile": re.compile, "sub": re.sub, "split": re.split, "findall": re.findall,
                          "I": re.I, "IGNORECASE": re.I, "escape": re.escape})
        for exc in ("NoMatchError", "InternalError", "FortranSyntaxError", "InternalSyntaxError", "ValueError"):
            g.setdefault(exc, (lambda e_: (lambda *a, **k: PE.PyRaise(e_, " ".join(map(str, a)))))(exc))

    def mk_pat(self, pattern, flags, value=None):
        o = PE.Obj({})
        rx = re.compile(pattern, flags)
        o.fields.update({
            "pattern": pattern, "_flags": flags, "value": value, "label": "",
            "get_compiled": lambda: rx, "match": lambda s_: rx.match(s_), "search": lambda s_: rx.search(s_),
            "__abs__": lambda: self.mk_pat(r"\A(?:" + pattern + r")\Z", flags, value),
            "named": lambda name=None: self.mk_pat("(?P<%s>%s)" % (name or "x", pattern), flags, value),
            "rsplit": lambda s_, is_add=False: self.pev.run_function(self.f_rsplit.node, [o, s_], {"is_add": is_add}),
            "lsplit": lambda s_: self.pev.run_function(self.f_lsplit.node, [o, s_])})
        return o

    @staticmethod
    def string_replace_map(line, lower=False):
        mapped, restore = one_taint._mini_map(line, lower=lower)
        return mapped, restore

    def real_replace_map(self, line, lower=False):
        """fparser.common.splitline.string_replace_map itself, interpreted (the 40-line model above is kept for the helpers that
        only need to find the literals and groups of a text); results are remembered per (line, lower) like the real memo"""
        key = (line, lower)
        if key not in self._srm_memo:
            if self._srm_world is None:
                from rules import reader_interp as _RI
                self._srm_world = _RI.World(self.m, mods=(_RI.SL,))
                self._srm_world.ev.max_steps = 10 ** 9
            self._srm_memo[key] = self._srm_world.call("fparser.common.splitline", "string_replace_map", line, lower=lower)
        return self._srm_memo[key]

    def _getattr(self, obj, name, *default):
        if isinstance(obj, PE.Obj):
            try:
                return obj.get(self.ev, name)
            except PE.Unsupported:
                if default:
                    return default[0]
                raise PE.PyRaise("AttributeError", name)
        raise PE.Unsupported("getattr on %s" % type(obj).__name__)

    def _type(self, obj):
        if isinstance(obj, Tok) and obj.tag in self.classes:
            return ClassRef(self, self.classes[obj.tag])
        if isinstance(obj, Inst):
            return obj.cls
        if isinstance(obj, (str, int, tuple, list, type(None))):
            return type(obj)
        raise PE.Unsupported("type() of %s" % type(obj).__name__)

    def _isinstance(self, obj, cls):
        cs = cls if isinstance(cls, tuple) else (cls,)
        for c in cs:
            if isinstance(c, ClassRef):
                if isinstance(obj, Tok) and obj.tag in self.classes and self.m.issub(self.classes[obj.tag], c.key):
                    return True
                if isinstance(obj, Inst) and self.m.issub(obj.cls.key, c.key):
                    return True
            elif isinstance(c, type):
                if isinstance(obj, c):
                    return True
            elif isinstance(c, PE.Obj):
                continue
            else:
                raise PE.Unsupported("isinstance on %r" % (c,))
        return False

    LEAF_ENGINES = ("STRINGBase.match", "StringBase.match", "NumberBase.match")

    def is_leaf(self, key):
        """own matcher is a plain delegation to one of the child-free engines, and the class has no alternatives"""
        if key not in self._leaf:
            m = self.m
            c = m.classes[key]
            f = m.method(key, "match")
            ok = False
            if f is not None and not c.get("subclass_names"):
                body = A.strip_docstring(f.node.body)
                ok = len(body) == 1 and isinstance(body[0], ast.Return) and isinstance(body[0].value, ast.Call) \
                    and A.text(body[0].value.func) in self.LEAF_ENGINES
            self._leaf[key] = ok
        return self._leaf[key]

    def construct(self, key, text):
        """Build the child as the real constructor would (own matcher, then the registered alternatives in order), one level deep: the
        result is an object with .items that prints through its own interpreted printer.  None when this cannot be done faithfully
        (the caller then falls back to a recording stub); NoMatchError when every alternative definitely refuses the text."""
        m = self.m
        c = m.classes[key]
        if c.get("generated") and c["name"].endswith("_List") and c["name"][:-5] in self.classes:
            # a generated <X>_List: SequenceBase with separator ',' over <X>
            ek = self.classes[c["name"][:-5]]
            mapped, restore = one_taint._mini_map(text)
            parts = [restore(p_).strip() for p_ in mapped.split(",")]
            if any(not p_ for p_ in parts):
                raise PE.PyRaise("NoMatchError", "%s: %r" % (c["name"], text))
            items = []
            for p_ in parts:
                if self.accepts(ek, p_, max(self.depth - 1, 1)) is False:
                    raise PE.PyRaise("NoMatchError", "%s: %r" % (c["name"], p_))
                sub = None
                if self.build > 1:
                    saved = self.build
                    self.build -= 1
                    try:
                        sub = self.construct(ek, p_)
                    except PE.PyRaise:
                        sub = None
                    finally:
                        self.build = saved
                items.append(sub if sub is not None else Tok(p_, c["name"][:-5]))
            node = Inst(self, key, {"string": text, "parent": None, "item": None, "items": tuple(items), "separator": ","})
            return node
        if c.get("generated"):
            return None
        saved_b, saved_d = self.build, self.depth
        self.build, self.depth = self.build - 1, max(self.depth - 1, 1)
        try:
            f = m.method(key, "match")
            undecided = False
            if f is not None and "reader" not in A.param_names(f.node):
                try:
                    res = run_match(self, key, text, reset=False)
                    if res is not None:
                        node = build(self, key, res, text)
                        if isinstance(node, Inst):
                            str(node)              # the printer must be interpretable, else fall back to a stub
                        return node
                except PE.Unsupported:
                    undecided = True
                except PE.PyRaise as err:
                    if err.exc_type != "NoMatchError":
                        undecided = True
            for k2 in (m.snap["registry"][self.std].get(c["name"]) or []):
                if k2 == key or k2 not in m.classes:
                    continue
                v = self.accepts(k2, text, 2)
                if v is True:
                    try:
                        sub = self.construct(k2, text)
                    except PE.PyRaise:
                        sub = None
                    return sub if sub is not None else Tok(text, k2.split(":")[1])
                if v is None:
                    undecided = True
            if undecided:
                return None
            raise PE.PyRaise("NoMatchError", "%s: %r" % (c["name"], text))
        finally:
            self.build, self.depth = saved_b, saved_d

    def full_parse(self, key, text, fuel=None):
        """What Base.__new__ does, interpreted all the way down: the class's own matcher (children are parsed the same way), then the
        registered alternatives in order; the first that matches wins.  Returns an Inst/Tok tree; raises NoMatchError when nothing
        matches and Unsupported when some matcher cannot be interpreted.  Used for expressions, whose classes are all engine-based."""
        m = self.m
        c = m.classes[key]
        ck = ("full", key, text)
        if ck in self._acc:
            v = self._acc[ck]
            if isinstance(v, PE.PyRaise):
                if v.args and "re-entered" in str(v.args[0]):
                    self._cycles += 1          # a failure that only holds inside the enclosing attempt: not to be remembered
                raise v
            return v
        self._acc[ck] = PE.PyRaise("NoMatchError", "re-entered")       # left recursion: the same class on the same text cannot match
        cycles_before = self._cycles
        try:
            if c.get("generated") and c["name"].endswith("_List") and c["name"][:-5] in self.classes:
                ek = self.classes[c["name"][:-5]]
                mapped, restore = one_taint._mini_map(text)
                parts = [restore(p_).strip() for p_ in mapped.split(",")]
                if any(not p_ for p_ in parts):
                    raise PE.PyRaise("NoMatchError", text)
                node = Inst(self, key, {"string": text, "parent": None, "item": None, "separator": ",",
                                        "items": tuple(self.full_parse(ek, p_) for p_ in parts)})
                self._acc[ck] = node
                return node
            f = m.method(key, "match")
            if f is not None and not c.get("generated") and "reader" not in A.param_names(f.node):
                saved = self.parse_all
                self.parse_all = True
                try:
                    res = run_match(self, key, text, reset=False)
                except PE.PyRaise as err:
                    # Base.__new__: a NoMatchError raised inside the class's own matcher (by a child) counts as "no match here"
                    if err.exc_type != "NoMatchError":
                        raise
                    res = None
                finally:
                    self.parse_all = saved
                if res is not None:
                    node = build(self, key, res, text)
                    self._acc[ck] = node
                    return node
            for k2 in (m.snap["registry"][self.std].get(c["name"]) or []):
                if k2 == key or k2 not in m.classes:
                    continue
                try:
                    node = self.full_parse(k2, text)
                    self._acc[ck] = node
                    return node
                except PE.PyRaise as err:
                    if err.exc_type != "NoMatchError":
                        raise
            err = PE.PyRaise("NoMatchError", "%s: %r" % (c["name"], text))
            if self._cycles == cycles_before:
                self._acc[ck] = err
            else:
                self._acc.pop(ck, None)
            raise err
        except PE.Unsupported:
            self._acc.pop(ck, None)
            raise
        except PE.PyRaise:
            if isinstance(self._acc.get(ck), PE.PyRaise) and "re-entered" in str(self._acc[ck].args[0]):
                self._acc.pop(ck, None)
            raise

    def accepts(self, key, text, depth):
        """Would the real constructor of this class accept the text?  True / False / None (not decided within the depth budget).
        The class's own matcher and, failing that, its alternatives are interpreted with their children validated one level less deep."""
        if self.is_leaf(key):
            depth = max(depth, 1)
        if depth <= 0:
            return None
        ck = (key, text, depth)
        if ck in self._acc:
            return self._acc[ck]
        self._acc[ck] = None            # re-entrancy guard (left-recursive alternatives)
        m = self.m
        c = m.classes[key]
        verdicts = []
        f = m.method(key, "match")
        if c.get("generated"):
            # a generated <X>_List class: a comma-separated sequence of <X> (split on the tokenised text)
            out = None
            if c["name"].endswith("_List") and c["name"][:-5] in self.classes:
                mapped, restore = one_taint._mini_map(text)
                vs = [self.accepts(self.classes[c["name"][:-5]], restore(p_).strip(), depth - 1) if p_.strip() else False
                      for p_ in mapped.split(",")]
                out = False if False in vs else (True if all(v is True for v in vs) else None)
            self._acc[ck] = out
            return out
        if f is not None and "reader" not in A.param_names(f.node):
            saved = self.depth
            self.depth = depth - 1
            try:
                res = run_match(self, key, text, reset=False)
                verdicts.append(True if res is not None else False)
            except PE.Unsupported:
                verdicts.append(None)
            except PE.PyRaise as err:
                verdicts.append(False if err.exc_type in ("NoMatchError",) else None)
            finally:
                self.depth = saved
        if True not in verdicts:
            for alt in c.get("subclass_names") or ():
                k2 = self.classes.get(alt)
                if k2 is None or k2 == key:
                    verdicts.append(None)
                    continue
                v = self.accepts(k2, text, depth - 1)
                verdicts.append(v)
                if v is True:
                    break
        if True in verdicts:
            out = True
        elif not verdicts or None in verdicts:
            out = None
        else:
            out = False
        self._acc[ck] = out
        return out

    def class_namespace(self, key):
        """the data attributes of a class body, interpreted statement by statement (tables built with dict.update etc.)"""
        if key not in self._ns:
            env = {}
            self._ns[key] = env
            cd = self.m.classdef(key)
            for b in (cd.body if cd is not None else ()):
                if isinstance(b, (ast.FunctionDef, ast.ClassDef)) or (isinstance(b, ast.Expr) and isinstance(b.value, ast.Constant)):
                    continue
                try:
                    self.ev.stmt(b, env)
                except (PE.Unsupported, PE.PyRaise):
                    for t in (b.targets if isinstance(b, ast.Assign) else []):
                        for nm in A.assigned_names(t):
                            env.pop(nm, None)
        return self._ns[key]

    def class_attr(self, key, name, bind=None):
        m = self.m
        for kk in m.classes[key]["mro"]:
            if kk in m.classes and m.classdef(kk) is not None:
                ns = self.class_namespace(kk)
                if name in ns and not callable(ns[name]):
                    return ns[name]
        for kk in m.classes[key]["mro"]:
            cd = m.classdef(kk) if kk in m.classes else None
            if cd is None:
                continue
            for b in cd.body:
                if isinstance(b, ast.FunctionDef) and b.name == name:
                    deco = [A.text(d) for d in b.decorator_list]
                    if "staticmethod" in deco:
                        return lambda *a, **k: self.ev.run_function(b, list(a), k)
                    if "classmethod" in deco:
                        return lambda *a, **k: self.ev.run_function(b, [ClassRef(self, key)] + list(a), k)
                    if "property" in deco:
                        if bind is None:
                            raise PE.Unsupported("property %s on a class" % name)
                        return self.ev.run_function(b, [bind])
                    if bind is not None:
                        return lambda *a, **k: self.ev.run_function(b, [bind] + list(a), k)
                    return lambda *a, **k: self.ev.run_function(b, list(a), k)
                if isinstance(b, ast.Assign) and len(b.targets) == 1 and isinstance(b.targets[0], ast.Name) and b.targets[0].id == name:
                    if isinstance(b.value, ast.Call) and A.text(b.value.func) == "property" and b.value.args and isinstance(b.value.args[0], ast.Lambda):
                        if bind is None:
                            raise PE.Unsupported("property %s on a class" % name)
                        return self.ev._closure(b.value.args[0], {})(bind)
                    if isinstance(b.value, ast.Attribute) and isinstance(b.value.value, ast.Name) and b.value.value.id in self.classes:
                        # `tostr = WORDClsBase.tostr_a`: a method borrowed from another class
                        return self.class_attr(self.classes[b.value.value.id], b.value.attr, bind=bind)
                    try:
                        return ast.literal_eval(b.value)
                    except Exception:
                        try:
                            return self.ev.ev(b.value, {})
                        except PE.Unsupported:
                            raise PE.Unsupported("class attribute %s" % name)
        raise PE.Unsupported("attribute %s" % name)


class ClassRef(PE.Obj):
    """a rule class: calling it builds a recording child; its class-level attributes (match of an engine, keyword tables) are interpreted"""

    def __init__(self, world, key):
        PE.Obj.__init__(self, {})
        self.world = world
        self.key = key
        self.name = key.split(":")[1]

    def get(self, ev, name):
        if name == "__name__":
            return self.name
        return self.world.class_attr(self.key, name)

    def __eq__(self, other):
        return isinstance(other, ClassRef) and other.key == self.key

    def __ne__(self, other):
        return not self.__eq__(other)

    def __hash__(self):
        return hash(self.key)

    def same_object(self, other):
        """`cls is other_cls` in interpreted code: one class, however many references the evaluator made"""
        return isinstance(other, ClassRef) and other.key == self.key and other.world is self.world

    def __call__(self, text, *a, **k):
        hook = getattr(self.world, "construct_from", None)
        if hook is not None and not isinstance(text, str):
            return hook(self, text, *a, **k)          # rules/prog_interp.py: a reader, a reader item, an existing node
        if isinstance(text, (Tok, Inst)):
            return text
        if not isinstance(text, str):
            raise PE.Unsupported("%s constructed from %s" % (self.name, type(text).__name__))
        if not text.strip():
            raise PE.PyRaise("NoMatchError", "%s: empty text" % self.name)
        if self.world.parse_all:
            return self.world.full_parse(self.key, text.strip())
        if self.world.build > 0:
            node = self.world.construct(self.key, text.strip())
            if node is not None:
                return node
        if self.world.accepts(self.key, text.strip(), self.world.depth) is False:
            raise PE.PyRaise("NoMatchError", "%s: %r" % (self.name, text))
        return Tok(text.strip(), self.name)

    def __repr__(self):
        return "<class %s>" % self.name


class Inst(PE.Obj):
    def __init__(self, world, key, fields):
        PE.Obj.__init__(self, fields)
        self.world = world
        self.cls = ClassRef(world, key)

    def get(self, ev, name):
        if name in self.fields:
            return self.fields[name]
        if name == "__class__":
            return self.cls
        return self.world.class_attr(self.cls.key, name, bind=self)

    def set_attr(self, ev, name, value):
        self.fields[name] = value

    def __str__(self):
        return str(self.get(self.world.ev, "tostr")())

    def __repr__(self):
        return "%s(%r)" % (self.cls.name, self.fields.get("string"))

    # parse-tree nodes compare by value (ComparableMixin._cmpkey: the items, or the string of a leaf)
    def _cmp(self):
        items = self.fields.get("items")
        if items is not None:
            return (self.cls.key, tuple(items) if isinstance(items, (list, tuple)) else items)
        if "content" in self.fields:
            return (self.cls.key, tuple(self.fields["content"]))
        return (self.cls.key, self.fields.get("string"))

    def __eq__(self, other):
        return isinstance(other, Inst) and self._cmp() == other._cmp()

    def __ne__(self, other):
        return not self.__eq__(other)

    def __hash__(self):
        try:
            return hash(self._cmp())
        except TypeError:
            return hash(self.cls.key)


def run_match(world, key, text, reset=True):
    m = world.m
    f = m.method(key, "match")
    if f is None:
        raise PE.Unsupported("no match method")
    params = A.param_names(f.node)
    args = [text]
    if params and params[0] == "cls":
        args = [ClassRef(world, key), text]
    elif params and params[0] == "self":
        raise PE.Unsupported("instance-level match")
    if reset:
        world.ev.steps = 0
    return world.ev.run_function(f.node, args)


def build(world, key, result, text):
    """what Base.__new__ does with a matcher's result: init(*result) on a fresh object"""
    m = world.m
    st = Inst(world, key, {"string": text, "parent": None, "item": None})
    if isinstance(result, (Tok, Inst)):
        return result
    if not isinstance(result, tuple):
        raise PE.Unsupported("matcher returned %s" % type(result).__name__)
    owner = m.method_owner(key, "init") or ""
    if owner.endswith(":Base"):
        st.fields["items"] = result
    else:
        st.get(world.ev, "init")(*result)
    return st


def literals_and_groups(text):
    mapped, restore = one_taint._mini_map(text)
    out = []
    for mo in re.finditer(r"(['\"])_F2PY_STRING_CONSTANT_\d+_\1|F2PY_EXPR_TUPLE_\d+", mapped):
        out.append(restore(mo.group(0)))
    return out


def squeeze(text):
    out, q = [], None
    for ch in text:
        if q:
            out.append(ch)
            if ch == q:
                q = None
        elif ch in "'\"":
            q = ch
            out.append(ch)
        elif ch != " ":
            out.append(ch.lower())
    return "".join(out)


SAMPLES = [
    # --- declarations
    ("Entity_Decl", "a"),
    ("Entity_Decl", "c*(n+1) = 'x y'"),
    ("Entity_Decl", "b(2, f(1, 2))*8 = (/1, 2/)"),
    ("Entity_Decl", "p => null()"),
    ("Entity_Decl", "s*(*)"),
    ("Component_Decl", "c*(2+1) = 'abc'"),
    ("Component_Decl", "d(n, 2*(m+1)) = 0"),
    ("Component_Decl", "q => null()"),
    ("Type_Declaration_Stmt", "integer, dimension(n, 2*(m+1)), intent(in) :: a, b(f(1, 2))"),
    ("Type_Declaration_Stmt", "character(len=*), parameter :: s = 'a, b(c) = d', t = \"::\""),
    ("Type_Declaration_Stmt", "real(kind=8) x, y(3)"),
    ("Type_Declaration_Stmt", "type(point), pointer :: p => null()"),
    ("Type_Declaration_Stmt", "double precision :: d = 1.0d0"),
    ("Type_Declaration_Stmt", "character*(n+1) a, b*(2*(m))"),
    ("Intrinsic_Type_Spec", "integer(kind=selected_int_kind(9))"),
    ("Intrinsic_Type_Spec", "character(len=f(n, 1), kind=ck)"),
    ("Intrinsic_Type_Spec", "double precision"),
    ("Intrinsic_Type_Spec", "real*8"),
    ("Declaration_Type_Spec", "type(point(2, k=(3)))"),
    ("Declaration_Type_Spec", "class(*)"),
    ("Kind_Selector", "(kind=f(1, 2))"),
    ("Kind_Selector", "(8)"),
    ("Kind_Selector", "*8"),
    ("Char_Selector", "(len=f(n, 1), kind=ck)"),
    ("Char_Selector", "(n+1, kind=ck)"),
    ("Length_Selector", "(len=n*(m+1))"),
    ("Length_Selector", "*(n+1)"),
    ("Length_Selector", "*8"),
    ("Char_Length", "(n*(m+1))"),
    ("Initialization", "= f(1, 'a=b')"),
    ("Initialization", "=> null()"),
    ("Component_Initialization", "= (/1, 2/)"),
    ("Derived_Type_Stmt", "type, extends(base), public :: derived(k, l)"),
    ("Derived_Type_Stmt", "type t"),
    ("Type_Attr_Spec", "extends(base)"),
    ("Type_Attr_Spec", "bind(c)"),
    ("Type_Param_Def_Stmt", "integer(kind=4), kind :: k = f(1, 2), l"),
    ("Type_Param_Decl", "k = f(1, 2)"),
    ("Data_Component_Def_Stmt", "real, dimension(n, f(2, 3)), pointer :: a, b => null()"),
    ("Proc_Component_Def_Stmt", "procedure(iface), pointer, nopass :: f => null()"),
    ("Specific_Binding", "procedure, pass(self), public :: f => g"),
    ("Specific_Binding", "procedure(iface), deferred :: h"),
    ("Generic_Binding", "generic, public :: operator(+) => add, plus"),
    ("Generic_Binding", "generic :: assignment(=) => assign_t"),
    ("Final_Binding", "final :: clean, wipe"),
    ("Enum_Def_Stmt", "enum, bind(c)"),
    ("Enumerator_Def_Stmt", "enumerator :: red = 1, blue = f(2, 3)"),
    ("Enumerator", "blue = f(2, 3)"),
    ("Array_Constructor", "(/1, f(2, 3), (i, i = 1, n)/)"),
    ("Array_Constructor", "[character(len=3) :: 'a,b', 'c']"),
    ("Ac_Spec", "character(len=3) :: 'a,b', 'c'"),
    ("Ac_Implied_Do", "(a(i, 1), f(i, 2), i = 1, g(n, 2))"),
    ("Ac_Implied_Do_Control", "i = 1, g(n, 2), (k)"),
    ("Explicit_Shape_Spec", "0:f(n, 2)"),
    ("Explicit_Shape_Spec", "n*(m+1)"),
    ("Deferred_Shape_Spec", ":"),
    ("Assumed_Size_Spec", "n, f(1, 2), 0:*"),
    ("Assumed_Shape_Spec", "f(1, 2):"),
    ("Language_Binding_Spec", "bind(c, name='a,b')"),
    ("Bind_Stmt", "bind(c, name='x_y') :: a, /blk/"),
    ("Data_Stmt", "data a, b /1, 2/, c(1:2) /2*0/"),
    ("Data_Stmt_Set", "a(f(1, 2)), b / 'x/y', 2*0 /"),
    ("Data_Implied_Do", "(a(i, j), b(j), j = 1, f(n, 2))"),
    ("Data_Stmt_Value", "2*'a*b'"),
    ("Dimension_Stmt", "dimension :: a(10, 0:n), b(f(2, 3))"),
    ("Intent_Stmt", "intent(inout) :: a, b"),
    ("Optional_Stmt", "optional :: a, b"),
    ("Parameter_Stmt", "parameter (n = 3, s = 'a, b', m = f(n, (n+1)))"),
    ("Named_Constant_Def", "s = 'a = b'"),
    ("Pointer_Stmt", "pointer :: a, b(:, :)"),
    ("Cray_Pointer_Stmt", "pointer (p, a), (q, b(n, 2))"),
    ("Cray_Pointer_Decl", "(q, b(n, f(1, 2)))"),
    ("Protected_Stmt", "protected :: a, b"),
    ("Save_Stmt", "save :: a, /blk/"),
    ("Save_Stmt", "save"),
    ("Target_Stmt", "target :: a, b(2, f(1, 2))"),
    ("Target_Entity_Decl", "b(2, f(1, 2))"),
    ("Value_Stmt", "value :: x"),
    ("Volatile_Stmt", "volatile :: x, y"),
    ("Allocatable_Stmt", "allocatable :: a(:), b(:, :)"),
    ("Asynchronous_Stmt", "asynchronous :: a"),
    ("Access_Stmt", "public :: a, operator(.x.), assignment(=)"),
    ("Access_Stmt", "private"),
    ("Implicit_Stmt", "implicit none"),
    ("Implicit_Stmt", "implicit real(kind=8) (a-h, o-z), integer (i-n)"),
    ("Implicit_Spec", "character(len=(2)) (a-c, z)"),
    ("Letter_Spec", "a-h"),
    ("Namelist_Stmt", "namelist /g/ a, b /h/ c"),
    ("Equivalence_Stmt", "equivalence (a, b(1)), (c(2, 3), d)"),
    ("Equivalence_Set", "(c(2, f(1, 2)), d, e)"),
    ("Common_Stmt", "common /c/ a, b(2, 3) // d"),
    ("Common_Block_Object", "b(2, f(1, 2))"),
    ("External_Stmt", "external :: f, g"),
    ("Intrinsic_Stmt", "intrinsic :: sin, cos"),
    ("Import_Stmt", "import :: a, b"),
    ("Use_Stmt", "use mod, only: a, b => c, operator(.x.)"),
    ("Use_Stmt", "use, intrinsic :: iso_c_binding"),
    ("Use_Stmt", "use mod, x => y"),
    ("Rename", "operator(.a.) => operator(.b.)"),
    ("Rename", "x => y"),
    # --- references and expressions
    ("Data_Ref", "a(f(1, 2))%b(:, 3)%c"),
    ("Part_Ref", "a(f(1, 2), g(3, (4)))"),
    ("Array_Section", "s(1:n)(2:f(3, 4))"),
    ("Substring_Range", "f(1, 2):n*(m+1)"),
    ("Subscript_Triplet", "f(1, 2):g(3, 4):(k)"),
    ("Subscript_Triplet", "::2"),
    ("Structure_Constructor", "point(1.0, y=f(2, 3))"),
    ("Component_Spec", "y = f(2, 'a=b')"),
    ("Function_Reference", "f(a, key=(b+c), s='x,y')"),
    ("Actual_Arg_Spec", "key = (b+c)*f(1, 2)"),
    ("Alt_Return_Spec", "*10"),
    ("Parenthesis", "(a + f(b, c))"),
    ("Level_2_Expr", "a + f(b, 'p+q') - (c + d)"),
    ("Level_2_Unary_Expr", "-f(a, (b))"),
    ("Add_Operand", "a * f(b, c) / (d * e)"),
    ("Mult_Operand", "a ** f(b, c) ** (d)"),
    ("Level_3_Expr", "a // 'x//y' // f(b, c)"),
    ("Level_4_Expr", "f(a, b) .le. (c + d)"),
    ("Level_4_Expr", "a == 'x==y'"),
    ("And_Operand", ".not. f(a, (b))"),
    ("Or_Operand", "a .and. f(b, c) .and. (d)"),
    ("Equiv_Operand", "a .or. f(b, '.or.')"),
    ("Level_5_Expr", "a .eqv. f(b, c) .neqv. (d)"),
    ("Expr", "a .myop. f(b, (c))"),
    ("Level_1_Expr", ".inv. f(a, (b))"),
    ("Complex_Literal_Constant", "(1.0, -2.0)"),
    ("Char_Literal_Constant", "ck_'a''b, (c)'"),
    ("Char_Literal_Constant", "\"it's\""),
    ("Real_Literal_Constant", "1.0e-3_dp"),
    ("Int_Literal_Constant", "12_i8"),
    ("Logical_Literal_Constant", ".true._lk"),
    ("Defined_Op", ".myop."),
    # --- executable statements
    ("Assignment_Stmt", "a(i, j+1)%c = 'it''s' // f(x, 'p=q') * (b - c)"),
    ("Pointer_Assignment_Stmt", "p(1:, f(2, 3):) => t%q(1:n)"),
    ("Pointer_Assignment_Stmt", "p => f(a, 'x=>y')"),
    ("Where_Stmt", "where (a(:, 1) > f(0, 1)) b = c + (d)"),
    ("Where_Construct_Stmt", "where (a > (0))"),
    ("Masked_Elsewhere_Stmt", "elsewhere (a < (0)) outer"),
    ("Elsewhere_Stmt", "elsewhere outer"),
    ("Forall_Header", "(i = 1:n, j = 1:f(m, 2):2, a(i, j) > g(0, 1))"),
    ("Forall_Triplet_Spec", "j = 1:f(m, 2):(k)"),
    ("Forall_Stmt", "forall (i = 1:n, a(i) /= f(0, 1)) b(i) = c(i, 'x')"),
    ("Forall_Construct_Stmt", "forall (i = 1:n, j = 1:m)"),
    ("Allocate_Stmt", "allocate (real(8) :: a(n, 2*(m+1)), b(0:k), stat=ierr)"),
    ("Allocate_Stmt", "allocate (a(f(1, 2)), source=g(b, 'x,y'))"),
    ("Allocation", "a(n, 2*(m+1))"),
    ("Alloc_Opt", "source = g(b, 'x=y')"),
    ("Allocate_Shape_Spec", "0:f(k, 2)"),
    ("Deallocate_Stmt", "deallocate (a, b(1)%p, stat=ierr)"),
    ("Dealloc_Opt", "errmsg = msg(1:f(2, 3))"),
    ("Nullify_Stmt", "nullify (p, q%r(1, f(2, 3)))"),
    ("If_Stmt", "if (a(i, 1) > f(0, 1)) x = f(y, 'p,q')"),
    ("If_Then_Stmt", "if (a .or. g(b, (c))) then"),
    ("Else_If_Stmt", "else if (a .and. f(b, (c))) then outer"),
    ("Else_Stmt", "else outer"),
    ("Select_Case_Stmt", "select case (f(i, 'a,b'))"),
    ("Case_Stmt", "case (1, 3:5, f('a,b')) outer"),
    ("Case_Stmt", "case default"),
    ("Case_Selector", "(1, 3:5, f('a,b'))"),
    ("Case_Value_Range", "f(1, 2):g(3, 4)"),
    ("Select_Type_Stmt", "select type (x => y%z(1, f(2, 3)))"),
    ("Type_Guard_Stmt", "type is (real(kind=f(1, 2))) outer"),
    ("Type_Guard_Stmt", "class default"),
    ("Associate_Stmt", "associate (x => a(1, 2) + b, y => c)"),
    ("Association", "x => a(1, f(2, 3)) + b"),
    ("Label_Do_Stmt", "do 10 i = 1, f(n, 2), (k)"),
    ("Nonlabel_Do_Stmt", "do while (a(i) < g(1, 2))"),
    ("Nonlabel_Do_Stmt", "do, i = 1, n"),
    ("Loop_Control", ", while (a(i) < g(1, 2))"),
    ("Loop_Control", "i = 1, f(n, 2), (k)"),
    ("Cycle_Stmt", "cycle outer"),
    ("Exit_Stmt", "exit"),
    ("Goto_Stmt", "go to 100"),
    ("Computed_Goto_Stmt", "go to (10, 20, 30), i + f(j, (k))"),
    ("Arithmetic_If_Stmt", "if (a(i) - f(b, c)) 10, 20, 30"),
    ("Continue_Stmt", "continue"),
    ("Stop_Stmt", "stop 'a, (b)'"),
    ("Stop_Stmt", "stop 2"),
    ("Return_Stmt", "return f(1, 2)"),
    ("Call_Stmt", "call obj%sub(a, f(b, c), 'x,y', key=(d+e), *10)"),
    ("Call_Stmt", "call sub"),
    ("Procedure_Designator", "a(i, f(1, 2))%b%sub"),
    # --- I/O
    ("Open_Stmt", "open (unit=10, file='a=b, c.txt', status=trim(s)//'x')"),
    ("Open_Stmt", "open (10, file='a.txt')"),
    ("Open_Stmt", "open (file='a.txt', unit = 10)"),
    ("Open_Stmt", "open (file='a.txt', UNIT  =10, err=99)"),
    ("Connect_Spec", "file = 'a=b, (c).txt'"),
    ("Connect_Spec", "f(1, 2)"),
    ("Close_Stmt", "close (unit=10, status='keep, really')"),
    ("Close_Spec", "status = f('a,b', 1)"),
    ("Read_Stmt", "read (5, fmt='(a)', end=10) c, (a(i), i = 1, n)"),
    ("Read_Stmt", "read *, a, b(1:2)"),
    ("Read_Stmt", "read '(a, i3)', a, b(f(1, 2))"),
    ("Write_Stmt", "write (6, '(1x,\"a=\",i3)') 'text: a=b', f(x, y)"),
    ("Write_Stmt", "write (unit=lun, fmt=*, iostat=ios) g((a+b)*c)"),
    ("Print_Stmt", "print '(a,i3)', 'n = ', f(n, 1)"),
    ("Print_Stmt", "print *, 'a,b', x(i)"),
    ("Io_Control_Spec_List", "6, '(1x,\"a=\",i3)', iostat=ios"),
    ("Io_Control_Spec_List", "unit=lun, fmt=f(1, 'a=b'), advance='no'"),
    ("Io_Control_Spec", "fmt = f(1, 'a=b')"),
    ("Io_Implied_Do", "(a(i, j), b(j), j = 1, f(n, 2))"),
    ("Io_Implied_Do_Control", "j = 1, f(n, 2), (k)"),
    ("Wait_Stmt", "wait (unit=10, id=k(1, f(2, 3)))"),
    ("Wait_Spec", "id = k(1, f(2, 3))"),
    ("Backspace_Stmt", "backspace (unit=f(1, 2), err=20)"),
    ("Backspace_Stmt", "backspace 10"),
    ("Endfile_Stmt", "endfile (10)"),
    ("Rewind_Stmt", "rewind f(1, 2)"),
    ("Position_Spec", "iomsg = s(1:f(2, 3))"),
    ("Flush_Stmt", "flush (unit=10, iostat=n(1, 2))"),
    ("Flush_Spec", "iostat = n(1, f(2, 3))"),
    ("Inquire_Stmt", "inquire (file='a,b', exist=ex(1, 2))"),
    ("Inquire_Stmt", "inquire (iolength=n) a, b(1:f(2, 3))"),
    ("Inquire_Spec", "file = 'a=b,(c)'"),
    ("Format_Stmt", "format (1x, 'a(b)', 3(i2, ','), /, 2pf8.2)"),
    ("Format_Specification", "(1x, 'a(b)', 3(i2, ','), /)"),
    ("Format_Item_List", "1x, 'a,(b)', 3(i2, ','), i5.3"),
    ("Format_Item", "3(i2, ',', 'x)')"),
    ("Format_Item", "2f8.3"),
    ("Data_Edit_Desc_C1002", "f8.3"),
    ("Data_Edit_Desc_C1002", "es12.4e3"),
    ("Data_Edit_Desc", "i5.3"),
    ("Data_Edit_Desc", "a"),
    ("Data_Edit_Desc", "dt'a,b'(1, 2)"),
    ("Control_Edit_Desc", "2p"),
    ("Position_Edit_Desc", "tl5"),
    # --- program units
    ("Program_Stmt", "program main"),
    ("Module_Stmt", "module m"),
    ("Block_Data_Stmt", "block data bd"),
    ("Interface_Stmt", "interface operator(.x.)"),
    ("Interface_Stmt", "abstract interface"),
    ("Interface_Stmt", "interface assignment(=)"),
    ("End_Interface_Stmt", "end interface operator(.x.)"),
    ("Procedure_Stmt", "module procedure f, g"),
    ("Generic_Spec", "operator(.x.)"),
    ("Generic_Spec", "assignment(=)"),
    ("Dtio_Generic_Spec", "read(formatted)"),
    ("Procedure_Declaration_Stmt", "procedure(iface), pointer, save :: p => null(), q"),
    ("Proc_Attr_Spec", "intent(inout)"),
    ("Proc_Decl", "p => null()"),
    ("Function_Stmt", "pure integer(kind=f(1, 2)) function f(x, y) result(r) bind(c, name='a,b')"),
    ("Function_Stmt", "function g()"),
    ("Prefix", "recursive pure integer(kind=8)"),
    ("Suffix", "result(r) bind(c, name='f_c')"),
    ("Suffix", "bind(c) result(r)"),
    ("Subroutine_Stmt", "recursive subroutine s(a, b, *) bind(c, name='s,c')"),
    ("Subroutine_Stmt", "subroutine t"),
    ("Subroutine_Stmt", "subroutine t() bind(c)"),
    ("Subroutine_Stmt", "pure subroutine u(a)"),
    ("Function_Stmt", "function h() result(r)"),
    ("Type_Declaration_Stmt", "double  precision d, e(2)"),
    ("Type_Declaration_Stmt", "double precision x, y(3)"),
    ("Type_Declaration_Stmt", "double complex z"),
    ("Type_Declaration_Stmt", "DOUBLE PRECISION, save :: d"),
    ("Intrinsic_Type_Spec", "double   complex"),
    ("Entry_Stmt", "entry e(a, b) result(r)"),
    ("Contains_Stmt", "contains"),
    ("Stmt_Function_Stmt", "f(x, y) = x + g(y, (x))"),
    ("End_Subroutine_Stmt", "end subroutine s"),
    ("End_Function_Stmt", "end function"),
    ("End_Do_Stmt", "end do outer"),
    ("End_If_Stmt", "endif"),
    ("Include_Stmt", "include 'a b,(c).inc'"),
    # --- leaves and small classes
    ("Name", "my_Var_1"),
    ("Label", "00100"),
    ("Extended_Intrinsic_Op", "//"),
    ("Extended_Intrinsic_Op", ".ge."),
    ("Type_Param_Value", "*"),
    ("Signed_Int_Literal_Constant", "-12_i8"),
    ("Signed_Real_Literal_Constant", "+1.5e-3_dp"),
    ("Digit_String", "007"),
    ("Binary_Constant", "b'0101'"),
    ("Octal_Constant", "O\"777\""),
    ("Hex_Constant", "z'1F'"),
    ("Type_Name", "point_t"),
    ("End_Type_Stmt", "end type point_t"),
    ("Sequence_Stmt", "sequence"),
    ("Type_Param_Attr_Spec", "kind"),
    ("Dimension_Component_Attr_Spec", "dimension(n, f(1, 2))"),
    ("Component_Attr_Spec", "pointer"),
    ("Proc_Component_PASS_Arg_Name", "pass(self)"),
    ("Proc_Component_Attr_Spec", "nopass"),
    ("Private_Components_Stmt", "private"),
    ("Binding_Private_Stmt", "private"),
    ("Binding_PASS_Arg_Name", "pass(this)"),
    ("Binding_Attr", "non_overridable"),
    ("Derived_Type_Spec", "point(2, k=(3))"),
    ("Type_Param_Spec", "k = f(1, 2)"),
    ("End_Enum_Stmt", "end enum"),
    ("Dimension_Attr_Spec", "dimension(0:n, f(1, 2))"),
    ("Intent_Attr_Spec", "intent(inout)"),
    ("Attr_Spec", "allocatable"),
    ("Null_Init", "null"),
    ("Access_Spec", "private"),
    ("Intent_Spec", "inout"),
    ("Bind_Entity", "/blk/"),
    ("Cray_Pointee_Decl", "b(n, f(1, 2))"),
    ("Pointer_Decl", "b(:, :)"),
    ("Saved_Entity", "/blk/"),
    ("Substring", "s(f(1, 2):n)"),
    ("Type_Param_Inquiry", "a(i, f(1, 2))%kind"),
    ("Data_Pointer_Object", "a(i, f(1, 2))%p"),
    ("Bounds_Spec", "f(1, 2):"),
    ("Bounds_Remapping", "f(1, 2):g(3, 4)"),
    ("Proc_Component_Ref", "a(i, f(1, 2))%p"),
    ("End_Where_Stmt", "end where outer"),
    ("End_Forall_Stmt", "end forall"),
    ("End_Select_Stmt", "end select outer"),
    ("End_Associate_Stmt", "end associate"),
    ("End_Select_Type_Stmt", "end select"),
    ("Stop_Code", "'a, (b)'"),
    ("Stop_Code", "12345"),
    ("Io_Unit", "*"),
    ("Format", "*"),
    ("Hollerith_Item", "5Ha,(b)"),
    ("Sign_Edit_Desc", "sp"),
    ("Blank_Interp_Edit_Desc", "bz"),
    ("Round_Edit_Desc", "rn"),
    ("Decimal_Edit_Desc", "dc"),
    ("End_Program_Stmt", "end program main"),
    ("End_Module_Stmt", "end module"),
    ("Module_Nature", "non_intrinsic"),
    ("End_Block_Data_Stmt", "end block data bd"),
    ("Prefix_Spec", "elemental"),
    ("Dummy_Arg", "*"),
]

# Fortran 2008 only (interpreted with the classes of the 2008 grammar)
SAMPLES_2008 = [
    ("Attr_Spec", "contiguous"),
    ("Codimension_Attr_Spec", "codimension[2, *]"),
    ("Block_Stmt", "block"),
    ("Coarray_Bracket_Spec", "[2, f(1, 2):*]"),
    ("Codimension_Attr_Spec", "codimension[n, *]"),
    ("Coshape_Spec", "0:f(1, 2)"),
    ("Critical_Stmt", "critical"),
    ("Deferred_Coshape_Spec", ":"),
    ("End_Block_Stmt", "end block outer"),
    ("End_Critical_Stmt", "end critical"),
    ("End_Submodule_Stmt", "end submodule sub"),
    ("Error_Stop_Stmt", "error stop 'a, (b)'"),
    ("Error_Stop_Stmt", "error stop"),
    ("Explicit_Coshape_Spec", "2, 0:f(1, 2), *"),
    ("Parent_Identifier", "anc:par"),
    ("Submodule_Stmt", "submodule (anc:par) sub"),
    ("Loop_Control", ", concurrent (i = 1:n, j = 1:f(m, 2), a(i, j) > 0)"),
    ("Loop_Control", "concurrent (i = 1:n)"),
    ("Nonlabel_Do_Stmt", "do concurrent (i = 1:n)"),
    ("Label_Do_Stmt", "do 10 concurrent (i = 1:f(n, 2))"),
    ("Open_Stmt", "open (newunit=lun, file='a,b')"),
    ("Allocate_Stmt", "allocate (a(n), mold=b(1, f(2, 3)))"),
    ("Alloc_Opt", "mold = b(1, f(2, 3))"),
    ("Type_Declaration_Stmt", "real, contiguous, codimension[*] :: a(n, f(1, 2))"),
    ("Proc_Decl", "p => f"),
    ("Procedure_Stmt", "procedure :: f, g"),
    ("Procedure_Stmt", "module procedure f"),
    ("If_Stmt", "if (a(i, 1) > f(0, 1)) error stop 'x,y'"),
]


def _once(world, key, t):
    res = run_match(world, key, t)
    if res is None:
        return None
    return str(build(world, key, res, t))


def standards_rule(m, rid, floor=150, build_depth=0):
    """C17: every sample the 2003 classes accept is accepted by the classes the 2008 grammar uses for the same rule, with the same text."""
    r = RuleResult(rid, "for every sample text the 2003 matcher accepts, the class the 2008 grammar uses for the same rule accepts it too and "
                        "prints the same text (both interpreted; children are recording stubs)")
    r.floor = floor
    w3, w8 = World(m, "f2003"), World(m, "f2008")
    w3.build = w8.build = build_depth
    for cname, text in SAMPLES:
        k3, k8 = w3.classes.get(cname), w8.classes.get(cname)
        if k3 is None or k8 is None:
            continue
        try:
            o3 = _once(w3, k3, text)
        except (PE.Unsupported, PE.PyRaise):
            continue
        if o3 is None:
            continue
        r.instances += 1
        if k3 == k8:
            r.ob(True)
            continue
        try:
            o8 = _once(w8, k8, text)
        except PE.Unsupported as err:
            r.undet("%s|%s: %s" % (cname, text, err))
            continue
        except PE.PyRaise as err:
            o8 = "raises %s" % err.exc_type
        ok = o8 == o3
        r.ob(ok, "%s: %r -> %r under both standards" % (cname, text, o3) if r.obligations % 20 == 0 else None)
        if not ok:
            r.fail("%s|%s|standards" % (cname, text), "%s: %r is printed as %r by the 2003 class but the 2008 class %s: a source the 2003 parser "
                   "accepts is rejected or regenerated differently by the 2008 parser" % (cname, text, o3, "rejects it" if o8 is None else
                                                                                          "gives %r" % (o8,)), m.class_loc(k8))
    return r


def widenings(text, n=3, limit=10):
    """the text with ONE blank between tokens (outside character literals) widened to n blanks, for each such blank in turn, and with
    all of them widened: what joining continuation lines at that token boundary can produce"""
    pos, q = [], None
    for i, ch in enumerate(text):
        if q:
            if ch == q:
                q = None
        elif ch in "'\"":
            q = ch
        elif ch == " " and (i == 0 or text[i - 1] != " "):
            pos.append(i)
    out = []
    for i in pos[:limit]:
        out.append(text[:i] + " " * n + text[i + 1:])
    if len(pos) > 1:
        t = text
        for i in reversed(pos):
            t = t[:i] + " " * n + t[i + 1:]
        out.append(t)
    return out


def layout_rule(m, rid, floor=150):
    """C04: the blanks between tokens do not matter to any class-level matcher."""
    r = RuleResult(rid, "for every sample text, widening each blank between tokens to three blanks (what a continuation split at a token "
                        "boundary produces) changes neither acceptance nor the printed text (matchers interpreted; children are recording stubs "
                        "validated two levels deep)")
    r.floor = floor
    worlds = {"f2003": World(m, "f2003"), "f2008": World(m, "f2008")}
    for std_, cname, text in [("f2003", c_, t_) for c_, t_ in SAMPLES] + [("f2008", c_, t_) for c_, t_ in SAMPLES_2008]:
        world = worlds[std_]
        key = world.classes.get(cname)
        if key is None or " " not in text:
            continue
        try:
            o1 = _once(world, key, text)
        except (PE.Unsupported, PE.PyRaise):
            continue
        if o1 is None:
            continue
        def upper_outside(t):
            out, q = [], None
            for ch in t:
                if q:
                    out.append(ch)
                    if ch == q:
                        q = None
                elif ch in "'\"":
                    q = ch
                    out.append(ch)
                else:
                    out.append(ch.upper())
            return "".join(out)
        variants = widenings(text)
        if upper_outside(text) != text:
            variants.append(upper_outside(text))          # keywords and names in upper case: same statement
        for wide in variants:
            r.instances += 1
            try:
                o2 = _once(world, key, wide)
            except PE.Unsupported as err:
                r.undet("%s|%s: %s" % (cname, wide, err))
                continue
            except PE.PyRaise as err:
                o2 = "raises %s" % err.exc_type
            ok = o2 is not None and isinstance(o2, str) and squeeze(o2) == squeeze(o1)
            r.ob(ok, "%s: %r" % (cname, wide) if r.obligations % 100 == 0 else None)
            if not ok:
                r.fail("%s|%s|layout" % (cname, text), "%s accepts %r but %s %r: a statement continued at that token boundary parses "
                       "differently from the one-line layout" % (cname, text, "rejects" if o2 is None else "turns into %r the text" % (o2,), wide),
                       m.class_loc(key))
                break
    return r


# documented canonicalisations (explicit KIND=/LEN=/UNIT= keywords, empty dummy-argument parentheses)
CANONICAL = {
    ("Kind_Selector", "(8)"): "(kind = 8)",
    ("Char_Selector", "(n+1, kind=ck)"): "(len = n+1, kind = ck)",
    ("Connect_Spec", "f(1, 2)"): "unit = f(1, 2)",
    ("Subroutine_Stmt", "subroutine t() bind(c)"): "subroutine t bind(c)",
    ("Endfile_Stmt", "endfile (10)"): "endfile (unit = 10)",
    ("Open_Stmt", "open (10, file='a.txt')"): "open (unit = 10, file='a.txt')",
    ("Backspace_Stmt", "backspace 10"): "backspace 10",
}


def roundtrip_rule(m, rid, samples=None, floor=1, tokens=False, build_depth=0, std="f2003"):
    samples = SAMPLES if samples is None else samples
    r = RuleResult(rid, "fparser2 class-local round trip by interpretation: for %d sample texts the class's matcher (children are recording "
                        "stubs, engines interpreted) accepts the text, every literal and parenthesised group re-appears in what its printer "
                        "prints, and that text is accepted again and prints to itself" % len(samples))
    r.floor = floor
    world = World(m, std)
    world.build = build_depth
    for cname, text in samples:
        key = world.classes.get(cname)
        if key is None:
            r.error("fparser2 class %s vanished" % cname)
            continue
        r.instances += 1
        ident = "%s|%s" % (cname, text)

        def once(t):
            res = run_match(world, key, t)
            if res is None:
                return None
            st = build(world, key, res, t)
            return str(st)
        try:
            out1 = once(text)
        except PE.Unsupported as err:
            r.undet("%s: %s" % (ident, err))
            continue
        except PE.PyRaise as err:
            r.ob(False)
            r.fail("%s|raises" % ident, "%s: matching %r raises %s (interpreted)" % (cname, text, err.exc_type), m.class_loc(key))
            continue
        if out1 is None:
            r.ob(False)
            r.fail("%s|rejected" % ident, "%s.match rejects the valid text %r" % (cname, text), m.class_loc(key))
            continue
        if tokens:
            def norm(t):
                return squeeze(t).replace("::", "")
            want_text = CANONICAL.get((cname, text), text)
            if norm(out1) not in (norm(want_text), norm(text)):
                r.ob(False)
                r.fail("%s|tokens" % ident, "%s: %r is printed as %r; apart from blanks, case and '::' the text should be %r: a token is "
                       "dropped, invented or moved" % (cname, text, out1, want_text), m.class_loc(key))
                continue
        sq = squeeze(out1)
        lost = [p for p in literals_and_groups(text) if squeeze(p) not in sq]
        if lost:
            r.ob(False)
            r.fail("%s|carry-over" % ident, "%s: %r is printed as %r: the piece %r of the source does not re-appear (a token is dropped or "
                   "altered on the way through this class)" % (cname, text, out1, lost[0]), m.class_loc(key))
            continue
        try:
            out2 = once(out1)
        except PE.Unsupported as err:
            r.undet("%s (second pass): %s" % (ident, err))
            continue
        except PE.PyRaise as err:
            out2 = "raises %s" % err.exc_type
        ok = out2 == out1
        r.ob(ok, "%s: %r -> %r" % (cname, text, out1) if r.obligations % 10 == 0 else None)
        if not ok:
            r.fail("%s|fixpoint" % ident, "%s: %r is printed as %r, which the same class then %s: the printed tree is not accepted again to the "
                   "same text" % (cname, text, out1, "rejects" if out2 is None else "prints as %r" % (out2,)), m.class_loc(key))
    return r


# ---------------------------------------------------------------------------------------------------------------
# block printers: every child of a block is printed exactly once, in order
class BTok(Tok):
    """a statement of a block: compares by VALUE like the real nodes (two statements with the same text are equal), prints tab + text"""

    def get(self, ev, name):
        if name == "tofortran":
            return lambda tab="", isfix=None: tab + self.text
        return Tok.get(self, ev, name)

    def __eq__(self, other):
        return isinstance(other, BTok) and (self.tag, self.text) == (other.tag, other.text)

    def __ne__(self, other):
        return not self.__eq__(other)

    def __hash__(self):
        return hash((self.tag, self.text))


BLOCK_PRINTERS = [
    # (class whose tofortran is interpreted, [(child class, text), ...])
    ("Execution_Part", [("Assignment_Stmt", "x = x + 1.0")]),
    ("Execution_Part", [("Assignment_Stmt", "x = x + 1.0"), ("Assignment_Stmt", "n = n * 2")]),
    ("Execution_Part", [("Assignment_Stmt", "x = x + 1.0"), ("Assignment_Stmt", "n = n * 2"), ("Assignment_Stmt", "x = x + 1.0")]),
    ("Execution_Part", [("Call_Stmt", "CALL a"), ("Call_Stmt", "CALL a")]),
    ("Specification_Part", [("Type_Declaration_Stmt", "INTEGER :: i"), ("Comment", "! c"), ("Type_Declaration_Stmt", "INTEGER :: i")]),
    ("Subroutine_Subprogram", [("Subroutine_Stmt", "SUBROUTINE s"), ("Specification_Part", "INTEGER :: i"), ("Execution_Part", "i = 1"),
                               ("End_Subroutine_Stmt", "END SUBROUTINE s")]),
    ("Module", [("Module_Stmt", "MODULE m"), ("End_Module_Stmt", "END MODULE m")]),
    ("Block_Nonlabel_Do_Construct", [("Nonlabel_Do_Stmt", "DO i = 1, n"), ("Assignment_Stmt", "a = 1"), ("Assignment_Stmt", "a = 1"),
                                     ("End_Do_Stmt", "END DO")]),
    ("Block_Label_Do_Construct", [("Label_Do_Stmt", "DO 10 i = 1, n"), ("Assignment_Stmt", "a = 1"), ("Continue_Stmt", "CONTINUE")]),
    ("If_Construct", [("If_Then_Stmt", "IF (a) THEN"), ("Assignment_Stmt", "b = 1"), ("Else_If_Stmt", "ELSE IF (c) THEN"),
                      ("Assignment_Stmt", "b = 1"), ("Else_Stmt", "ELSE"), ("Assignment_Stmt", "b = 1"), ("End_If_Stmt", "END IF")]),
    ("Where_Construct", [("Where_Construct_Stmt", "WHERE (a > 0)"), ("Assignment_Stmt", "b = 1"), ("Masked_Elsewhere_Stmt", "ELSEWHERE(a < 0)"),
                         ("Assignment_Stmt", "b = 1"), ("Elsewhere_Stmt", "ELSEWHERE"), ("Assignment_Stmt", "b = 2"), ("End_Where_Stmt", "END WHERE")]),
    ("Case_Construct", [("Select_Case_Stmt", "SELECT CASE (k)"), ("Case_Stmt", "CASE (1)"), ("Assignment_Stmt", "b = 1"), ("Case_Stmt", "CASE (1)"),
                        ("Assignment_Stmt", "b = 1"), ("End_Select_Stmt", "END SELECT")]),
    ("Select_Type_Construct", [("Select_Type_Stmt", "SELECT TYPE(x)"), ("Type_Guard_Stmt", "TYPE IS (t)"), ("Assignment_Stmt", "b = 1"),
                               ("Type_Guard_Stmt", "CLASS DEFAULT"), ("Assignment_Stmt", "b = 1"), ("End_Select_Type_Stmt", "END SELECT")]),
    ("Derived_Type_Def", [("Derived_Type_Stmt", "TYPE :: t"), ("Data_Component_Def_Stmt", "INTEGER :: i"), ("Data_Component_Def_Stmt", "INTEGER :: i"),
                          ("End_Type_Stmt", "END TYPE t")]),
    ("Interface_Block", [("Interface_Stmt", "INTERFACE g"), ("Procedure_Stmt", "MODULE PROCEDURE a"), ("Procedure_Stmt", "MODULE PROCEDURE a"),
                         ("End_Interface_Stmt", "END INTERFACE g")]),
    ("Forall_Construct", [("Forall_Construct_Stmt", "FORALL (i = 1 : n)"), ("Assignment_Stmt", "a(i) = 0"), ("End_Forall_Stmt", "END FORALL")]),
    ("Associate_Construct", [("Associate_Stmt", "ASSOCIATE(x => y)"), ("Assignment_Stmt", "x = 1"), ("End_Associate_Stmt", "END ASSOCIATE")]),
    # comments are children like any other: a banner (the same comment line above and below), the same remark twice
    ("Specification_Part", [("Comment", "!-----"), ("Type_Declaration_Stmt", "INTEGER :: i"), ("Comment", "!-----")]),
    ("Execution_Part", [("Comment", "! again"), ("Assignment_Stmt", "x = 1"), ("Comment", "! again")]),
    ("Implicit_Part", [("Comment", "!-----"), ("Comment", "! text"), ("Comment", "!-----")]),
    ("Program", [("Comment", "! same"), ("Comment", "! same")]),
    ("If_Construct", [("If_Then_Stmt", "IF (a) THEN"), ("Comment", "! c"), ("Assignment_Stmt", "b = 1"), ("Comment", "! c"), ("End_If_Stmt", "END IF")]),
    ("Module", [("Module_Stmt", "MODULE m"), ("Comment", "! c"), ("Comment", "! c"), ("End_Module_Stmt", "END MODULE m")]),
]


def block_printer_rule(m, rid):
    r = RuleResult(rid, "the block printers (BlockBase.tofortran and its %d overrides), interpreted on %d blocks whose children are recording "
                        "stubs that compare by value: every child is printed exactly once and in order -- also when two statements of the "
                        "block have the same text" % (6, len(BLOCK_PRINTERS)))
    r.floor = len(BLOCK_PRINTERS) - 2
    world = World(m)
    for cname, kids in BLOCK_PRINTERS:
        key = world.classes.get(cname)
        if key is None:
            r.error("class %s vanished" % cname)
            continue
        r.instances += 1
        content = [BTok(t, c) for c, t in kids]
        st = Inst(world, key, {"content": content, "items": None, "string": None, "parent": None, "item": None})
        world.ev.steps = 0
        try:
            out = st.get(world.ev, "tofortran")()
        except PE.Unsupported as err:
            r.undet("%s: %s" % (cname, err))
            continue
        except PE.PyRaise as err:
            out = "raises %s" % err.exc_type
        got = [ln.strip() for ln in str(out).split("\n")] if isinstance(out, str) else out
        want = [t for c, t in kids]
        ok = got == want
        r.ob(ok, "%s: %d children printed once each" % (cname, len(kids)) if r.obligations % 4 == 0 else None)
        if not ok:
            r.fail("%s|block-printer|%d" % (cname, len(kids)), "%s.tofortran prints %r for the children %r: a statement of the block is dropped, "
                   "repeated or out of order in the regenerated source" % (cname, got, want), m.class_loc(key))
    return r


# ---------------------------------------------------------------------------------------------------------------
# Fortran 2003 3.3.1: adjacent keywords whose separating blank is optional
OPTIONAL_BLANK_PAIRS = [
    ("Block_Data_Stmt", "block data bd", "blockdata bd"),
    ("Intrinsic_Type_Spec", "double precision", "doubleprecision"),
    ("Type_Declaration_Stmt", "double precision x", "doubleprecision x"),
    ("Else_If_Stmt", "else if (a) then", "elseif (a) then"),
    ("Elsewhere_Stmt", "else where", "elsewhere"),
    ("Masked_Elsewhere_Stmt", "else where (m)", "elsewhere (m)"),
    ("End_Associate_Stmt", "end associate", "endassociate"),
    ("End_Block_Data_Stmt", "end block data bd", "endblockdata bd"),
    ("End_Do_Stmt", "end do", "enddo"),
    ("End_Enum_Stmt", "end enum", "endenum"),
    ("Endfile_Stmt", "end file 10", "endfile 10"),
    ("Endfile_Stmt", "end file (unit=10)", "endfile (unit=10)"),
    ("End_Forall_Stmt", "end forall", "endforall"),
    ("End_Function_Stmt", "end function f", "endfunction f"),
    ("End_If_Stmt", "end if", "endif"),
    ("End_Interface_Stmt", "end interface", "endinterface"),
    ("End_Module_Stmt", "end module m", "endmodule m"),
    ("End_Program_Stmt", "end program p", "endprogram p"),
    ("End_Select_Stmt", "end select", "endselect"),
    ("End_Select_Type_Stmt", "end select", "endselect"),
    ("End_Subroutine_Stmt", "end subroutine s", "endsubroutine s"),
    ("End_Type_Stmt", "end type t", "endtype t"),
    ("End_Where_Stmt", "end where", "endwhere"),
    ("Goto_Stmt", "go to 100", "goto 100"),
    ("Computed_Goto_Stmt", "go to (10, 20), k", "goto (10, 20), k"),
    ("Intent_Spec", "in out", "inout"),
    ("Intent_Stmt", "intent(in out) :: a", "intent(inout) :: a"),
    ("Intent_Attr_Spec", "intent(in out)", "intent(inout)"),
    ("Select_Case_Stmt", "select case (k)", "selectcase (k)"),
    ("Select_Type_Stmt", "select type (x)", "selecttype (x)"),
]


def optional_blank_rule(m, rid):
    r = RuleResult(rid, "the adjacent keywords whose separating blank the standard makes optional (3.3.1: BLOCK DATA, DOUBLE PRECISION, ELSE IF, "
                        "END FILE, GO TO, IN OUT, SELECT CASE ...) are accepted with and without the blank and give the same statement "
                        "(%d pairs, matchers interpreted)" % len(OPTIONAL_BLANK_PAIRS))
    r.floor = len(OPTIONAL_BLANK_PAIRS) - 2
    world = World(m)
    for cname, spaced, compact in OPTIONAL_BLANK_PAIRS:
        key = world.classes.get(cname)
        if key is None:
            r.error("class %s vanished" % cname)
            continue
        r.instances += 1
        outs = []
        try:
            for t in (spaced, compact):
                try:
                    outs.append(_once(world, key, t))
                except PE.PyRaise as err:
                    outs.append("raises %s" % err.exc_type)
        except PE.Unsupported as err:
            r.undet("%s|%s: %s" % (cname, spaced, err))
            continue
        ok = all(isinstance(o, str) and not o.startswith("raises ") for o in outs) and squeeze(outs[0]) == squeeze(outs[1])
        r.ob(ok, "%s: %r / %r" % (cname, spaced, compact) if r.obligations % 6 == 0 else None)
        if not ok:
            which = spaced if not isinstance(outs[0], str) or outs[0].startswith("raises ") else compact
            r.fail("%s|optional-blank|%s" % (cname, spaced), "%s: %r and %r are the same statement (the blank is optional), but they give %r and "
                   "%r: the form %r is rejected or parsed differently" % (cname, spaced, compact, outs[0], outs[1], which), m.class_loc(key))
    return r


# ---------------------------------------------------------------------------------------------------------------
# C03: expressions parsed all the way down by interpretation, grouping compared with the standard's precedence table
BIN_LEVELS = [           # tightest first; (operators, associativity)
    (["**"], "right"),
    (["*", "/"], "left"),
    (["+", "-"], "left"),
    (["//"], "left"),
    ([".eq.", "==", "/=", "<", ".ge.", ">="], "none"),
    ([".and."], "left"),
    ([".or."], "left"),
    ([".eqv.", ".neqv."], "left"),
    ([".x."], "left"),
]
NOT_LEVEL = 4.5          # .NOT. sits between the relational operators and .AND.


def _level(op):
    for i, (ops, assoc) in enumerate(BIN_LEVELS):
        if op in ops:
            return i, assoc
    raise KeyError(op)


def grouping(node):
    """fully bracketed rendering of an interpreted expression tree"""
    if isinstance(node, Tok):
        return node.text
    if isinstance(node, Inst):
        items = node.fields.get("items")
        if items is None:
            return str(node.fields.get("string"))
        if node.cls.name == "Parenthesis":
            return "(" + grouping(items[1]) + ")"
        if len(items) == 3 and isinstance(items[1], str):
            return "[%s %s %s]" % (grouping(items[0]), items[1].lower().replace(" ", ""), grouping(items[2]))
        if len(items) == 2 and isinstance(items[0], str) and isinstance(items[1], (Tok, Inst)):
            return "[%s %s]" % (items[0].lower().replace(" ", ""), grouping(items[1]))
        if len(items) >= 1 and isinstance(items[0], str):
            return items[0]
        return str(node.fields.get("string"))
    return str(node)


def expression_cases():
    cases = []
    allops = [(op, i, assoc) for i, (ops, assoc) in enumerate(BIN_LEVELS) for op in ops]
    for o1, l1, a1 in allops:
        for o2, l2, a2 in allops:
            if l1 == l2 and a1 == "none":
                continue                      # a < b < c is not Fortran
            if l1 < l2 or (l1 == l2 and a1 == "left"):
                want = "[[a %s b] %s c]" % (o1, o2)
            else:
                want = "[a %s [b %s c]]" % (o1, o2)
            cases.append(("a %s b %s c" % (o1, o2), want))
    for o, l, a_ in allops:
        # .NOT. binds looser than relational operators, tighter than .AND.
        if l < NOT_LEVEL:
            if l == 4:
                cases.append((".not. a %s b" % o, "[.not. [a %s b]]" % o))
        else:
            cases.append((".not. a %s b" % o, "[[.not. a] %s b]" % o))
            cases.append(("a %s .not. b" % o, "[a %s [.not. b]]" % o))
        # unary minus is an add-operand prefix: tighter than + - // ..., looser than * / **
        if l <= 1:
            cases.append(("-a %s b" % o, "[- [a %s b]]" % o))
        else:
            cases.append(("-a %s b" % o, "[[- a] %s b]" % o))
        # a defined unary operator binds tightest
        cases.append((".u. a %s b" % o, "[[.u. a] %s b]" % o))
    cases += [("(a + b) * c", "[([a + b]) * c]"), ("a * (b + c) ** 2", "[a * [([b + c]) ** 2]]"), ("a ** -b", None),
              ("a + b * c ** d", "[a + [b * [c ** d]]]"), ("a .or. b .and. c == d + e * f ** g", "[a .or. [b .and. [c == [d + [e * [f ** g]]]]]]"),
              ("((a))", "((a))"), ("a - b - c - d", "[[[a - b] - c] - d]"), ("a ** b ** c ** d", "[a ** [b ** [c ** d]]]"),
              # names that end like an exponent letter, operators written without blanks, a literal with an exponent next to them
              ("x2d-1", "[x2d - 1]"), ("n1e+k", "[n1e + k]"), ("a*x2d-1+c", "[[[a * x2d] - 1] + c]"), ("y-u3d+1.0e-3", "[[y - u3d] + 1.0E-3]"),
              ("e1-d2", "[e1 - d2]"), ("a2e*b+c", "[[a2e * b] + c]"), ("a//b+c", "[a // [b + c]]"), ("a // b - c // d", "[[a // [b - c]] // d]"),
              ("x == a // b + c", "[x == [a // [b + c]]]")]
    cases = [c for c in cases if c[1] is not None]
    # the dotted operators written with blanks inside the token (`. not .`, `.and .`): insignificant in fixed source form and
    # accepted by the operator patterns; the grouping is that of the compact spelling
    spaced = []
    for k, (text, want) in enumerate(cases):
        if re.search(r"\.x\. (\w+ )?\.[a-z]+\.", text):
            continue          # (the family of known F13: a defined operator with a dotted operator to its right; one id per compact spelling)
        if re.search(r"\.[a-z]+\.", text):
            form = (r". \1 .", r".\1 .", r". \1.")[k % 3]
            spaced.append((re.sub(r"\.([a-z]+)\.", form, text), want))
    return cases + spaced


def expression_grouping_rule(m, rid):
    cases = expression_cases()
    r = RuleResult(rid, "expressions parsed all the way down by interpretation (Expr and the eleven level classes are engine-based): for every "
                        "pair of binary operators in both orders, for .NOT., unary minus and a defined unary operator against every "
                        "binary operator (%d expressions), the tree groups the operands as the standard's precedence and associativity "
                        "rules require" % len(cases))
    r.floor = len(cases) - 10
    world = World(m)
    world.ev.max_steps = 50000000
    key = world.classes.get("Expr")
    if key is None:
        r.error("class Expr vanished")
        return r
    bad = []
    for text, want in cases:
        r.instances += 1
        world.ev.steps = 0
        try:
            got = grouping(world.full_parse(key, text))
        except PE.Unsupported as err:
            r.undet("%r: %s" % (text, err))
            continue
        except PE.PyRaise as err:
            got = "raises %s" % err.exc_type
        ok = got == want
        r.ob(ok, "%s -> %s" % (text, got) if r.obligations % 40 == 0 else None)
        if not ok:
            bad.append((text, got, want))
    for text, got, want in bad:
        r.fail("Expr|grouping|%s" % text, "the expression `%s` is grouped as %s; the standard requires %s (%d of %d expressions disagree)"
               % (text, got, want, len(bad), len(cases)), m.class_loc(key))
    return r


# ---------------------------------------------------------------------------------------------------------------
# the class-level round trip at full depth: children are parsed and printed by interpretation all the way down
CANONICAL_FULL = {
    # documented canonicalisations: explicit KIND=/LEN=/UNIT= keywords, empty dummy-argument parentheses, commas in FORMAT lists
    ("Kind_Selector", "(8)"): "(kind = 8)",
    ("Char_Selector", "(n+1, kind=ck)"): "(len = n+1, kind = ck)",
    ("Allocate_Stmt", "allocate (real(8) :: a(n, 2*(m+1)), b(0:k), stat=ierr)"): "allocate (real(kind=8) :: a(n, 2*(m+1)), b(0:k), stat=ierr)",
    ("Open_Stmt", "open (10, file='a.txt')"): "open (unit = 10, file='a.txt')",
    ("Connect_Spec", "f(1, 2)"): "unit = f(1, 2)",
    ("Endfile_Stmt", "endfile (10)"): "endfile (unit = 10)",
    ("Format_Stmt", "format (1x, 'a(b)', 3(i2, ','), /, 2pf8.2)"): "format (1x, 'a(b)', 3(i2, ','), /, 2p, f8.2)",
    ("Subroutine_Stmt", "subroutine t() bind(c)"): "subroutine t bind(c)",
}


def full_roundtrip_rule(m, rid, tokens=False, std="f2003", samples=None, floor=280):
    samples = SAMPLES if samples is None else samples
    r = RuleResult(rid, "class-level round trip at full depth (%d samples; the sample is parsed by interpretation all the way down -- own "
                        "matcher, then the registered alternatives, as Base.__new__ does -- and printed by the interpreted printers): the "
                        "printed text parses to an equal tree and prints to itself%s" % (
                            len(samples), "; up to the documented canonicalisations it is the sample token for token" if tokens else ""))
    r.floor = floor
    world = World(m, std)
    world.ev.max_steps = 50000000
    for cname, text in samples:
        key = world.classes.get(cname)
        if key is None:
            r.error("class %s vanished" % cname)
            continue
        r.instances += 1
        ident = "%s|%s" % (cname, text)
        world.ev.steps = 0
        try:
            n1 = world.full_parse(key, text)
            t1 = str(n1)
        except PE.Unsupported as err:
            r.undet("%s: %s" % (ident, err))
            continue
        except PE.PyRaise as err:
            r.ob(False)
            r.fail("%s|full|rejected" % ident, "%s: the valid text %r is not accepted (%s) when parsed all the way down" % (cname, text, err.exc_type),
                   m.class_loc(key))
            continue
        if tokens:
            def norm(t):
                return squeeze(t).replace("::", "")
            want = CANONICAL_FULL.get((cname, text), text)
            if norm(t1) not in (norm(want), norm(text)):
                r.ob(False)
                r.fail("%s|full|tokens" % ident, "%s: %r is regenerated as %r; apart from blanks, case and '::' it should read %r: a token is "
                       "dropped, invented or moved" % (cname, text, t1, want), m.class_loc(key))
                continue
        try:
            world.ev.steps = 0
            n2 = world.full_parse(key, t1)
            t2 = str(n2)
        except PE.Unsupported as err:
            r.undet("%s (second pass): %s" % (ident, err))
            continue
        except PE.PyRaise as err:
            r.ob(False)
            r.fail("%s|full|not-accepted-again" % ident, "%s: %r is regenerated as %r, which is not accepted again (%s)" % (cname, text, t1, err.exc_type),
                   m.class_loc(key))
            continue
        ok = t2 == t1 and (tokens or n1 == n2)
        r.ob(ok, "%s: %r -> %r" % (cname, text, t1) if r.obligations % 30 == 0 else None)
        if t2 != t1:
            r.fail("%s|full|fixpoint" % ident, "%s: %r is regenerated as %r, which regenerates as %r" % (cname, text, t1, t2), m.class_loc(key))
        elif not tokens and n1 != n2:
            r.fail("%s|full|tree" % ident, "%s: %r is regenerated as %r, whose parse tree differs from the tree of the source (same text, "
                   "different structure)" % (cname, text, t1), m.class_loc(key))
    return r


# ---------------------------------------------------------------------------------------------------------------
# C14: match_cpp_directive interpreted on a model reader, one directive line at a time
class _ReaderModel:
    """marker types for isinstance tests in interpreted reader-level code"""


class _CppItemModel:
    pass


def cpp_dispatch_rule(m, rid):
    import json
    import os
    CPP = "fparser.two.C99Preprocessor"
    r = RuleResult(rid, "match_cpp_directive, interpreted on a model reader holding one directive item: every directive sample of the oracle "
                        "is turned into a node of its class (whatever way the function selects the classes to try), and the item is handed "
                        "back before the classes are tried")
    kinds = json.load(open(os.path.join(os.path.dirname(os.path.dirname(os.path.abspath(__file__))), "oracle", "cpp.json")))["kinds"]
    r.floor = sum(len(k["samples"]) for k in kinds) - 3
    f = m.module_func(CPP, "match_cpp_directive")
    if f is None:
        r.error("match_cpp_directive vanished")
        return r
    world = World(m)
    world.ev.max_steps = 20000000
    g = world.ev.g
    for name, val in PE.module_regexes(m, CPP).items():
        g.setdefault(name, val)
    cpp_classes = {c["name"]: k for k, c in m.classes.items() if c["module"] == CPP}
    for name, k in cpp_classes.items():
        world.classes.setdefault(name, k)

    class ReaderClassRef(ClassRef):
        """Cls(reader): what Base.__new__ does with a reader -- take the item, match its line, give the item back on failure"""

        def __call__(self, arg, *a, **k):
            if isinstance(arg, _RM):
                item = arg.get(world.ev, "get_item")()
                if item is None:
                    return None
                try:
                    node = world.full_parse(self.key, item.get(world.ev, "line"))
                except PE.PyRaise as err:
                    if err.exc_type != "NoMatchError":
                        raise
                    arg.get(world.ev, "put_item")(item)
                    return None
                return node
            return ClassRef.__call__(self, arg, *a, **k)

    class _RM(PE.Obj, _ReaderModel):
        pass

    class _IM(PE.Obj, _CppItemModel):
        pass
    module_ns = PE.Obj({name: ReaderClassRef(world, k) for name, k in cpp_classes.items()})
    for name, k in cpp_classes.items():
        g[name] = module_ns.fields[name]
    g["FortranReaderBase"] = _ReaderModel
    g["CppDirective"] = _CppItemModel
    g["sys"] = PE.Obj({"modules": {CPP: module_ns}})
    g["__name__"] = CPP
    base_isinstance = g["isinstance"]
    g["isinstance"] = lambda o, c: (isinstance(o, c) if isinstance(c, type) else base_isinstance(o, c))
    names = m.snap.get("cpp_class_names")
    if names:
        g["CPP_CLASS_NAMES"] = list(names)
    # other module-level tables of the module (a dispatch dictionary, say), interpreted in source order
    for node in m.files[m.modfile[CPP]][1].body:
        if isinstance(node, ast.Assign) and len(node.targets) == 1 and isinstance(node.targets[0], ast.Name) and node.targets[0].id not in g:
            try:
                g[node.targets[0].id] = world.ev.ev(node.value, {})
            except (PE.Unsupported, PE.PyRaise):
                pass
    for kind in kinds:
        for sample in kind["samples"]:
            r.instances += 1
            queue = [_IM({"line": sample.strip()})]
            log = []

            def get_item():
                log.append("get")
                return queue.pop(0) if queue else None

            def put_item(it):
                log.append("put")
                queue.insert(0, it)
            reader = _RM({"get_item": get_item, "put_item": put_item})
            world.ev.steps = 0
            try:
                node = world.ev.run_function(f.node, [reader])
            except PE.Unsupported as err:
                r.undet("%r: %s" % (sample, err))
                continue
            except PE.PyRaise as err:
                node = "raises %s" % err.exc_type
            got = node.cls.name if isinstance(node, Inst) else node
            ok = got == kind["cls"]
            r.ob(ok, "%r -> %s" % (sample, got) if r.obligations % 8 == 0 else None)
            if not ok:
                r.fail("match_cpp_directive|%s|%s" % (kind["kind"], sample), "match_cpp_directive gives %s for the directive line %r; a %s node is "
                       "expected: the line is not kept as a directive node (it is then parsed as Fortran, or the parse fails)"
                       % (got, sample, kind["cls"]), m.loc(f))
    return r
