"""The symbol-table module (fparser.two.symbol_table) decided by interpretation against a reference model.

`SymbolTables`, `SymbolTable` and `ModuleUse` are interpreted from their ASTs (never imported, never run) on sequences of the calls
the parser makes -- enter_scope / add_use_symbols / add_data_symbol / exit_scope / remove -- that this module generates from small
scoping structures (program units with contained subprograms and BLOCKs, declarations, USE statements with and without ONLY lists
and renames, names in mixed case).  A 40-line reference model of Fortran scoping says what has to be there afterwards: which tables
exist and how they nest, which names a look-up from each scope finds (own declarations, names brought in by its USE statements, then
the enclosing scopes -- never a sibling's or an inner scope's), with which type (the nearest declaration wins), which wildcard imports
are visible, and that removing the table of a unit that failed to match removes that unit and nothing else.
"""
import random

from sa import pureeval as PE
from sa.report import RuleResult
from rules import reader_interp as RI

ST = "fparser.two.symbol_table"


class Scope:
    def __init__(self, name, parent=None):
        self.name, self.parent = name, parent
        self.decls = {}          # lower name -> type
        self.uses = {}           # module -> None (wildcard) | set of local names ; renames add local names too
        self.wild = set()
        self.children = []

    def visible(self, name):
        """(found, type or 'unknown') for a look-up of `name` from this scope"""
        n = name.lower()
        s = self
        while s is not None:
            if n in s.decls:
                return True, s.decls[n]
            for mod, names in s.uses.items():
                if n in names:
                    return True, "unknown"
            s = s.parent
        return False, None

    def wildcards(self):
        out = set()
        s = self
        while s is not None:
            out |= s.wild
            s = s.parent
        return sorted(out)


NAMES = ["Alpha", "beta", "GAMMA", "sin", "Cos", "idx", "Tmp", "n"]
TYPES = ["INTEGER", "real", "Logical", "character(len=3)"]
MODS = ["Mod_A", "mod_b", "MODC"]
PROBES = ["alpha", "ALPHA", "Beta", "gamma", "SIN", "cos", "Idx", "tmp", "N", "other", "loc1", "LOC2"]


def gen_structure(rng, depth=0, counter=None):
    """a list of operations (op, args...) for one program unit with nested scopes, plus nothing else"""
    counter = counter if counter is not None else [0]
    counter[0] += 1
    name = rng.choice(["Unit", "sub", "FUNC", "Blk", "inner"]) + "_%d" % counter[0]
    ops = [("enter", name)]
    for _ in range(rng.randint(0, 2)):
        mod = rng.choice(MODS)
        kind = rng.random()
        if kind < 0.35:
            ops.append(("use", mod, None, None))
        elif kind < 0.75:
            only = [(rng.choice(["loc1", "Loc2", "SIN", "tmp"]), None) for _ in range(rng.randint(0, 2))]
            if rng.random() < 0.4:
                only.append(("LOC2", "orig"))
            ops.append(("use", mod, only, None))
        else:
            ops.append(("use", mod, None, [(rng.choice(["loc1", "Cos"]), "orig2")]))
    for _ in range(rng.randint(0, 3)):
        ops.append(("decl", rng.choice(NAMES), rng.choice(TYPES)))
    if depth < 2:
        for _ in range(rng.randint(0, 2)):
            ops += gen_structure(rng, depth + 1, counter)
            if rng.random() < 0.3:
                ops.append(("decl", rng.choice(NAMES), rng.choice(TYPES)))     # a declaration after a contained scope was left
    ops.append(("exit", name))
    return ops


class Model:
    def __init__(self):
        self.top = {}            # lower name -> Scope
        self.cur = None

    def apply(self, op):
        if op[0] == "enter":
            n = op[1].lower()
            if self.cur is None:
                sc = self.top.get(n)
                if sc is None:
                    sc = self.top[n] = Scope(n)
            else:
                sc = Scope(n, self.cur)
                self.cur.children.append(sc)
            self.cur = sc
        elif op[0] == "exit":
            self.cur = self.cur.parent
        elif op[0] == "decl":
            self.cur.decls[op[1].lower()] = op[2].lower()
        elif op[0] == "use":
            mod = op[1].lower()
            names = self.cur.uses.setdefault(mod, set())
            if op[2] is None:
                self.cur.wild.add(mod)
            else:
                names |= {a.lower() for a, _ in op[2]}
            if op[3]:
                names |= {a.lower() for a, _ in op[3]}
        elif op[0] == "remove":
            n = op[1].lower()
            if self.cur is not None and any(c.name == n for c in self.cur.children):
                self.cur.children.remove(next(c for c in self.cur.children if c.name == n))
            else:
                del self.top[n]


def shape(sc):
    return (sc.name, [shape(c) for c in sc.children])


def run_rule(m, rid, tier):
    r = RuleResult(rid, "the symbol tables by interpretation against a reference model of Fortran scoping: SymbolTables / SymbolTable / "
                        "ModuleUse are interpreted on generated sequences of the parser's calls (enter_scope, add_use_symbols with ONLY "
                        "lists and renames, add_data_symbol, exit_scope, remove; names in mixed case); afterwards the tables nest as "
                        "the scopes do, a look-up from every scope finds exactly the names declared or used there or in an enclosing "
                        "scope (never a sibling's or an inner scope's) with the type of the nearest declaration, the visible wildcard "
                        "imports are those of the scope and its ancestors, and removing a failed unit removes that unit only")
    r.floor = 20
    if ST not in m.modfile:
        r.error("module %s vanished" % ST)
        return r
    import collections
    n_seq = 30 if tier == "quick" else 150
    failed = set()

    def fail(key, text, ops):
        if key in failed:
            return
        failed.add(key)
        f = m.funcs.get((m.modfile[ST], "SymbolTable.lookup"))
        r.fail("symbol-tables|%s" % key, "symbol tables, interpreted on the call sequence %s: %s" % (ops_text(ops), text), m.loc(f) if f else None)

    def ops_text(ops):
        return "; ".join("%s(%s)" % (o[0], ", ".join(repr(a) for a in o[1:] if a is not None)) for o in ops[:14]) + (" ..." if len(ops) > 14 else "")

    try:
        w = RI.World(m, mods=(ST,))
    except PE.Unsupported as err:
        r.error("the symbol-table module cannot be interpreted statically (%s)" % err)
        return r
    g = w.ev.g
    g["namedtuple"] = collections.namedtuple
    g["Base"] = type("Base", (), {})
    g["Submodule_Stmt"] = type("Submodule_Stmt", (), {})
    g["SymbolTableError"] = "SymbolTableError"
    ev = w.ev
    for seq in range(n_seq):
        rng = random.Random("symtab|%d" % seq)
        counter = [0]
        ops = []
        for _ in range(rng.randint(1, 3)):
            unit = gen_structure(rng, 0, counter)
            ops += unit
            if rng.random() < 0.25:
                # the unit just read is rejected after all: its table is removed (what the block engine does on a failed match)
                ops.append(("remove", unit[0][1]))
        # a nested unit that fails: entered inside a scope, left, removed while the enclosing scope is still current
        if rng.random() < 0.5:
            outer = gen_structure(rng, 1, counter)
            inner = gen_structure(rng, 2, counter)
            if rng.random() < 0.5:
                # a top-level unit of the same name read earlier must survive the removal of the nested one
                ops = [("enter", inner[0][1].upper()), ("decl", "keepme", "integer"), ("exit", inner[0][1])] + ops
            ops += outer[:-1] + inner + [("remove", inner[0][1])] + [outer[-1]]
        model = Model()
        w.ev.steps = 0
        r.instances += 1
        ok = True
        try:
            tables = w.cls("SymbolTables")()
            for k, op in enumerate(ops):
                model.apply(op)
                if op[0] == "enter":
                    tables.get(ev, "enter_scope")(op[1])
                elif op[0] == "exit":
                    tables.get(ev, "exit_scope")()
                elif op[0] == "decl":
                    tables.get(ev, "current_scope").get(ev, "add_data_symbol")(op[1], op[2])
                elif op[0] == "use":
                    tables.get(ev, "current_scope").get(ev, "add_use_symbols")(op[1], op[2], op[3])
                elif op[0] == "remove":
                    tables.get(ev, "remove")(op[1])
                cur = tables.get(ev, "current_scope")
                cur_name = cur.get(ev, "name") if cur is not None else None
                want = model.cur.name if model.cur is not None else None
                if cur_name != want:
                    ok = False
                    fail("current-scope", "after call %d (%s) the current scope is %r, the scoping structure says %r" % (k + 1, op[0], cur_name, want), ops)
                    break
            if not ok:
                r.ob(False)
                continue
            # structure
            top = tables.fields.get("_symbol_tables")

            def tshape(t):
                return (t.get(ev, "name"), [tshape(c) for c in t.get(ev, "children")])
            got_shape = sorted(tshape(t) for t in top.values())
            want_shape = sorted(shape(s) for s in model.top.values())
            if got_shape != want_shape or sorted(top.keys()) != sorted(model.top.keys()):
                ok = False
                fail("structure", "the tables are %r; the scoping units are %r" % (got_shape, want_shape), ops)
            # look-ups from every scope
            def walk(t, sc):
                yield t, sc
                kids = t.get(ev, "children")
                for c, csc in zip(kids, sc.children):
                    for x in walk(c, csc):
                        yield x
            if ok:
                for name in sorted(model.top):
                    for t, sc in walk(top[name], model.top[name]):
                        for probe in PROBES:
                            want_found, want_type = sc.visible(probe)
                            try:
                                sym = t.get(ev, "lookup")(probe)
                                found, typ = True, sym.primitive_type
                                sname = sym.name
                            except PE.PyRaise as err:
                                if err.exc_type != "KeyError":
                                    raise
                                found, typ, sname = False, None, None
                            if found != want_found:
                                ok = False
                                fail("visibility|%s" % ("found" if found else "missing"), "a look-up of %r from scope %r %s; by the scoping "
                                     "rules it is %s there" % (probe, sc.name, "finds %r" % (sname,) if found else "finds nothing",
                                                               "visible" if want_found else "not visible (declared only in a sibling or inner scope, or nowhere)"), ops)
                            elif found and (typ != want_type or sname != probe.lower()):
                                ok = False
                                fail("symbol", "a look-up of %r from scope %r gives (%r, %r); the nearest declaration says (%r, %r)"
                                     % (probe, sc.name, sname, typ, probe.lower(), want_type), ops)
                        wi = t.get(ev, "wildcard_imports")
                        if list(wi) != sc.wildcards():
                            ok = False
                            fail("wildcards", "scope %r reports the wildcard imports %r; its USE statements and those of its ancestors give %r"
                                 % (sc.name, list(wi), sc.wildcards()), ops)
                        res = t.get(ev, "all_symbols_resolved")
                        if bool(res) != (not sc.wildcards()):
                            ok = False
                            fail("resolved", "scope %r: all_symbols_resolved is %r with wildcard imports %r" % (sc.name, res, sc.wildcards()), ops)
        except PE.Unsupported as err:
            r.error("the symbol-table module cannot be interpreted statically (%s)" % err)
            return r
        except PE.PyRaise as err:
            ok = False
            fail("raises|%s" % err.exc_type, "raises %s" % err, ops)
        r.ob(ok, "%d calls, %d top-level tables: as the scoping structure" % (len(ops), len(model.top)) if r.obligations % 10 == 0 else None)
    return r
