"""Per-call-site specialisation of the generic block engine BlockBase.match (specialise-and-check).

Serves C08.R3 (END required, names compared), C09.R1/C16.R2 (scope pairing on all exits), C11.R1 (comment /
include / directive classes always tried), C11.R2(ii) (consumed => kept or restored) and C06.R5 (engine-flag
protocol).  Each analysis is one run of sa.flow over BlockBase.match with the call site's constants bound.
"""
import ast

from sa import astutil as A
from sa import flow as F
from sa import tables
from sa.callgraph import CallGraph, MayRaise
from sa.model import AnalysisError
from sa.report import RuleResult

UTILS = "fparser.two.utils"
NAME_DOMAIN = frozenset([("c", None), ("c", "a"), ("c", "A"), ("c", "b")])


_REPO_EXC = {}


def repo_exceptions(m):
    """names of the exception classes the parser package defines itself"""
    if id(m) not in _REPO_EXC:
        two = {c["name"] for c in m.classes.values() if c["module"].startswith("fparser.two")}
        _REPO_EXC[id(m)] = {n for n in m.exceptions if m.is_exc_sub(n, "Exception") and n in two}
    return _REPO_EXC[id(m)]


def signal_classes(m):
    """Exception classes that the API boundary Program.__new__ converts, plus FortranSyntaxError itself."""
    f = m.need_func("fparser.two.Fortran2003", "Program.__new__")
    out = set()
    for n in A.body_nodes(f.node):
        if isinstance(n, ast.Try):
            for h in n.handlers:
                raises_fse = any(isinstance(x, ast.Raise) and x.exc is not None
                                 and (A.dotted(x.exc.func if isinstance(x.exc, ast.Call) else x.exc) or "").endswith("FortranSyntaxError")
                                 for x in ast.walk(h))
                if raises_fse and h.type is not None:
                    els = h.type.elts if isinstance(h.type, ast.Tuple) else [h.type]
                    for e in els:
                        d = A.dotted(e)
                        if d:
                            out.add(d.split(".")[-1])
    if not out:
        raise AnalysisError("Program.__new__ converts no exception into FortranSyntaxError (anchor changed)")
    out.add("FortranSyntaxError")
    return out


# ---------------------------------------------------------------------------------------------
# Role discovery: the analyses below speak about `content`, `obj`, `found_end`, ... -- the variables of today's
# BlockBase.match.  So that a rename of a local is not mistaken for a change of behaviour, the roles are discovered from
# how the variables are USED, and the function is analysed on a copy in which they carry the canonical names.
# ---------------------------------------------------------------------------------------------
def discover_roles(f):
    """canonical role -> actual local name, from usage."""
    import copy
    roles = {}
    params = set(A.param_names(f.node))
    body = list(A.body_nodes(f.node))
    # content: the list returned in a 1-tuple
    for n in body:
        if isinstance(n, ast.Return) and isinstance(n.value, ast.Tuple) and len(n.value.elts) == 1 and isinstance(n.value.elts[0], ast.Name):
            roles["content"] = n.value.elts[0].id
    # cls = classes[i] ; obj = cls(reader)
    for n in body:
        if isinstance(n, ast.Assign) and len(n.targets) == 1 and isinstance(n.targets[0], ast.Name) and isinstance(n.value, ast.Subscript) \
                and isinstance(n.value.value, ast.Name) and isinstance(n.value.slice, ast.Name):
            c = n.targets[0].id
            for x in body:
                if isinstance(x, ast.Assign) and isinstance(x.targets[0], ast.Name) and isinstance(x.value, ast.Call) \
                        and isinstance(x.value.func, ast.Name) and x.value.func.id == c:
                    roles.setdefault("cls", c)
                    roles.setdefault("classes", n.value.value.id)
                    roles.setdefault("i", n.value.slice.id)
                    roles.setdefault("obj", x.targets[0].id)
    content = roles.get("content")
    # obj (generic): what is appended to content and was obtained from a call with the reader
    if "obj" not in roles and content:
        for n in body:
            if isinstance(n, ast.Call) and isinstance(n.func, ast.Attribute) and n.func.attr == "append" and A.text(n.func.value) == content \
                    and n.args and isinstance(n.args[0], ast.Name):
                roles["obj"] = n.args[0].id
    # found_end / had_match: booleans set True inside the matching loop
    for lp in body:
        if isinstance(lp, ast.While):
            for blk in ast.walk(lp):
                stmts = getattr(blk, "body", None)
                for lst in (getattr(blk, "body", None), getattr(blk, "orelse", None)):
                    if not isinstance(lst, list):
                        continue
                    for i, st in enumerate(lst):
                        if isinstance(st, ast.Assign) and isinstance(st.targets[0], ast.Name) and isinstance(st.value, ast.Constant) and st.value.value is True:
                            nxt = lst[i + 1] if i + 1 < len(lst) else None
                            if isinstance(nxt, ast.Break):
                                roles.setdefault("found_end", st.targets[0].id)
                            elif st.targets[0].id not in params:
                                roles.setdefault("had_match", st.targets[0].id)
    # table_name: what is passed to SYMBOL_TABLES.remove / assigned from get_scope_name()
    for n in body:
        if isinstance(n, ast.Call) and (A.dotted(n.func) or "").endswith("SYMBOL_TABLES.remove") and n.args and isinstance(n.args[0], ast.Name):
            roles.setdefault("table_name", n.args[0].id)
    # start_name / end_name
    for n in body:
        if isinstance(n, ast.Assign):
            tg = n.targets[0]
            pairs = []
            if isinstance(tg, ast.Name):
                pairs = [(tg, n.value)]
            elif isinstance(tg, ast.Tuple) and isinstance(n.value, ast.Tuple) and len(tg.elts) == len(n.value.elts):
                pairs = list(zip(tg.elts, n.value.elts))
            for t, v in pairs:
                if isinstance(t, ast.Name) and isinstance(v, ast.Call) and isinstance(v.func, ast.Attribute):
                    if v.func.attr == "get_start_name":
                        roles.setdefault("start_name", t.id)
                    if v.func.attr == "get_end_name":
                        roles.setdefault("end_name", t.id)
                    if v.func.attr == "get_start_label":
                        roles.setdefault("start_label", t.id)
    # endcls_all: second argument of the isinstance guarding found_end = True
    fe = roles.get("found_end")
    if fe:
        P = A.parents(f.node)
        for n in body:
            if isinstance(n, ast.Assign) and isinstance(n.targets[0], ast.Name) and n.targets[0].id == fe and isinstance(n.value, ast.Constant) and n.value.value is True:
                x = n
                while x in P and not (isinstance(P[x], ast.If) and any(isinstance(c, ast.Call) and A.dotted(c.func) == "isinstance" for c in ast.walk(P[x].test))):
                    x = P[x]
                iff = P.get(x)
                if isinstance(iff, ast.If):
                    for c in ast.walk(iff.test):
                        if isinstance(c, ast.Call) and A.dotted(c.func) == "isinstance" and len(c.args) == 2 and isinstance(c.args[1], ast.Name):
                            roles.setdefault("endcls_all", c.args[1].id)
    # comments: the local list added to the subclasses to form the class list
    cl = roles.get("classes")
    if cl:
        for n in body:
            if isinstance(n, ast.Assign) and isinstance(n.targets[0], ast.Name) and n.targets[0].id == cl and isinstance(n.value, ast.BinOp):
                for nm in A.names_in(n.value):
                    if nm not in params:
                        roles.setdefault("comments", nm)
    # start_idx: assigned len(content)
    if content:
        for n in body:
            if isinstance(n, ast.Assign) and isinstance(n.targets[0], ast.Name) and isinstance(n.value, ast.Call) and A.dotted(n.value.func) == "len" \
                    and n.value.args and A.text(n.value.args[0]) == content:
                roles.setdefault("start_idx", n.targets[0].id)
    return roles


def canonical(finfo, need=()):
    """A FuncInfo whose AST is a copy of finfo's with the discovered role variables renamed to their canonical names.
    Raises AnalysisError when a needed role cannot be discovered."""
    import copy
    from sa.model import FuncInfo
    roles = discover_roles(finfo)
    missing = [r for r in need if r not in roles]
    if missing:
        raise AnalysisError("%s: cannot identify the variable(s) playing the role %s (the function changed shape)" % (finfo.qualname, missing))
    ren = {actual: role for role, actual in roles.items() if actual != role}
    if not ren:
        return finfo
    # a canonical name must not already be used for something else
    used = {n.id for n in ast.walk(finfo.node) if isinstance(n, ast.Name)}
    clash = [role for actual, role in ren.items() if role in used and role not in ren]
    if clash:
        raise AnalysisError("%s: cannot canonicalise variable names (%s already used for something else)" % (finfo.qualname, clash))
    node = copy.deepcopy(finfo.node)
    for n in ast.walk(node):
        if isinstance(n, ast.Name) and n.id in ren:
            n.id = ren[n.id]
    return FuncInfo(finfo.file, finfo.qualname, node, finfo.cls_node, finfo.module)


ENGINE_ROLES = ("content", "obj", "cls", "classes", "found_end", "had_match", "table_name", "start_name", "end_name",
                "endcls_all", "comments", "start_idx")


class Ctx:
    """Shared, expensive-to-build context."""

    def __init__(self, m):
        self.m = m
        self.cg = CallGraph(m)
        self.signals = signal_classes(m)
        self.mr = MayRaise(m, self.cg, class_call=self.signals)
        raw = m.method(m.key("BlockBase", UTILS), "match")
        if raw is None:
            raise AnalysisError("anchor vanished: BlockBase.match")
        self.engine_raw = raw
        self.engine = canonical(raw, need=ENGINE_ROLES)
        # the call graph keys class ownership by FuncInfo identity
        if self.engine is not raw:
            self.cg.func_class[id(self.engine)] = self.cg.func_class.get(id(raw))
        self.base = m.key("Base", UTILS)
        self.scoping = m.key("ScopingRegionMixin", UTILS)
        di = m.snap["di"]
        self.always = {}
        for n in ("Comment", "Include_Stmt", "Directive"):
            if n not in di:
                raise AnalysisError("DynamicImport.%s vanished" % n)
            self.always[n] = di[n]["key"]
        self.cpp = [m.key(n, "fparser.two.C99Preprocessor") for n in m.snap["cpp_class_names"]
                    if m.has_class(n, "fparser.two.C99Preprocessor")]


def track_flags(client, inst):
    """Every scalar parameter the call site binds (or leaves at its default) is tracked: a flag the engine grows later is then a known
    constant per instance instead of an unknown that would open infeasible paths."""
    if inst is not None and inst.args:
        client.track = set(client.track) | {p for p, v in inst.args.items() if v.kind in ("const", "none")}


def inst_env(ctx, inst):
    """Initial abstract environment of BlockBase.match for one call-site instance."""
    m = ctx.m
    env = {}
    for p, v in inst.args.items():
        if v.kind == "class":
            env[p] = F.cls_val(v.v)
        elif v.kind == "none":
            env[p] = F.NONE
        elif v.kind == "const":
            env[p] = F.const(v.v)
        elif v.kind in ("tuple", "list") and all(e.kind == "class" for e in v.v):
            if p == "match_name_classes":
                env[p] = frozenset([("clsset", frozenset(e.v for e in v.v))])
            # subclasses list: not needed as a value
    if "match_name_classes" in inst.args and inst.args["match_name_classes"].kind == "class":
        env["match_name_classes"] = frozenset([("clsset", frozenset([inst.args["match_name_classes"].v]))])
    return env


def obj_universe(ctx, inst):
    """Classes an object obtained from the class list of this instance can be."""
    m = ctx.m
    keys = set()
    sub = inst.args.get("subclasses")
    if sub is not None and sub.kind in ("list", "tuple"):
        for e in sub.v:
            if e.kind == "class":
                keys |= m.closure_all(e.v)
    for k in ctx.always.values():
        keys |= m.closure_all(k)
    keys |= set(ctx.cpp)
    end = inst.args.get("endcls")
    if end is not None and end.kind == "class":
        keys |= m.closure_all(end.v)
    return keys


def end_all(ctx, inst):
    m = ctx.m
    end = inst.args.get("endcls")
    if end is None or end.kind != "class":
        return frozenset()
    name = end.v.split(":")[1]
    keys = {end.v}
    for std in ("f2003", "f2008"):
        keys |= set(m.alternatives(std, name))
    return frozenset(keys)


class BlockClient(F.Client):
    """Abstract semantics of the calls made by BlockBase.match / the other reader-level matchers."""

    def __init__(self, ctx, finfo, inst=None, track=None, names=False):
        self.ctx = ctx
        self.m = ctx.m
        self.f = finfo
        self.inst = inst
        self.track = track
        self.names = names
        self.findings = []      # (key, message, node)
        self.universe = frozenset(obj_universe(ctx, inst)) if inst is not None else frozenset()
        self.end_all = end_all(ctx, inst) if inst is not None else frozenset()
        self.attr_vars = {"reader.process_directives": "@process_directives"}
        self.proto_checked = 0

    # -- helpers ---------------------------------------------------------
    def recv_value(self, node, st):
        """Abstract value of a method-call receiver."""
        if isinstance(node, ast.Name):
            return st.get(node.id)
        t = A.text(node)
        if t == "content[start_idx]" and self.inst is not None:
            s = self.inst.args.get("startcls")
            if s is not None and s.kind == "class":
                return F.inst_val(self.m.closure_all(s.v))
        if t == "content[-1]":
            return st.get("obj")
        return F.TOP

    def class_call_value(self, callee_val):
        keys = set()
        unknown = False
        for a in callee_val:
            if a[0] == "cls":
                keys |= self.m.closure_all(a[1])
            else:
                unknown = True
        if unknown:
            keys |= set(self.universe)
            if not self.universe:
                # no per-instance universe (a matcher other than the block engine): some object, or None
                return frozenset(F.inst_val(keys, or_none=True) | F.TRUTHY)
        return F.inst_val(keys, or_none=True)

    def clslist(self, node, st):
        """Set of class keys denoted by a list/tuple-of-classes expression, or None."""
        if isinstance(node, (ast.List, ast.Tuple)):
            out = set()
            for e in node.elts:
                r = self.clslist(e, st)
                if r is None:
                    return None
                out |= r
            return out
        if isinstance(node, ast.BinOp) and isinstance(node.op, ast.Add):
            a, b = self.clslist(node.left, st), self.clslist(node.right, st)
            if a is None or b is None:
                return None
            return a | b
        if isinstance(node, ast.Call) and A.dotted(node.func) in ("tuple", "list") and len(node.args) == 1:
            return self.clslist(node.args[0], st)
        if isinstance(node, ast.Name):
            v = st.get(node.id)
            if v and all(a[0] == "cls" for a in v):
                return {a[1] for a in v}
            if v and all(a[0] == "clsset" for a in v):
                out = set()
                for a in v:
                    out |= set(a[1])
                return out
            return None
        if isinstance(node, ast.Subscript) and isinstance(node.value, ast.Attribute) and node.value.attr == "subclasses":
            # X.subclasses[X.__name__]: the registered alternatives of X (either standard)
            base = self.clslist(node.value.value, st) if isinstance(node.value.value, ast.Name) else None
            idx = node.slice
            if base and isinstance(idx, ast.Attribute) and idx.attr == "__name__" and A.text(idx.value) == A.text(node.value.value):
                out = set()
                for k in base:
                    nm = k.split(":")[1]
                    for std in ("f2003", "f2008"):
                        out |= set(self.m.alternatives(std, nm))
                return out
            return None
        d = A.dotted(node)
        if d and d.split(".")[0] in ("di", "DynamicImport") and len(d.split(".")) == 2:
            ent = self.m.snap["di"].get(d.split(".")[1])
            if ent and ent["kind"] == "class":
                return {ent["key"]}
        return None

    def expr_value(self, node, st):
        if isinstance(node, ast.Call) and A.dotted(node.func) == "tuple":
            r = self.clslist(node, st)
            if r is not None:
                return frozenset([("clsset", frozenset(r))])
        return None

    # -- Client interface --------------------------------------------------
    def call_value(self, call, st):
        fn = call.func
        if isinstance(fn, ast.Name):
            v = st.get(fn.id)
            if any(a[0] == "cls" for a in v):
                return self.class_call_value(v)
            if fn.id in ("cls",) and v == F.TOP:
                return self.class_call_value(v)
            k = self.m.class_of_name(self.f, fn.id)
            if k and self.m.issub(k, self.ctx.base) and fn.id not in self.ctx.cg.locals_of(self.f):
                return F.inst_val(self.m.closure_all(k), or_none=True)
        if isinstance(fn, ast.Attribute):
            if fn.attr == "get_scope_name":
                return F.TRUTHY
            if fn.attr in ("get_start_name", "get_end_name") and self.names:
                return NAME_DOMAIN
            if fn.attr in ("lower", "upper") and not call.args:
                v = self._eval_attr_recv(fn.value, st)
                if v and all(a[0] == "c" and isinstance(a[1], str) for a in v):
                    return frozenset(("c", getattr(a[1], fn.attr)()) for a in v)
        return F.TOP

    def _eval_attr_recv(self, node, st):
        if isinstance(node, ast.Name):
            return st.get(node.id)
        return None

    def call_raises(self, call, st):
        fn = call.func
        if isinstance(fn, ast.Name):
            v = st.env.get(fn.id)
            if v is not None and any(a[0] == "cls" for a in v):
                return set(self.ctx.signals)
        return self.ctx.mr.of_call(self.f, call) & self.ctx.signals

    def call_effect(self, call, st):
        fn = call.func
        # protocol check: a method called on a receiver whose classes are known must exist on all of them
        if isinstance(fn, ast.Attribute) and fn.attr.startswith("get_"):
            v = self.recv_value(fn.value, st)
            insts = [a[1] for a in v if a[0] == "inst"]
            if insts and not any(a[0] in ("top", "truthy") for a in v):
                self.proto_checked += 1
                missing = sorted(k.split(":")[1] for k in insts if not self.m.has_attr(k, fn.attr))
                if missing:
                    self.findings.append(("proto|%s|%s" % (fn.attr, ",".join(missing[:4])),
                                          "%s() is called on an object that can be a %s, which has no such method "
                                          "(AttributeError at run time)" % (fn.attr, "/".join(missing[:4])), call))
                if any(a == ("c", None) for a in v):
                    self.findings.append(("proto-none|%s" % fn.attr,
                                          "%s() is called on a value that can be None" % fn.attr, call))
        return (self.list_effect(call, st),)

    def list_effect(self, call, st):
        """Emptiness of tracked list variables: X.append(..) makes X non-empty; passing X to a call may fill it."""
        fn = call.func
        if isinstance(fn, ast.Attribute) and isinstance(fn.value, ast.Name) and fn.value.id == "content" \
                and (self.track is None or "content" in self.track) \
                and fn.attr in ("append", "insert", "appendleft"):
            return st.set("content", F.TRUTHY)
        for a in call.args:
            if isinstance(a, ast.Name) and st.env.get(a.id) == F.FALSY:
                st = st.set(a.id, F.TOP)
        return st


# ---------------------------------------------------------------------------------------------
# A1: scope typestate
# ---------------------------------------------------------------------------------------------
class ScopeClient(BlockClient):
    def __init__(self, ctx, finfo, inst=None, guard="table_name", extra_track=()):
        track = {"startcls", "endcls", "endcls_all", "obj", guard, "$scope", "$table", "result", "content",
                 "match_labels", "match_names", "enable_do_label_construct_hook", "match_name_classes"} | set(extra_track)
        BlockClient.__init__(self, ctx, finfo, inst, track=track)
        self.guard = guard
        self.acquires = 0
        self.releases = 0

    def call_effect(self, call, st):
        d = A.dotted(call.func) or ""
        if d.endswith("SYMBOL_TABLES.enter_scope"):
            self.acquires += 1
            if st.get("$scope") == F.const("open"):
                self.findings.append(("double-enter", "enter_scope reached while this function's scope is already open", call))
            st = st.set("$scope", F.const("open")).set("$table", F.const("registered"))
            if self.guard:
                st = st.set(self.guard, F.TRUTHY)
            return (st,)
        if d.endswith("SYMBOL_TABLES.exit_scope"):
            self.releases += 1
            if st.get("$scope") != F.const("open"):
                self.findings.append(("exit-without-enter",
                                      "exit_scope reachable on a path on which this function did not enter a scope", call))
            return (st.set("$scope", F.const("closed")),)
        if d.endswith("SYMBOL_TABLES.remove"):
            if st.get("$scope") == F.const("open"):
                self.findings.append(("remove-while-open", "SYMBOL_TABLES.remove is reached while the scope entered by this function is still "
                                      "the current one: SymbolTables.remove refuses that (SymbolTableError), which then replaces the "
                                      "exception being propagated", call))
            return (st.set("$table", F.const("removed")),)
        return BlockClient.call_effect(self, call, st)

    def local_names(self):
        if not hasattr(self, "_locals"):
            self._locals = set(A.param_names(self.f.node)) | {nm for n in A.body_nodes(self.f.node) if isinstance(n, (ast.Assign, ast.For))
                                                              for t in (n.targets if isinstance(n, ast.Assign) else [n.target])
                                                              for nm in A.assigned_names(t)}
        return self._locals

    def call_raises(self, call, st):
        d = A.dotted(call.func) or ""
        if d.endswith(("SYMBOL_TABLES.exit_scope", "SYMBOL_TABLES.remove", "SYMBOL_TABLES.enter_scope")):
            return ()   # the release call's own failure is exempt
        out = BlockClient.call_raises(self, call, st)
        fn = call.func
        if isinstance(fn, ast.Name):
            v = st.env.get(fn.id)
            on_reader = bool(call.args) and isinstance(call.args[0], ast.Name) and call.args[0].id == "reader" \
                and fn.id in self.local_names()
            if (v is not None and any(a[0] == "cls" for a in v)) or on_reader:
                # a class of the grammar is called on the reader: its matcher may end in ANY exception class of the package
                # (SymbolTableError from a declaration when the tables' checks are on, InternalError ...), not only in the
                # classes the API boundary converts
                out = set(out) | repo_exceptions(self.m)
        return out


def ret_kind(node, st):
    """'nomatch' | 'match' | 'unknown' for a Return node (or None = fall off the end)."""
    if node is None or node.value is None:
        return "nomatch"
    v = node.value
    if isinstance(v, ast.Constant) and v.value is None:
        return "nomatch"
    if isinstance(v, ast.Tuple):
        return "match"
    if isinstance(v, ast.Name):
        val = st.get(v.id)
        t, f = F.Flow.truth_vals(val)
        if t and not f:
            return "match"
        if f and not t:
            return "nomatch"
    return "unknown"


def run_scope(ctx, finfo, inst, rule, label, guard="table_name", init_extra=None):
    """Scope typestate over one function (specialised for inst when given). Appends to rule."""
    m = ctx.m
    if finfo is not ctx.engine:
        finfo = canonical(finfo)
    client = ScopeClient(ctx, finfo, inst, guard=guard)
    env = inst_env(ctx, inst) if inst is not None else {}
    env["$scope"] = F.const("closed")
    env["$table"] = F.const("none")
    if init_extra:
        env.update(init_extra)
    track_flags(client, inst)
    env = {k: v for k, v in env.items() if k in client.track}
    fl = F.Flow(m, finfo, client)
    out = fl.run(F.State(env))
    bad = {}

    def note(key, msg, node):
        bad.setdefault(key, (msg, node))

    n_exits = 0
    scoping_start = False
    if inst is not None and inst.args and inst.args.get("startcls") is not None and inst.args["startcls"].kind == "class":
        sk = inst.args["startcls"].v
        scoping_start = sk in m.classes and m.issub(sk, ctx.scoping)
    for st, node in out.ret:
        n_exits += 1
        kind = ret_kind(node, st)
        if scoping_start and kind == "match" and st.get("$table") != F.const("registered"):
            note("match-without-table", "a match is reported at `%s` although no symbol table was created for the scoping unit this "
                 "instance opens: its declarations land in the enclosing scope's table" % (A.text(node) if node else "end"), node)
        if st.get("$scope") != F.const("closed"):
            note("open-at-return|%s" % A.text(node) if node else "open-at-return|end",
                 "a scope entered by this function is still open at `%s`" % (A.text(node) if node else "end of function"), node)
        if kind == "nomatch" and st.get("$table") == F.const("registered"):
            note("table-kept|%s" % (A.text(node) if node else "end"),
                 "no match is reported at `%s` but the symbol table created by this function is not removed"
                 % (A.text(node) if node else "end of function"), node)
    for st, exc, node in out.exc:
        if exc not in ctx.signals and not any(m.is_exc_sub(exc, s) for s in ctx.signals) and exc not in repo_exceptions(m):
            continue
        n_exits += 1
        if st.get("$scope") != F.const("closed"):
            note("open-at-raise|%s|%s" % (exc, A.text(node)[:60]),
                 "%s raised by `%s` leaves this function while the scope it entered is still open"
                 % (exc, A.text(node)[:80]), node)
        elif st.get("$table") == F.const("registered"):
            note("table-kept-at-raise|%s|%s" % (exc, A.text(node)[:60]),
                 "%s raised by `%s` leaves this function with the symbol table it created still registered"
                 % (exc, A.text(node)[:80]), node)
    for key, msg, node in client.findings:
        if key.startswith("proto"):
            continue
        note(key, msg, node)
    rule.instances += 1
    rule.ob(not bad, "%s: %d exits (normal+exceptional) checked, acquire sites reached %d, states %d"
            % (label, n_exits, client.acquires, fl.count))
    for key, (msg, node) in sorted(bad.items()):
        rule.fail("%s|%s" % (label, key), "%s: %s" % (label, msg), m.loc(finfo, node) if node is not None else m.loc(finfo))
    return client, out


# ---------------------------------------------------------------------------------------------
# A2: END required / names compared (C08.R3)
# ---------------------------------------------------------------------------------------------
class NamesClient(BlockClient):
    def __init__(self, ctx, finfo, inst):
        track = {"startcls", "endcls", "endcls_all", "obj", "match_labels", "match_names", "strict_match_names", "content",
                 "enable_do_label_construct_hook", "match_name_classes", "start_name", "end_name", "$sname", "$ename",
                 "found_end", "had_match", "strict_order", "enable_if_construct_hook", "enable_where_construct_hook"}
        BlockClient.__init__(self, ctx, finfo, inst, track=track, names=True)
        self.unrejected = []

    def call_value(self, call, st):
        return BlockClient.call_value(self, call, st)

    def call_effect(self, call, st):
        fn = call.func
        if isinstance(fn, ast.Attribute) and fn.attr == "get_end_name":
            s, e = st.get("start_name"), st.get("end_name")
            if single(s) and single(e) and disagree(val_of(s), val_of(e), False):
                self.unrejected.append((val_of(s), val_of(e), call))
        return BlockClient.call_effect(self, call, st)


def single(v):
    return len(v) == 1 and next(iter(v))[0] == "c"


def val_of(v):
    return next(iter(v))[1]


def disagree(s, e, strict):
    if e and not s:
        return True
    if s and e and s.lower() != e.lower():
        return True
    if strict and s and not e:
        return True
    return False


class EnumFlow(F.Flow):
    """Flow that forks states on assignment to the enumerated variables so that each holds one atom."""
    ENUM = ("start_name", "end_name")

    def stmt(self, s, states, cur_exc):
        out = F.Flow.stmt(self, s, states, cur_exc)
        if isinstance(s, ast.Assign):
            names = set()
            for t in s.targets:
                names |= set(A.assigned_names(t))
            enum = [n for n in names if n in self.ENUM]
            if enum:
                new = set()
                for st in out.normal:
                    sts = [st]
                    for n in enum:
                        nxt = []
                        for x in sts:
                            v = x.get(n)
                            if len(v) > 1 and all(a[0] == "c" for a in v):
                                nxt += [x.set(n, frozenset([a])) for a in v]
                            else:
                                nxt.append(x)
                        sts = nxt
                    new |= set(sts)
                out.normal = new
                # latch the names as read from the statements: a later re-use of the variable for something else does not
                # change which (opening, END) pair this path compared
                if any(isinstance(c.func, ast.Attribute) and c.func.attr in ("get_start_name", "get_end_name") for c in A.calls(s.value)):
                    lat = set()
                    for st in out.normal:
                        for n, l in (("start_name", "$sname"), ("end_name", "$ename")):
                            if n in enum:
                                st = st.set(l, st.get(n))
                        lat.add(st)
                    out.normal = lat
        return out

    def assign(self, target, value_node, st, val=None):
        # tuple assignment `start_name, end_name = (content[..].get_start_name(), content[-1].get_end_name())`
        return F.Flow.assign(self, target, value_node, st, val)


def run_names(ctx, inst, rule_end, rule_names):
    m = ctx.m
    finfo = ctx.engine
    label = inst.tag
    end = inst.args.get("endcls")
    if end is None or end.kind != "class":
        return
    client = NamesClient(ctx, finfo, inst)
    track_flags(client, inst)
    env = {k: v for k, v in inst_env(ctx, inst).items() if k in client.track}
    fl = EnumFlow(m, finfo, client)
    out = fl.run(F.State(env))
    strict = inst.flag("strict_match_names") is True
    names = inst.flag("match_names") is True
    # --- END required
    rule_end.instances += 1
    bad_end = []
    n_match = 0
    for st, node in out.ret:
        if ret_kind(node, st) != "match":
            continue
        n_match += 1
        fe = st.get("found_end")
        if fe != F.TRUE:
            bad_end.append((node, F.fmt(fe)))
    rule_end.ob(not bad_end and n_match > 0, "%s: %d matching return states, all with found_end == True" % (label, n_match))
    if n_match == 0:
        rule_end.error("%s: no matching return state is reachable in the specialised engine (analysis lost the success path)" % label)
    for node, fe in bad_end[:1]:
        rule_end.fail("%s|return-without-end" % label,
                      "%s: `%s` is reachable with found_end = %s although the construct has END class %s"
                      % (label, A.text(node), fe, end), m.loc(finfo, node))
    # --- names
    if not names:
        return
    rule_names.instances += 1
    problems = {}
    pairs = set()
    for st, node in out.ret:
        if ret_kind(node, st) != "match":
            continue
        s, e = st.get("$sname"), st.get("$ename")
        if single(s) and single(e):
            pairs.add((val_of(s), val_of(e)))
            if disagree(val_of(s), val_of(e), strict):
                problems.setdefault("accepted|%r|%r" % (val_of(s), val_of(e)),
                                    ("a match is returned with opening name %r and END name %r" % (val_of(s), val_of(e)), node))
        else:
            problems.setdefault("names-not-read", ("a match is returned on a path where the opening/END names were never obtained", node))
    for st, exc, node in out.exc:
        if exc != "FortranSyntaxError" or not (isinstance(node, ast.Raise) and node.exc is not None):
            continue
        s, e = st.get("$sname"), st.get("$ename")
        if single(s) and single(e):
            pairs.add((val_of(s), val_of(e)))
            if not disagree(val_of(s), val_of(e), strict) and not disagree(val_of(s), val_of(e), True):
                problems.setdefault("rejected|%r|%r" % (val_of(s), val_of(e)),
                                    ("FortranSyntaxError is raised for agreeing names %r / %r" % (val_of(s), val_of(e)), node))
    for s, e, node in client.unrejected:
        problems.setdefault("intermediate|%r|%r" % (s, e),
                            ("an intermediate statement carrying name %r under opening name %r is not rejected" % (e, s), node))
    rule_names.ob(not problems, "%s: %d (opening, END) name pairs explored, strict=%s" % (label, len(pairs), strict))
    for key, (msg, node) in sorted(problems.items())[:3]:
        rule_names.fail("%s|%s" % (label, key), "%s: %s" % (label, msg), m.loc(finfo, node) if node is not None else None)


# ---------------------------------------------------------------------------------------------
# A3: consumed => kept or restored
# ---------------------------------------------------------------------------------------------
class ConsumeClient(BlockClient):
    """Typestate of reader-level objects: $obj in {none, held, stored, restored}; $content in
    {empty, nonempty, restored}."""

    def __init__(self, ctx, finfo, inst=None, content="content", objvar="obj", extra_track=()):
        track = {"startcls", "endcls", "endcls_all", "obj", "cls", "$obj", "$content", "match_labels", "match_names", content,
                 "enable_do_label_construct_hook", "match_name_classes", objvar} | set(extra_track)
        BlockClient.__init__(self, ctx, finfo, inst, track=track)
        self.content = content
        self.objvar = objvar
        self.leaks = {}

    def is_reader_class_call(self, call, st):
        fn = call.func
        if not (len(call.args) >= 1 and isinstance(call.args[0], ast.Name) and call.args[0].id in ("reader", "string")):
            return False
        if isinstance(fn, ast.Name):
            v = st.env.get(fn.id)
            if v is not None and any(a[0] == "cls" for a in v):
                return True
            if fn.id in ("cls", "startcls", "subcls"):
                return True
            k = self.m.class_of_name(self.f, fn.id)
            if k and self.m.issub(k, self.ctx.base) and fn.id not in self.ctx.cg.locals_of(self.f):
                return True
        return False

    def call_effect(self, call, st):
        fn = call.func
        d = A.dotted(fn) or ""
        if isinstance(fn, ast.Attribute) and fn.attr == "append" and A.text(fn.value) == self.content \
                and len(call.args) == 1 and A.text(call.args[0]) == self.objvar:
            return (st.set("$obj", F.const("stored")).set("$content", F.const("nonempty")).set(self.content, F.TRUTHY),)
        if isinstance(fn, ast.Attribute) and fn.attr == "restore_reader" and A.text(fn.value) == self.objvar:
            return (st.set("$obj", F.const("restored")),)
        if d.endswith("add_comments_includes_directives") and call.args and A.text(call.args[0]) == self.content:
            return (st.set("$content", F.const("nonempty")),)
        return BlockClient.call_effect(self, call, st)

    def on_stmt(self, stmt, st):
        # overwriting the object variable while it is held
        if isinstance(stmt, ast.Assign) and any(self.objvar in A.assigned_names(t) for t in stmt.targets):
            self.check_held(st, stmt, "overwritten by `%s`" % A.text(stmt)[:60])

    def check_held(self, st, node, how):
        if st.get("$obj") == F.const("held"):
            v = st.get(self.objvar)
            if not any(a == ("c", None) for a in v) or all(a != ("c", None) for a in v):
                if all(a != ("c", None) for a in v):
                    self.leaks.setdefault("held|%s" % how, ("an object obtained from the reader is neither kept nor restored: %s" % how, node))


class ConsumeFlow(F.Flow):
    def stmt(self, s, states, cur_exc):
        c = self.c
        # recognise  for X in reversed(content): X.restore_reader(reader)
        if isinstance(s, ast.For) and isinstance(s.iter, ast.Call) and A.dotted(s.iter.func) == "reversed" \
                and s.iter.args and A.text(s.iter.args[0]) == c.content:
            tgt = A.text(s.target)
            body_ok = any(isinstance(n, ast.Call) and isinstance(n.func, ast.Attribute) and n.func.attr == "restore_reader"
                          and A.text(n.func.value) == tgt for b in s.body for n in ast.walk(b))
            if body_ok and len(s.body) == 1:
                out = F.Outcome()
                for st in states:
                    if tgt == c.objvar:
                        c.check_held(st, s, "overwritten by the restore loop")
                        st = st.set("$obj", F.const("none"))
                    out.normal.add(st.set("$content", F.const("restored")))
                return out
        out = F.Flow.stmt(self, s, states, cur_exc)
        if isinstance(s, ast.Assign) and len(s.targets) == 1 and isinstance(s.targets[0], ast.Name) \
                and s.targets[0].id == c.objvar and isinstance(s.value, ast.Call):
            new = set()
            for st in out.normal:
                if c.is_reader_class_call(s.value, st):
                    v = st.get(c.objvar)
                    if v == F.NONE:
                        st = st.set("$obj", F.const("none"))
                    else:
                        st = st.set("$obj", F.const("held"))
                new.add(st)
            out.normal = new
        return out

    def split(self, test, st, out=None):
        a, b = F.Flow.split(self, test, st, out)
        # an object known to be None is not held
        def fix(sts):
            res = set()
            for s in sts:
                if s.get(self.c.objvar) == F.NONE and s.get("$obj") == F.const("held"):
                    s = s.set("$obj", F.const("none"))
                res.add(s)
            return res
        return fix(a), fix(b)


def run_consume(ctx, finfo, inst, rule, label, content="content", objvar="obj", init_extra=None):
    m = ctx.m
    if finfo is not ctx.engine:
        finfo = canonical(finfo)
    client = ConsumeClient(ctx, finfo, inst, content=content, objvar=objvar)
    env = inst_env(ctx, inst) if inst is not None else {}
    env["$obj"] = F.const("none")
    env["$content"] = F.const("empty")
    if init_extra:
        env.update(init_extra)
    track_flags(client, inst)
    env = {k: v for k, v in env.items() if k in client.track}
    fl = ConsumeFlow(m, finfo, client)
    out = fl.run(F.State(env))
    problems = dict(client.leaks)
    n = 0
    for st, node in out.ret:
        n += 1
        kind = ret_kind(node, st)
        where = A.text(node) if node is not None else "end of function"
        if st.get("$obj") == F.const("held") and all(a != ("c", None) for a in st.get(objvar)):
            problems.setdefault("held-at-return|%s" % where,
                                ("`%s` is reached while an object obtained from the reader is neither kept nor restored" % where, node))
        if kind == "nomatch" and st.get("$content") == F.const("nonempty"):
            problems.setdefault("nomatch-unrestored|%s" % where,
                                ("no match is reported at `%s` after objects were consumed from the reader, and they are not restored" % where, node))
    rule.instances += 1
    rule.ob(not problems, "%s: %d return states checked, states %d" % (label, n, fl.count))
    for key, (msg, node) in sorted(problems.items())[:4]:
        rule.fail("%s|%s" % (label, key), "%s: %s" % (label, msg), m.loc(finfo, node) if node is not None else m.loc(finfo))
    return out


# ---------------------------------------------------------------------------------------------
# A4: the class list always contains comments / includes / directives / cpp (C11.R1)
# ---------------------------------------------------------------------------------------------
class ListClient(BlockClient):
    def __init__(self, ctx, finfo, inst):
        BlockClient.__init__(self, ctx, finfo, inst,
                             track={"startcls", "endcls", "@process_directives", "$L:comments", "$L:classes"})
        self.at_loop = []

    def tags_of(self, node, st):
        """must-contain tag set of a list expression, or None if unknown."""
        if isinstance(node, ast.List):
            out = set()
            for e in node.elts:
                out.add(self.tag(e))
            return out
        if isinstance(node, ast.Name):
            v = st.env.get("$L:" + node.id)
            if v is not None:
                return {a[1] for a in v if a[0] == "tag"}
            if node.id in A.param_names(self.f.node):
                return {"param:" + node.id}
            return None
        if isinstance(node, ast.BinOp) and isinstance(node.op, ast.Add):
            a, b = self.tags_of(node.left, st), self.tags_of(node.right, st)
            if a is None or b is None:
                return None
            return a | b
        if isinstance(node, ast.IfExp):
            # `[X] if flag else []`: the branch the tracked flag selects, else what both branches contain
            a, b = self.tags_of(node.body, st), self.tags_of(node.orelse, st)
            if a is None or b is None:
                return None
            d = A.dotted(node.test)
            if d in getattr(self, "attr_vars", {}):
                t, fz = F.Flow.truth_vals(st.get(self.attr_vars[d]))
                if t and not fz:
                    return a
                if fz and not t:
                    return b
            return a & b
        if isinstance(node, ast.Call) and A.dotted(node.func) in ("list", "tuple") and len(node.args) == 1:
            return self.tags_of(node.args[0], st)
        return None

    def tag(self, e):
        d = A.dotted(e)
        if d is None:
            return "?" + A.text(e)
        if d in A.param_names(self.f.node):
            return "param:" + d
        return d.split(".")[-1]


class ListFlow(F.Flow):
    def split(self, test, st, out=None):
        if isinstance(test, ast.Attribute) and A.dotted(test) in self.c.attr_vars:
            name = self.c.attr_vars[A.dotted(test)]
            val = st.get(name)
            res_t, res_f = set(), set()
            t, f = self.truth_vals(val)
            if t:
                res_t.add(st.set(name, F.TRUTHY))
            if f:
                res_f.add(st.set(name, F.FALSY))
            return res_t, res_f
        return F.Flow.split(self, test, st, out)

    def stmt(self, s, states, cur_exc):
        c = self.c
        if isinstance(s, ast.While):
            for st in states:
                c.at_loop.append((st, s))
        if isinstance(s, ast.Assign) and len(s.targets) == 1 and isinstance(s.targets[0], ast.Name) \
                and s.targets[0].id in ("comments", "classes"):
            out = F.Outcome()
            for st in states:
                tags = c.tags_of(s.value, st)
                name = "$L:" + s.targets[0].id
                if tags is None:
                    out.normal.add(st.set(name, frozenset([("tag", "?unknown")])))
                else:
                    out.normal.add(st.set(name, frozenset(("tag", t) for t in tags)))
            return out
        if isinstance(s, ast.AugAssign) and isinstance(s.target, ast.Name) and s.target.id in ("comments", "classes") \
                and isinstance(s.op, ast.Add):
            out = F.Outcome()
            for st in states:
                tags = c.tags_of(s.value, st) or set()
                name = "$L:" + s.target.id
                cur = st.env.get(name, frozenset())
                out.normal.add(st.set(name, cur | frozenset(("tag", t) for t in tags)))
            return out
        if isinstance(s, ast.Expr) and isinstance(s.value, ast.Call) and isinstance(s.value.func, ast.Attribute) \
                and isinstance(s.value.func.value, ast.Name) and s.value.func.value.id in ("comments", "classes") \
                and s.value.func.attr in ("append", "insert"):
            out = F.Outcome()
            arg = s.value.args[-1]
            for st in states:
                name = "$L:" + s.value.func.value.id
                cur = st.env.get(name, frozenset())
                out.normal.add(st.set(name, cur | frozenset([("tag", c.tag(arg))])))
            return out
        if isinstance(s, ast.Expr) and isinstance(s.value, ast.Call) and isinstance(s.value.func, ast.Attribute) \
                and isinstance(s.value.func.value, ast.Name) and s.value.func.value.id in ("comments", "classes") \
                and s.value.func.attr in ("remove", "pop", "clear"):
            out = F.Outcome()
            for st in states:
                out.normal.add(st.set("$L:" + s.value.func.value.id, frozenset()))
            return out
        return F.Flow.stmt(self, s, states, cur_exc)


def run_classlist(ctx, inst, rule):
    m = ctx.m
    finfo = ctx.engine
    client = ListClient(ctx, finfo, inst)
    track_flags(client, inst)
    env = {k: v for k, v in inst_env(ctx, inst).items() if k in client.track}
    for pd in (F.TRUTHY, F.FALSY):
        env2 = dict(env)
        env2["@process_directives"] = pd
        fl = ListFlow(m, finfo, client)
        fl.run(F.State(env2))
    rule.instances += 1
    label = inst.tag
    if not client.at_loop:
        rule.error("%s: the matching loop of BlockBase.match was not reached by the analysis" % label)
        return
    problems = {}
    for st, node in client.at_loop:
        tags = {a[1] for a in st.env.get("$L:classes", frozenset()) if a[0] == "tag"}
        need = {"Comment", "Include_Stmt", "match_cpp_directive", "param:subclasses"}
        if st.get("endcls") != F.NONE:
            need.add("param:endcls")
        pd = st.get("@process_directives")
        if pd == F.TRUTHY:
            need.add("Directive")
        missing = need - tags
        for t in sorted(missing):
            problems.setdefault("missing|%s" % t, ("the class list iterated by the matching loop does not contain %s%s"
                                                    % (t, " when reader.process_directives is set" if t == "Directive" else ""), node))
        if pd == F.FALSY and "Directive" in tags:
            problems.setdefault("directive-unconditional",
                                ("Directive is tried although reader.process_directives is off", node))
    rule.ob(not problems, "%s: class list at loop entry checked on %d states" % (label, len(client.at_loop)))
    for key, (msg, node) in sorted(problems.items()):
        rule.fail("%s|%s" % (label, key), "%s: %s" % (label, msg), m.loc(finfo, node))


# ---------------------------------------------------------------------------------------------
def scoping_instances(ctx, blocks):
    """Instances whose start class (any class it can produce) is a scoping class."""
    m = ctx.m
    out = []
    for inst in blocks:
        s = inst.args.get("startcls")
        if s is not None and s.kind == "class":
            if any(m.issub(k, ctx.scoping) for k in m.closure_all(s.v)):
                out.append(inst)
    return out


_CTX = {}


def get_ctx(m):
    c = _CTX.get(id(m))
    if c is None:
        c = _CTX[id(m)] = Ctx(m)
    return c


def c08_engine_rules(m, blocks, ends):
    ctx = get_ctx(m)
    r3 = RuleResult("C08.R3", "the block engine reports a match only after the END class was seen (per call site)")
    r3.floor = 20
    r3n = RuleResult("C08.R3n", "the block engine raises on every construct-name disagreement and only then (per call site)")
    r3n.floor = 12
    for inst in blocks:
        if not inst.args:
            continue
        run_names(ctx, inst, r3, r3n)
    return [r3, r3n]
