"""C19 -- the legacy statement-level parser (fparser1) round-trips its own output (structural clauses)."""
import ast
import re

from sa import astutil as A
from sa import regexlang
from sa.model import AnalysisError
from sa.report import RuleResult

ONE = ("fparser.one.statements", "fparser.one.typedecl_statements", "fparser.one.block_statements")
BC = "fparser.common.base_classes"


def one_classes(m):
    stmt = m.key("Statement", BC)
    return [k for k in sorted(m.classes) if m.classes[k]["module"] in ONE and m.issub(k, stmt)]


def class_regex(m, k, attr="match"):
    r = m.resolve_attr(k, attr)
    if r is None:
        return None
    pats = r[1].get("patterns")
    if pats and pats[0]["kind"] in ("re_method", "re"):
        return pats[0]
    return None


def const_str(m, k, f, node, depth=0):
    """Literal prefix (string known at analysis time) of an expression in a printer of class k, or None."""
    if isinstance(node, ast.Constant) and isinstance(node.value, str):
        return node.value, True
    if isinstance(node, ast.BinOp) and isinstance(node.op, ast.Add):
        left = const_str(m, k, f, node.left, depth)
        if left is None:
            return None
        if not left[1]:
            return left
        right = const_str(m, k, f, node.right, depth)
        if right is None:
            return left[0], False
        return left[0] + right[0], right[1]
    if isinstance(node, ast.BinOp) and isinstance(node.op, ast.Mod) and isinstance(node.left, ast.Constant) and isinstance(node.left.value, str):
        s = node.left.value
        i = s.find("%")
        return (s, True) if i == -1 else (s[:i], False)
    if isinstance(node, ast.Call) and isinstance(node.func, ast.Attribute) and node.func.attr == "format" and isinstance(node.func.value, ast.Constant):
        s = node.func.value.value
        i = s.find("{")
        return (s, True) if i == -1 else (s[:i], False)
    if isinstance(node, ast.Call) and isinstance(node.func, ast.Attribute) and node.func.attr in ("get_indent_tab",):
        return "", True
    if isinstance(node, ast.Name) and depth < 3:
        if node.id in ("tab",):
            return "", True
        defs = [n.value for n in A.body_nodes(f.node) if isinstance(n, ast.Assign) and any(isinstance(t, ast.Name) and t.id == node.id for t in n.targets)]
        aug = [n for n in A.body_nodes(f.node) if isinstance(n, ast.AugAssign) and isinstance(n.target, ast.Name) and n.target.id == node.id]
        if len(defs) >= 1:
            outs = [const_str(m, k, f, d, depth + 1) for d in defs]
            if any(o is None for o in outs):
                return None
            pre = os_commonprefix([o[0] for o in outs])
            complete = len(outs) == 1 and outs[0][1] and not aug
            return pre, complete
        return None
    if isinstance(node, ast.JoinedStr):
        pre = ""
        for v in node.values:
            if isinstance(v, ast.Constant):
                pre += v.value
            else:
                return pre, False
        return pre, True
    if isinstance(node, ast.Call) and isinstance(node.func, ast.Attribute) and node.func.attr == "upper" and isinstance(node.func.value, ast.Attribute) \
            and A.text(node.func.value) == "self.__class__.__name__":
        return m.classes[k]["name"].upper(), True
    if isinstance(node, ast.Call) and isinstance(node.func, ast.Attribute) and node.func.attr == "upper":
        inner = const_str(m, k, f, node.func.value, depth)
        if inner is not None:
            return inner[0].upper(), inner[1]
    if isinstance(node, ast.Attribute) and isinstance(node.value, ast.Name) and node.value.id == "self":
        r = m.resolve_attr(k, node.attr)
        if r and r[1].get("kind") == "data" and isinstance(r[1].get("value"), str):
            return r[1]["value"], True
    return None


def os_commonprefix(lst):
    import os
    return os.path.commonprefix(lst)


def r1_keywords(m):
    r = RuleResult("C19.R1", "what a statement prints starts with a keyword its own matcher accepts")
    r.floor = 50
    for k in one_classes(m):
        c = m.classes[k]
        rx = class_regex(m, k)
        tf = m.method(k, "tofortran")
        if rx is None or tf is None:
            continue
        if "tofortran" not in c["own"] and "match" not in c["own"]:
            continue
        uses_clsname = any("__class__.__name__" in A.text(x) for x in A.body_nodes(tf.node) if isinstance(x, ast.Attribute))
        if uses_clsname and any(m.issub(k2, k) and k2 != k for k2 in one_classes(m)):
            continue        # abstract parent: the keyword is the concrete subclass's name
        prefixes = []
        for ret in A.returns(tf.node):
            if ret.value is None:
                continue
            cs = const_str(m, k, tf, ret.value)
            if cs is None:
                prefixes.append(None)
            else:
                prefixes.append(cs[0])
        if not prefixes:
            continue
        r.instances += 1
        bad = None
        undet = False
        for pre in prefixes:
            if pre is None or not pre.strip():
                undet = True
                continue
            # the reader lower-cases the line outside literals before the class regex sees it
            text = pre.lstrip().lower()
            ok = regexlang.viable_prefix(rx["pattern"], rx["flags"], text)
            if ok is False:
                bad = pre
        if bad is not None:
            r.ob(False)
            r.fail("%s|%s" % (c["name"], bad.strip()[:20]), "%s prints `%s...` but its matcher %r cannot accept a line starting like that: "
                   "the regenerated statement is not parsed as a %s again" % (c["name"], bad.strip()[:30], rx["pattern"][:50], c["name"]), m.loc(tf))
        elif undet and all(p is None or not p.strip() for p in prefixes):
            r.undet("%s: printed prefix not a literal" % c["name"])
            r.instances -= 1
        else:
            r.ob(True, "%s: prints %s, matcher %r" % (c["name"], sorted({(p or '').strip()[:20] for p in prefixes if p}), rx["pattern"][:40]))
    return r


def r2_block_pairs(m):
    r = RuleResult("C19.R2", "every block statement names the END class whose matcher accepts the END line that class prints")
    r.floor = 15
    begin = m.key("BeginStatement", BC)
    endst = m.key("EndStatement", BC)
    for k in sorted(m.classes):
        c = m.classes[k]
        if c["module"] not in ONE or not m.issub(k, begin) or k == begin:
            continue
        ra = m.resolve_attr(k, "end_stmt_cls")
        if ra is None or not ra[1].get("class_key"):
            r.undet("%s has no end_stmt_cls (a one-line form)" % c["name"])
            continue
        ek = ra[1]["class_key"]
        if not m.issub(ek, endst):
            continue
        r.instances += 1
        ec = m.classes[ek]
        bt = m.resolve_attr(ek, "blocktype")
        blocktype = bt[1].get("value") if bt and bt[1].get("kind") == "data" else ec["name"].lower()[3:]
        rx = class_regex(m, ek)
        if rx is None:
            r.undet("%s: END class %s has no regex matcher" % (c["name"], ec["name"]))
            continue
        crx = re.compile(rx["pattern"], rx["flags"])
        samples = ["end %s" % blocktype, "end%s" % blocktype.replace(" ", "")]
        bad = [s for s in samples if not crx.match(s)]
        r.ob(not bad, "%s -> %s (blocktype %r): %s accepted" % (c["name"], ec["name"], blocktype, samples))
        if bad:
            r.fail("%s|%s" % (c["name"], bad[0]), "the END class %s of %s prints `END %s [name]` but its matcher %r does not accept %r"
                   % (ec["name"], c["name"], blocktype.upper(), rx["pattern"], bad[0]), None)
    # the END printer emits END <BLOCKTYPE> [name]
    tf = m.method(endst, "tofortran")
    r.instances += 1
    ok = tf is not None and all("END {0}" in A.text(x.value) and "blocktype.upper()" in A.text(x.value) for x in A.returns(tf.node) if x.value is not None)
    r.ob(ok, "EndStatement.tofortran prints END <BLOCKTYPE> [name]")
    if not ok:
        r.fail("EndStatement.tofortran", "EndStatement.tofortran no longer prints `END <BLOCKTYPE> [name]`", m.loc(tf) if tf else None)
    return r


def r4_content(m):
    r = RuleResult("C19.R4", "a block prints its own statement and all of its content")
    r.floor = 1
    begin = m.key("BeginStatement", BC)
    tf = m.method(begin, "tofortran")
    r.instances += 1
    ok = False
    if tf is not None:
        loops = [n for n in A.body_nodes(tf.node) if isinstance(n, ast.For) and A.text(n.iter) == "self.content"]
        ok = len(loops) == 1 and any(isinstance(c, ast.Call) and A.text(c.func).endswith(".tofortran") for c in ast.walk(loops[0])) \
            and not any(isinstance(x, (ast.Continue, ast.Break)) for x in ast.walk(loops[0]))
    r.ob(ok, "BeginStatement.tofortran iterates all of self.content")
    if not ok:
        r.fail("BeginStatement.tofortran", "BeginStatement.tofortran no longer prints every statement of self.content", m.loc(tf) if tf else None)
    return r


def assigned_attrs(m, k):
    out = set()
    for kk in m.mro(k):
        cc = m.classes[kk]
        out |= set(cc["own"])
        for name, d in cc["own"].items():
            f = m.method(kk, name) if d.get("kind") in ("function", "staticmethod", "classmethod") else None
            if f is None:
                continue
            for n in A.body_nodes(f.node):
                if isinstance(n, (ast.Assign, ast.AugAssign, ast.AnnAssign)):
                    tg = n.targets if isinstance(n, ast.Assign) else [n.target]
                    flat = []
                    for t in tg:
                        flat += t.elts if isinstance(t, (ast.Tuple, ast.List)) else [t]
                    for t in flat:
                        # chained assignment self.a = a = ...
                        if isinstance(t, ast.Attribute) and isinstance(t.value, ast.Name) and t.value.id == "self":
                            out.add(t.attr)
                if isinstance(n, ast.Call) and (A.dotted(n.func) or "") == "setattr" and len(n.args) >= 2 and isinstance(n.args[1], ast.Constant):
                    out.add(n.args[1].value)
    return out


def r5_attr_protocol(m):
    r = RuleResult("C19.R5", "printers read only attributes that the statement's own parsing methods assign")
    r.floor = 70
    for k in one_classes(m):
        c = m.classes[k]
        for meth in ("tofortran", "tostr"):
            if meth not in c["own"]:
                continue
            f = m.method(k, meth)
            if f is None:
                continue
            r.instances += 1
            have = assigned_attrs(m, k)
            guarded = set()
            for n in A.body_nodes(f.node):
                if isinstance(n, ast.Call) and (A.dotted(n.func) or "") in ("hasattr", "getattr") and len(n.args) >= 2 and isinstance(n.args[1], ast.Constant):
                    guarded.add(n.args[1].value)
            miss = sorted({n.attr for n in A.body_nodes(f.node) if isinstance(n, ast.Attribute) and isinstance(n.value, ast.Name)
                           and n.value.id == "self" and isinstance(n.ctx, ast.Load) and n.attr not in have and n.attr not in guarded
                           and not n.attr.startswith("__")})
            # subclasses may assign it: accept if every concrete subclass assigns
            if miss:
                still = []
                for a in miss:
                    subs = [k2 for k2 in one_classes(m) if m.issub(k2, k) and k2 != k]
                    if not subs or not all(a in assigned_attrs(m, k2) for k2 in subs):
                        still.append(a)
                miss = still
            r.ob(not miss, "%s.%s" % (c["name"], meth) if r.instances % 25 == 1 else None)
            if miss:
                r.fail("%s.%s|%s" % (c["name"], meth, ",".join(miss)), "%s.%s reads self.%s, which no method of the class (or its bases) ever assigns: "
                       "printing raises AttributeError" % (c["name"], meth, miss), m.loc(f))
    return r


MUT = {"remove", "append", "pop", "insert", "clear", "extend", "sort", "reverse", "update", "__setitem__", "__delitem__"}


def r6_analyze_pure(m):
    r = RuleResult("C19.R6", "analysing a statement does not change what it prints: analyze() never mutates a printed attribute in place")
    r.floor = 10
    for k in one_classes(m):
        c = m.classes[k]
        if "analyze" not in c["own"]:
            continue
        f = m.method(k, "analyze")
        tf = m.method(k, "tofortran")
        if f is None or tf is None:
            continue
        r.instances += 1
        printed = set()
        todo = [tf]
        seen_f = set()
        while todo:
            g = todo.pop()
            if id(g) in seen_f:
                continue
            seen_f.add(id(g))
            for n in A.body_nodes(g.node):
                if isinstance(n, ast.Attribute) and isinstance(n.value, ast.Name) and n.value.id == "self":
                    printed.add(n.attr)
                if isinstance(n, ast.Call) and isinstance(n.func, ast.Attribute) and isinstance(n.func.value, ast.Name) and n.func.value.id == "self":
                    h = m.method(k, n.func.attr)
                    if h is not None and n.func.attr in ("tostr", "torepr", "get_indent_tab") or (h is not None and n.func.attr.startswith("to")):
                        todo.append(h)
        aliases = {}
        for n in A.body_nodes(f.node):
            if isinstance(n, ast.Assign) and len(n.targets) == 1 and isinstance(n.targets[0], ast.Name) and isinstance(n.value, ast.Attribute) \
                    and isinstance(n.value.value, ast.Name) and n.value.value.id == "self":
                aliases[n.targets[0].id] = n.value.attr
        bad = None
        for n in A.body_nodes(f.node):
            tgt = None
            if isinstance(n, ast.Call) and isinstance(n.func, ast.Attribute) and n.func.attr in MUT:
                tgt = n.func.value
            elif isinstance(n, ast.Delete):
                for t in n.targets:
                    if isinstance(t, ast.Subscript):
                        tgt = t.value
            elif isinstance(n, ast.Assign) and isinstance(n.targets[0], ast.Subscript):
                tgt = n.targets[0].value
            if tgt is None:
                continue
            attr = None
            if isinstance(tgt, ast.Name) and tgt.id in aliases:
                attr = aliases[tgt.id]
            elif isinstance(tgt, ast.Attribute) and isinstance(tgt.value, ast.Name) and tgt.value.id == "self":
                attr = tgt.attr
            if attr and attr in printed:
                bad = (n, attr)
        r.ob(bad is None, "%s.analyze leaves %s untouched" % (c["name"], sorted(printed)[:4]))
        if bad is not None:
            r.fail("%s.analyze|%s" % (c["name"], bad[1]), "%s.analyze mutates self.%s in place (`%s`), which tofortran prints: with analyze=True "
                   "the regenerated statement loses text" % (c["name"], bad[1], A.text(bad[0])[:50]), m.loc(f, bad[0]))
    return r


def run(m, tier):
    results = [r1_keywords(m), r2_block_pairs(m), r4_content(m), r5_attr_protocol(m), r6_analyze_pure(m)]
    from rules import reader_rules
    results.append(reader_rules.rule_queue_one(m, "C19.R7"))
    from rules import one_taint
    results.append(one_taint.taint_rule(m, "C19.R8"))
    results.append(one_taint.embedded_label_rule(m, "C19.R9"))
    results.append(one_taint.label_field_rule(m, "C19.R10"))
    results.append(one_taint.no_fold_after_restore_rule(m, "C19.R11"))
    results.append(one_taint.selector_table_rule(m, "C19.R12"))
    results.append(one_taint.helper_table_rule(m, "C19.R13"))
    from rules import one_roundtrip
    results.append(one_roundtrip.roundtrip_rule(m, "C19.R14"))
    results.append(one_roundtrip.block_structure_rule(m, "C19.R15"))
    from sa.report import retag
    from rules import C02 as _C02, reader_rules as _rr, reader_interp as _ri
    results.append(retag(_C02.r6_inverse_map(m), "C19.R16", "the tokeniser shared with fparser2 (string_replace_map) expands nested "
                         "placeholders per occurrence and its inverse is bounded and ordered: what process_item methods un-map is the "
                         "text of the source (shared with C02.R6)"))
    results.append(_rr.replace_map_table_rule(m, "C19.R17"))
    results.append(_rr.rule_semicolon(m, "C19.R18"))
    results.append(_ri.stream_rule(m, "C19.R19", tier))
    results.append(_rr.rule_inline_table(m, "C19.R20"))
    expl = ("Decides structural clauses of C19 over the statement classes of fparser.one: the literal keyword prefix each printer emits "
            "(lower-cased as the reader does) is a viable prefix of the class's own match regex (prefix viability on the sre parse "
            "tree); every block statement names an END class whose regex accepts the `END <blocktype> [name]` line that class prints; "
            "blocks print all of their content; printers read only attributes some method of the class assigns; analyze() never "
            "mutates a printed attribute in place. Does NOT decide equality of regenerated statements.")
    return results, expl
