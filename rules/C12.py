"""C12 -- the reader delivers each logical line once, in order, with exact line numbers (structural clauses)."""
from sa import tables
from sa.report import RuleResult
from rules import common_block as cb
from rules import reader_rules as rr
from rules import regex_rules
from rules import C11


def run(m, tier):
    ctx = cb.get_ctx(m)
    blocks = tables.engine_instances(m, "BlockBase")
    r_items = C11.r2_items(m, ctx)
    r_items.rule = "C12.R1b-i"
    r_nodes = C11.r2_nodes(m, ctx, blocks)
    r_nodes.rule = "C12.R1b-ii"
    for r in (r_items, r_nodes):
        for f in r.findings:
            f.rule = r.rule
    results = [rr.rule_queue(m, "C12.R1"), r_items, r_nodes, rr.rule_linecount(m, "C12.R2"), rr.rule_span(m, "C12.R3"),
               rr.rule_quote_state(m, "C12.R4"), rr.rule_semicolon(m, "C12.R5"), rr.rule_continuation(m, "C12.R6"), regex_rules.label_name_rules(m, "C12.R7"), rr.rule_inline_table(m, "C12.R8")]
    from rules import C07
    from sa.report import retag
    results.append(retag(C07.r5_physical_lines(m), "C12.R9", "physical lines are newline-terminated lines only: the string reader iterates a StringIO "
                         "of the source, so spans and literals are not cut at form feed / U+2028 etc. (shared with C07.R5)"))
    from rules import reader_interp
    results.append(reader_interp.stream_rule(m, "C12.R10", tier))
    from rules import order_rules as _or_gb
    results.append(_or_gb.giveback_complete_rule(m, "C12.R11"))
    from rules import C13
    results.append(retag(C13.r1_search(m), "C12.R12", "the statements of an included file are part of the item stream: the reader created for it gets "
                         "the path, the include directories and every reader option of the including reader, is read first and dropped when "
                         "exhausted (shared with C13.R1)"))
    expl = ("Decides structural clauses of C12: the item queue discipline (who pushes/pops which end, ';' parts reversed before being "
            "pushed to the front, give-back forwarded to the active include reader, no access to another reader's queue); every "
            "look-ahead is undone (typestate of items and nodes on all paths of every reader-level matcher); the physical line counter "
            "moves by exactly one with every line taken or given back (path-sensitive count per function); the span of a statement item "
            "is the counter after its first read and the line of the last text appended (event abstraction R/A/E over "
            "get_source_item); character context is threaded and ends at a comment; the parts of a ';' line have label and construct "
            "name re-extracted and the replace map undone. Does NOT decide item text/span equality for every layout.")
    return results, expl
