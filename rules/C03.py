"""C03 -- expression parse trees encode Fortran precedence and associativity (structural clauses)."""
import ast
import itertools
import json
import os
import re

from sa import astutil as A
from sa import flow as F
from sa import tables
from sa.model import AnalysisError
from sa.report import RuleResult

HERE = os.path.dirname(os.path.abspath(__file__))
ORACLE = os.path.join(os.path.dirname(HERE), "oracle", "expr.json")
F03 = "fparser.two.Fortran2003"
UTILS = "fparser.two.utils"


def vname(v):
    if v is None:
        return None
    if v.kind == "class":
        return v.v.split(":")[1]
    if v.kind == "pattern":
        return v.v.split(".")[0]
    if v.kind == "none":
        return None
    if v.kind == "const":
        return v.v
    return "?" + repr(v)


def r1_table(m):
    r = RuleResult("C03.R1", "the expression table (operator, operands, split side, fall-through) is the standard's precedence table")
    r.floor = 13
    oracle = json.load(open(ORACLE))
    bins = {i.name: i for i in tables.engine_instances(m, "BinaryOpBase") if i.concrete.startswith(F03 + ":")}
    uns = {i.name: i for i in tables.engine_instances(m, "UnaryOpBase") if i.concrete.startswith(F03 + ":")}
    for lv in oracle["levels"]:
        name = lv["cls"]
        r.instances += 1
        inst = (bins if lv["engine"] == "BinaryOpBase" else uns).get(name)
        k = m.key(name, F03) if m.has_class(name, F03) else None
        if k is None:
            r.error("expression class %s vanished" % name)
            continue
        if inst is None or not inst.args:
            r.ob(False)
            r.fail("%s|engine" % name, "%s.match no longer delegates to %s.match with resolvable arguments (%s)" % (name, lv["engine"], lv["rule"]),
                   m.loc(m.method(k, "match")) if m.method(k, "match") else None)
            continue
        where = m.loc(inst.func, inst.call)
        got = {"op": vname(inst.args.get("op_pattern")), "rhs": vname(inst.args.get("rhs_cls"))}
        want = {"op": lv["op"], "rhs": lv["rhs"]}
        if lv["engine"] == "BinaryOpBase":
            got["lhs"] = vname(inst.args.get("lhs_cls"))
            got["right"] = inst.flag("right", True)
            want["lhs"] = lv["lhs"]
            want["right"] = lv["right"]
            got["exclude"] = vname(inst.args.get("exclude_op_pattern"))
            want["exclude"] = lv.get("exclude")
        r.sample("%s: %s" % (name, got))
        for key in want:
            ok = got[key] == want[key]
            r.ob(ok)
            if not ok:
                expl = {"right": "the operator is split at the %s occurrence, so equal-precedence operators associate to the %s"
                                 % (("rightmost", "left") if got.get("right") else ("leftmost", "right")),
                        "lhs": "the left operand is parsed as %s" % got.get("lhs"), "rhs": "the %soperand is parsed as %s" % ("right " if "lhs" in got else "", got.get("rhs")),
                        "op": "the operator pattern is %s" % got.get("op"), "exclude": "the excluded operator pattern is %s" % got.get("exclude")}[key]
                r.fail("%s|%s" % (name, key), "%s (%s): %s; the standard requires %s=%r" % (name, lv["rule"], expl, key, want[key]), where)
        # fall-through
        sub = m.classes[k]["subclass_names"] or []
        ok = sub == [lv["falls"]]
        r.ob(ok)
        if not ok:
            r.fail("%s|falls" % name, "%s falls through to %s, the next tighter level is %s" % (name, sub, lv["falls"]), where)
    # parenthesis
    p = oracle["parenthesis"]
    r.instances += 1
    br = {i.name: i for i in tables.engine_instances(m, "BracketBase")}.get(p["cls"])
    if br is None or not br.args:
        r.error("Parenthesis.match no longer delegates to BracketBase.match")
    else:
        ok = vname(br.args.get("brackets")) == p["brackets"] and vname(br.args.get("cls")) == p["inner"]
        prim = m.classes[m.key(p["alternative_of"], F03)]["subclass_names"] or []
        ok2 = p["cls"] in prim
        r.ob(ok and ok2, "Parenthesis: brackets %s around %s, alternative of Primary: %s" % (vname(br.args.get("brackets")), vname(br.args.get("cls")), ok2))
        if not (ok and ok2):
            r.fail("Parenthesis", "Parenthesis no longer wraps Expr in '()' as an alternative of Primary", m.loc(br.func, br.call))
    # the 2008 grammar must not override any level
    for lv in oracle["levels"]:
        k8 = m.std_class("f2008", lv["cls"])
        if k8 and not k8.startswith(F03 + ":"):
            r.notes.append("%s is overridden in the 2008 grammar by %s (not covered by the oracle)" % (lv["cls"], k8))
    return r


class SplitClient(F.Client):
    track = {"right", "$split", "text_split", "is_str"}

    def __init__(self):
        self.order = []

    def call_effect(self, call, st):
        fn = call.func
        if isinstance(fn, ast.Attribute) and fn.attr in ("rsplit", "lsplit", "split", "partition", "rpartition"):
            recv = A.text(fn.value)
            # (any splitting of a local or of the operator pattern: the method names are what matters, not what the text is called)
            if isinstance(fn.value, ast.Name):
                limited = fn.attr in ("rsplit", "lsplit") and len(call.args) <= 2 and not any(isinstance(a, ast.Constant) and isinstance(a.value, str) for a in call.args[:1]) \
                    or (len(call.args) >= 2 and A.const(call.args[1]) == 1) \
                    or fn.attr in ("partition", "rpartition")
                return (st.set("$split", F.const(fn.attr if limited else fn.attr + "-unbounded")),)
        return (st,)


def r2_engine(m):
    r = RuleResult("C03.R2", "the binary-operator engine splits at the rightmost operator when right=True and at the leftmost otherwise, "
                             "and builds lhs/rhs from the corresponding sides")
    r.floor = 2
    eng = m.method(m.key("BinaryOpBase", UTILS), "match")
    if eng is None:
        raise AnalysisError("anchor vanished: BinaryOpBase.match")
    for right in (True, False):
        fl = F.Flow(m, eng, SplitClient())
        out = fl.run(F.State({"right": F.const(right), "$split": F.const("none")}))
        r.instances += 1
        allowed = {"rsplit", "rpartition"} if right else {"lsplit", "split", "partition"}
        seen = set()
        for st, node in out.ret:
            if node is None or node.value is None or (isinstance(node.value, ast.Constant) and node.value.value is None):
                continue
            v = st.get("$split")
            seen |= {a[1] for a in v if a[0] == "c"}
        bad = seen - allowed
        r.ob(not bad and bool(seen), "right=%s: matching returns reached after split method(s) %s" % (right, sorted(seen)))
        if not seen:
            r.error("BinaryOpBase.match: no matching return reached for right=%s" % right)
        elif bad:
            r.fail("BinaryOpBase.match|right=%s|%s" % (right, ",".join(sorted(bad))),
                   "BinaryOpBase.match with right=%s reaches a match after splitting with %s: %s" % (
                       right, sorted(bad), "equal-precedence operators would associate to the right" if right else "`**` would associate to the left"),
                   m.loc(eng))
    # (which side each piece ends up on, and which pieces Pattern.rsplit / lsplit hand back, are decided by interpretation on tables:
    # C03.R9 and C03.R7 -- no local name of the engine is relied on)
    return r


def words(alphabet, maxlen):
    for n in range(0, maxlen + 1):
        for t in itertools.product(alphabet, repeat=n):
            yield "".join(t)


def compiled(m, name):
    ent = m.snap["patterns"].get(name)
    if ent is None or "error" in ent:
        raise AnalysisError("pattern_tools.%s vanished" % name)
    return re.compile(ent["compiled_pattern"], ent["compiled_flags"]), ent


def full(m, name):
    ent = m.snap["patterns"].get(name)
    if ent is None:
        raise AnalysisError("pattern_tools.%s vanished" % name)
    return re.compile(r"\A(?:" + ent["pattern"] + r")\Z", ent["flags"])


def r3_regex(m, tier):
    r = RuleResult("C03.R3", "operator regexes cannot split inside a longer operator; every level's regex matches exactly its operator tokens")
    r.floor = 12
    oracle = json.load(open(ORACLE))["operator_tokens"]
    # (a) exact token sets, both cases, optional inner blanks for dotted operators
    all_tokens = []
    for name, toks in oracle.items():
        for t in toks:
            all_tokens.append((name, t))
    for name, toks in oracle.items():
        rx = full(m, name)
        r.instances += 1
        bad = None
        for owner, t in all_tokens:
            for variant in {t, t.lower(), t.replace(".", ". ", 1) if t.startswith(".") else t}:
                want = owner == name
                if name == "rel_op" and owner == "rel_op":
                    want = True
                got = rx.match(variant) is not None
                if got != want:
                    bad = (variant, got)
        r.ob(bad is None, "%s matches exactly %s" % (name, toks))
        if bad:
            r.fail("%s|tokens|%s" % (name, bad[0]), "the operator regex %s %s the token %r" % (name, "accepts" if bad[1] else "rejects", bad[0]), None)
    # (a') every other dotted word is a defined operator: no intrinsic level may claim it (a level that does takes a user's
    # `.xor.` or `.nand.` out of the defined-operator level, the loosest one, or refuses it altogether)
    import itertools
    import string as _string
    maxlen = 4 if tier == "thorough" else 3
    dotted_levels = [name for name, toks in oracle.items() if any(t.startswith(".") for t in toks)]
    compiled_levels = {name: full(m, name) for name in dotted_levels}
    intrinsic_words = {t.strip(".").upper() for toks in oracle.values() for t in toks if t.startswith(".")}
    extra = ["XNOR", "NAND", "NEQVV", "EQUIV", "FALSE", "TRUE", "NOTT", "ANDD"]
    claimed = {}
    n_words = 0
    for k_ in range(1, maxlen + 1):
        for tup in itertools.product(_string.ascii_uppercase, repeat=k_):
            w = "".join(tup)
            if w in intrinsic_words:
                continue
            n_words += 1
            tok = "." + w + "."
            for name, rx in compiled_levels.items():
                if rx.match(tok) is not None:
                    claimed.setdefault(name, tok)
    for w in extra:
        for name, rx in compiled_levels.items():
            if rx.match("." + w + ".") is not None:
                claimed.setdefault(name, "." + w + ".")
    r.instances += 1
    r.ob(not claimed, "%d dotted words of up to %d letters that are not intrinsic operators: claimed by none of %s"
         % (n_words, maxlen, dotted_levels))
    for name, tok in sorted(claimed.items()):
        r.fail("%s|claims|%s" % (name, tok), "the operator regex %s accepts %r, which is not an intrinsic operator: a defined operator of "
               "that spelling is no longer a defined operator (it gets the precedence of this level, or the expression is refused)"
               % (name, tok), None)
    # (b) search behaviour on operator soup: mult_op never matches inside ** or //, power_op only **, concat_op only //
    k = 6 if tier == "thorough" else 5
    sigma = ["a", "*", "/", "=", "<", ">", " "]
    mult, _ = compiled(m, "mult_op")
    power, _ = compiled(m, "power_op")
    concat, _ = compiled(m, "concat_op")
    rel, _ = compiled(m, "rel_op")
    n = 0
    bad = {}
    for w in words(sigma, k):
        n += 1
        for mt in mult.finditer(w):
            i = mt.start()
            tok = mt.group().strip()
            ch = w[mt.start():mt.end()]
            pos = mt.start() + (len(ch) - len(ch.lstrip()))
            c = w[pos]
            if c == "*" and ((pos > 0 and w[pos - 1] == "*") or (pos + 1 < len(w) and w[pos + 1] == "*")):
                bad.setdefault("mult-in-power", w)
            # ('/=' cannot reach this level: the looser rel_op level has split it off before mult_op is applied)
            if c == "/" and ((pos > 0 and w[pos - 1] == "/") or (pos + 1 < len(w) and w[pos + 1] == "/")):
                bad.setdefault("mult-in-concat", w)
        for mt in power.finditer(w):
            if mt.group().strip() != "**":
                bad.setdefault("power-token", w)
        for mt in concat.finditer(w):
            if mt.group().replace(" ", "") != "//":      # blanks inside '//' are legal in fixed form
                bad.setdefault("concat-token", w)
        for mt in rel.finditer(w):
            tok = mt.group().strip()
            e = mt.end()
            if tok in ("<", ">") and e < len(w) and w[e] == "=":
                bad.setdefault("rel-shortest", w)
            if tok in ("=",):
                bad.setdefault("rel-single-eq", w)
    r.instances += 1
    r.ob(not bad, "%d words over %s up to length %d: mult_op/power_op/concat_op/rel_op never split inside a longer operator" % (n, sigma, k))
    for key, w in bad.items():
        r.fail("soup|%s" % key, "on the operator text %r the %s obligation fails (an operator regex matches inside a longer operator)" % (w, key), None)
    # (c) non_defined_binary_op covers every intrinsic dotted operator and the logical literals
    nd = full(m, "non_defined_binary_op")
    r.instances += 1
    miss = []
    for name, toks in oracle.items():
        for t in toks:
            for v in (t, t.lower()):
                if nd.match(v) is None:
                    miss.append(v)
    for v in (".TRUE.", ".false.", ".true._lk"):
        if nd.match(v) is None:
            miss.append(v)
    r.ob(not miss, "non_defined_binary_op accepts all intrinsic operators and logical literals")
    if miss:
        r.fail("non_defined|%s" % miss[0], "non_defined_binary_op does not accept %s: Expr would take it for a defined binary operator, "
               "the loosest-binding level" % sorted(set(miss))[:4], None)
    return r


def r4_exponent(m):
    r = RuleResult("C03.R4", "exponent literals are atomic before operator splitting: the sign inside 1.0e-3 is never an operator")
    r.floor = 1
    ent = m.snap["module_globals"].get("fparser.common.splitline", {}).get("exponential_constant")
    if not ent or ent.get("kind") != "regex":
        r.error("splitline.exponential_constant vanished")
        return r
    rx = re.compile(ent["pattern"], ent["flags"])
    lits = []
    for mant in ("1", "12", "1.", "1.5", ".5", "12.25"):
        for e in "edED":
            for sign in ("", "+", "-"):
                for ex in ("3", "12"):
                    for kind in ("", "_8", "_dp"):
                        lits.append(mant + e + sign + ex + kind)
    bad = {}
    for lit in lits:
        for pre in ("", " ", "(", "+", "-", "*", "/", ",", "="):
            r.instances += 1
            mt = rx.search(pre + lit + " ")
            ok = mt is not None and mt.group(1) == lit
            r.ob(ok)
            if not ok:
                bad.setdefault("atomic|%s" % pre, (pre + lit, mt.group(1) if mt else None))
        for pre in ("a", "x1", "_", "9", "."):
            if pre == "9" or (pre == "." and lit[0] == "."):
                continue
            r.instances += 1
            mt = rx.search(pre + lit)
            ok = mt is None or mt.group(1) != lit
            if pre == ".":
                ok = mt is None or mt.start(1) > 0 and False or mt is None or mt.group(1) != lit
            r.ob(ok)
            if not ok:
                bad.setdefault("name-part|%s" % pre, (pre + lit, mt.group(1)))
    r.sample("%d literal/prefix combinations" % r.instances)
    for key, (text, got) in bad.items():
        r.fail("exponent|%s" % key, "on %r the exponent-literal regex captures %r: %s" % (
            text, got, "the literal is not protected and its sign would be split as an operator" if key.startswith("atomic")
            else "part of a name is taken for a literal"), None)
    return r


def r5_overlap(m):
    r = RuleResult("C03.R5", "a level's operator regex does not capture another level's token unless the engine retries after exclusion")
    r.floor = 1
    oracle = json.load(open(ORACLE))["operator_tokens"]
    inst = {i.name: i for i in tables.engine_instances(m, "BinaryOpBase")}.get("Expr")
    if inst is None:
        r.error("Expr.match vanished")
        return r
    op = vname(inst.args.get("op_pattern"))
    ex = vname(inst.args.get("exclude_op_pattern"))
    rx = full(m, op)
    foreign = [t for toks in oracle.values() for t in toks if t.startswith(".")] + [".TRUE.", ".FALSE."]
    captured = [t for t in foreign if rx.match(t)]
    r.instances += 1
    if not captured:
        r.ob(True, "%s captures no intrinsic dotted token" % op)
        return r
    # does the engine retry an earlier candidate when the rightmost is excluded?
    eng = m.method(m.key("BinaryOpBase", UTILS), "match")
    retries = any(isinstance(n, (ast.While, ast.For)) and any(isinstance(c, ast.Call) and isinstance(c.func, ast.Attribute) and
                  c.func.attr in ("rsplit", "lsplit") for c in ast.walk(n)) for n in A.body_nodes(eng.node))
    excluded_ok = ex is not None and all(full(m, ex).match(t) for t in captured)
    ok = excluded_ok and retries
    r.ob(ok, "%s also matches %s; exclude pattern %s rejects them: %s; engine retries an earlier candidate: %s" % (op, captured[:5], ex, excluded_ok, retries))
    if not ok:
        r.fail("Expr|overlap|%s" % op, "the defined-binary-operator regex also matches the intrinsic dotted tokens %s; the engine takes the single "
               "rightmost match and gives up when it is excluded, so `a .foo. b .and. c` (valid: defined operators bind loosest) is rejected"
               % captured[:6], m.loc(inst.func, inst.call))
    return r


def run(m, tier):
    from rules import engine_tables
    results = [r1_table(m), r2_engine(m), r3_regex(m, tier), r4_exponent(m), r5_overlap(m), engine_tables.unary_rule(m, "C03.R6"), engine_tables.pattern_split_rule(m, "C03.R7")]
    from rules import C02
    r8 = C02.r6_inverse_map(m)
    r8.rule = "C03.R8"
    r8.title = "operands hidden in parenthesised groups come back unchanged: the replace map and its inverse work per occurrence (shared with C02.R6)"
    for f in r8.findings:
        f.rule = "C03.R8"
    results.append(r8)
    results.append(engine_tables.binary_op_rule(m, "C03.R9"))
    from rules import reader_rules
    r10 = reader_rules.replace_map_table_rule(m, "C03.R10")
    r10.title = "no real literal with a signed exponent stays visible after string_replace_map (its sign would be split as an operator): " + r10.title
    results.append(r10)
    from rules import two_roundtrip
    results.append(two_roundtrip.expression_grouping_rule(m, "C03.R11"))
    expl = ("Decides structural clauses of C03: the 12-level expression table extracted from the match methods equals the standard's "
            "(operator, operand classes, split side, fall-through; Parenthesis wraps Expr under Primary); the generic binary engine, "
            "specialised for right=True/False, reaches a match only after the rightmost/leftmost split and builds each operand from its "
            "own side; every operator regex matches exactly its tokens, cannot match inside a longer operator (exhaustive over operator "
            "soup up to length 5/6), intrinsic dotted operators are excluded from defined operators; exponent literals are atomic (2592 "
            "literal/context pairs); nested parenthesised operands are restored occurrence by occurrence. Does NOT decide the parse of every individual string.")
    return results, expl
