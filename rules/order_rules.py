"""Ordering (must-pass-through) rules decided with the path-sensitive flow engine."""
import ast

from sa import astutil as A
from sa import flow as F
from sa.report import RuleResult

F03 = "fparser.two.Fortran2003"


class PassClient(F.Client):
    """$done becomes true at an event call; `sinks` reached with $done false are recorded."""
    track = {"$done"}

    def __init__(self, is_event, is_sink_call=None, event_raises=()):
        self.is_event = is_event
        self.is_sink_call = is_sink_call
        self.event_raises = event_raises
        self.bad = []

    def call_raises(self, call, st):
        if self.is_event(call):
            # the event has happened on the exceptional edge as well
            return tuple((e, st.set("$done", F.TRUE)) for e in self.event_raises)
        return ()

    def call_effect(self, call, st):
        if self.is_event(call):
            return (st.set("$done", F.TRUE),)
        if self.is_sink_call is not None and self.is_sink_call(call) and st.get("$done") != F.TRUE:
            self.bad.append(call)
        return (st,)

    def on_stmt(self, stmt, st):
        if isinstance(stmt, ast.Raise) and stmt.exc is not None and st.get("$done") != F.TRUE:
            self.bad.append(stmt)


def shadow_before_raise(m, rid):
    r = RuleResult(rid, "an intrinsic-arity error is only raised after the scope lookup found no symbol shadowing the intrinsic's name")
    r.floor = 1
    k = m.key("Intrinsic_Function_Reference", F03)
    f = m.method(k, "match")
    if f is None:
        r.error("Intrinsic_Function_Reference.match vanished")
        return r
    lookups = [c for c in A.calls(f.node) if isinstance(c.func, ast.Attribute) and c.func.attr == "lookup"]
    raises = [n for n in A.body_nodes(f.node) if isinstance(n, ast.Raise) and n.exc is not None]
    r.instances += 1
    if not lookups or not raises:
        r.error("Intrinsic_Function_Reference.match: %d scope lookups, %d raises (anchor changed)" % (len(lookups), len(raises)))
        return r
    cl = PassClient(lambda c: isinstance(c.func, ast.Attribute) and c.func.attr == "lookup", event_raises=("KeyError", "AttributeError"))
    fl = F.Flow(m, f, cl)
    fl.run(F.State({"$done": F.FALSE}))
    bad = []
    seen = set()
    for n in cl.bad:
        if id(n) not in seen:
            seen.add(id(n))
            bad.append(n)
    r.ob(not bad, "Intrinsic_Function_Reference.match: %d raise sites, %d lookup sites, every raise dominated by a lookup" % (len(raises), len(lookups)))
    if bad:
        r.fail("Intrinsic_Function_Reference.match|raise-before-shadow-lookup", "Intrinsic_Function_Reference.match can raise `%s` on a path "
               "that has not yet consulted the symbol table: a local array named like an intrinsic and referenced with a subscript count "
               "the intrinsic does not allow is a syntax error instead of a Part_Ref" % A.text(bad[0].exc if isinstance(bad[0], ast.Raise) else bad[0])[:50],
               m.loc(f, bad[0]))
    return r
