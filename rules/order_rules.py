"""Ordering (must-pass-through) rules decided with the path-sensitive flow engine."""
import ast

from sa import astutil as A
from sa import flow as F
from sa.report import RuleResult

F03 = "fparser.two.Fortran2003"


class PassClient(F.Client):
    """$done becomes true at an event call; `sinks` reached with $done false are recorded."""
    track = {"$done"}

    def __init__(self, is_event, is_sink_call=None, event_raises=()):
        self.is_event = is_event
        self.is_sink_call = is_sink_call
        self.event_raises = event_raises
        self.bad = []

    def call_raises(self, call, st):
        if self.is_event(call):
            # the event has happened on the exceptional edge as well
            return tuple((e, st.set("$done", F.TRUE)) for e in self.event_raises)
        return ()

    def call_effect(self, call, st):
        if self.is_event(call):
            return (st.set("$done", F.TRUE),)
        if self.is_sink_call is not None and self.is_sink_call(call) and st.get("$done") != F.TRUE:
            self.bad.append(call)
        return (st,)

    def on_stmt(self, stmt, st):
        if isinstance(stmt, ast.Raise) and stmt.exc is not None and st.get("$done") != F.TRUE:
            self.bad.append(stmt)


def shadow_before_raise(m, rid):
    r = RuleResult(rid, "an intrinsic-arity error is only raised after the scope lookup found no symbol shadowing the intrinsic's name")
    r.floor = 1
    k = m.key("Intrinsic_Function_Reference", F03)
    f = m.method(k, "match")
    if f is None:
        r.error("Intrinsic_Function_Reference.match vanished")
        return r
    lookups = [c for c in A.calls(f.node) if isinstance(c.func, ast.Attribute) and c.func.attr == "lookup"]
    raises = [n for n in A.body_nodes(f.node) if isinstance(n, ast.Raise) and n.exc is not None]
    r.instances += 1
    if not lookups or not raises:
        r.error("Intrinsic_Function_Reference.match: %d scope lookups, %d raises (anchor changed)" % (len(lookups), len(raises)))
        return r
    cl = PassClient(lambda c: isinstance(c.func, ast.Attribute) and c.func.attr == "lookup", event_raises=("KeyError", "AttributeError"))
    fl = F.Flow(m, f, cl)
    fl.run(F.State({"$done": F.FALSE}))
    bad = []
    seen = set()
    for n in cl.bad:
        if id(n) not in seen:
            seen.add(id(n))
            bad.append(n)
    r.ob(not bad, "Intrinsic_Function_Reference.match: %d raise sites, %d lookup sites, every raise dominated by a lookup" % (len(raises), len(lookups)))
    if bad:
        r.fail("Intrinsic_Function_Reference.match|raise-before-shadow-lookup", "Intrinsic_Function_Reference.match can raise `%s` on a path "
               "that has not yet consulted the symbol table: a local array named like an intrinsic and referenced with a subscript count "
               "the intrinsic does not allow is a syntax error instead of a Part_Ref" % A.text(bad[0].exc if isinstance(bad[0], ast.Raise) else bad[0])[:50],
               m.loc(f, bad[0]))
    return r


# =================================================================================================
# raising look-ups on the parsed text are guarded by a test that proves the needle is present
# =================================================================================================
def mandatory_literal_runs(pattern, flags):
    """Upper-cased runs of literal characters that every string matched by `pattern` must contain, in the top-level sequence."""
    import re
    from re import _parser as sp
    from re import _constants as sc
    tree = sp.parse(pattern, flags)
    runs, cur = [], []
    for op, av in tree:
        if op is sc.LITERAL:
            cur.append(chr(av))
        else:
            if cur:
                runs.append("".join(cur))
            cur = []
            if op is sc.SUBPATTERN and av[3] is not None:
                inner = av[3]
                if all(o is sc.LITERAL for o, _ in inner):
                    runs.append("".join(chr(a) for _, a in inner))
    if cur:
        runs.append("".join(cur))
    ci = bool(flags & re.I)
    return [r_.upper() if ci else r_ for r_ in runs], ci


def index_guard_rule(m, rid):
    r = RuleResult(rid, "str.index()/rindex() on the text being matched is only reached after a test that proves the needle is present "
                        "(otherwise garbage input escapes as ValueError instead of a syntax error)")
    r.floor = 2
    for (p, q), f in sorted(m.funcs.items()):
        if "/tests/" in p or "/two/" not in p:
            continue
        sites = [c for c in A.calls(f.node) if isinstance(c.func, ast.Attribute) and c.func.attr in ("index", "rindex")
                 and c.args and isinstance(A.const(c.args[0]), str)]
        if not sites:
            continue
        for c in sites:
            needle = A.const(c.args[0])
            recv = c.func.value
            upper = False
            if isinstance(recv, ast.Call) and isinstance(recv.func, ast.Attribute) and recv.func.attr in ("upper", "lower") and not recv.args:
                upper = recv.func.attr == "upper"
                var = A.text(recv.func.value)
            else:
                var = A.text(recv)
            r.instances += 1

            def is_guard(test, positive):
                """does `test` being true (positive) / false (not positive) prove that needle is in var?"""
                if isinstance(test, ast.UnaryOp) and isinstance(test.op, ast.Not):
                    return is_guard(test.operand, not positive)
                if isinstance(test, ast.Compare) and len(test.ops) == 1 and isinstance(test.ops[0], (ast.In, ast.NotIn)):
                    if A.const(test.left) == needle and A.text(test.comparators[0]) in (A.text(recv), var):
                        return positive == isinstance(test.ops[0], ast.In)
                    return False
                if isinstance(test, ast.Call) and isinstance(test.func, ast.Attribute) and test.func.attr in ("match", "search", "fullmatch") \
                        and test.args and A.text(test.args[0]) == var and positive:
                    pats = regex_of(m, f, test.func.value)
                    for pat, flags in pats:
                        runs, ci = mandatory_literal_runs(pat, flags)
                        nd = needle.upper() if ci else needle
                        if (ci and not upper and needle.upper() != needle.lower()):
                            continue        # case-insensitive guard, case-sensitive look-up
                        if any(nd in run for run in runs):
                            return True
                    return False
                return False

            cl = GuardClient(c, is_guard)
            fl = GuardFlow(m, f, cl)
            fl.run(F.State({"$has": F.FALSE}))
            ok = not cl.bad and cl.reached
            r.ob(ok, "%s: `%s` dominated by a guard proving %r is present" % (q, A.text(c)[:40], needle))
            if not cl.reached:
                r.error("%s: `%s` not reached by the flow engine" % (q, A.text(c)[:40]))
            elif cl.bad:
                r.fail("%s|unguarded-index|%s" % (q, needle), "%s: `%s` can be reached without any test proving that %r occurs in `%s`: for other "
                       "text str.index raises ValueError, which is not a syntax error and escapes the parser" % (q, A.text(c)[:40], needle, var),
                       m.loc(f, c))
    return r


def regex_of(m, f, node):
    """[(pattern, flags)] for an expression naming a compiled regex: Class._attr, self._attr/cls._attr, or a module global."""
    out = []
    if isinstance(node, ast.Attribute) and isinstance(node.value, ast.Name):
        owner = node.value.id
        keys = []
        if owner in ("self", "cls") and f.cls_node is not None:
            keys = [m.key(f.cls_node.name, f.module)]
        else:
            ck = m.class_of_name(f, owner)
            if ck:
                keys = [ck]
        for k in keys:
            for kk in m.classes[k]["mro"] if k in m.classes else []:
                ent = m.classes.get(kk, {}).get("own", {}).get(node.attr)
                if ent and ent.get("patterns"):
                    out += [(p_["pattern"], p_.get("flags", 0)) for p_ in ent["patterns"] if p_.get("kind") == "re"]
                    break
    return out


class GuardClient(F.Client):
    track = {"$has"}

    def __init__(self, site, is_guard):
        self.site = site
        self.is_guard = is_guard
        self.bad = []
        self.reached = False

    def call_effect(self, call, st):
        if call is self.site:
            self.reached = True
            if st.get("$has") != F.TRUE:
                self.bad.append(call)
        return (st,)


class GuardFlow(F.Flow):
    def split_leaf(self, test, st):
        if self.c.is_guard(test, True):
            return {st.set("$has", F.TRUE)}, {st}
        if self.c.is_guard(test, False):
            return {st}, {st.set("$has", F.TRUE)}
        return F.Flow.split_leaf(self, test, st)


# =================================================================================================
# contradiction rule: a protocol result tested for None at one site is not dereferenced unguarded at another
# =================================================================================================
def nullable_deref_rule(m, rid, funcs):
    r = RuleResult(rid, "a get_*() result that a function tests for None somewhere is never dereferenced there without such a test on the "
                        "same receiver (an unnamed opening statement gives None)")
    r.floor = 1
    for f in funcs:
        P = A.parents(f.node)
        believed = set()
        for n in A.body_nodes(f.node):
            if isinstance(n, ast.Compare) and len(n.ops) == 1 and isinstance(n.ops[0], (ast.Is, ast.IsNot)) and A.const(n.comparators[0], 1) is None \
                    and isinstance(n.left, ast.Call) and isinstance(n.left.func, ast.Attribute) and n.left.func.attr.startswith("get_"):
                believed.add(n.left.func.attr)
        # the same belief stated through a local: `v = x.get_name()` ... `v is None` / `v is not None`
        getter_of = {n.targets[0].id: n.value.func.attr for n in A.body_nodes(f.node)
                     if isinstance(n, ast.Assign) and len(n.targets) == 1 and isinstance(n.targets[0], ast.Name) and isinstance(n.value, ast.Call)
                     and isinstance(n.value.func, ast.Attribute) and n.value.func.attr.startswith("get_")}
        for n in A.body_nodes(f.node):
            if isinstance(n, ast.Compare) and len(n.ops) == 1 and isinstance(n.ops[0], (ast.Is, ast.IsNot)) and A.const(n.comparators[0], 1) is None \
                    and isinstance(n.left, ast.Name) and n.left.id in getter_of:
                believed.add(getter_of[n.left.id])
        nullable_vars = {}
        for n in A.body_nodes(f.node):
            if isinstance(n, ast.Assign) and len(n.targets) == 1 and isinstance(n.targets[0], ast.Name) and isinstance(n.value, ast.Call) \
                    and isinstance(n.value.func, ast.Attribute) and n.value.func.attr in believed:
                nullable_vars[n.targets[0].id] = n.value
        for n in A.body_nodes(f.node):
            if not isinstance(n, ast.Attribute) or not isinstance(n.ctx, ast.Load):
                continue
            if isinstance(n.value, ast.Call) and isinstance(n.value.func, ast.Attribute) and n.value.func.attr in believed:
                call = n.value
            elif isinstance(n.value, ast.Name) and n.value.id in nullable_vars:
                call = nullable_vars[n.value.id]
            else:
                continue
            subject = A.text(n.value)
            r.instances += 1
            proven = False
            x = n
            while x in P and not proven:
                p_ = P[x]
                pos, neg = [], []        # tests known true / known false where x is evaluated
                if isinstance(p_, ast.If):
                    if x in p_.body:
                        pos.append(p_.test)
                    elif x in p_.orelse:
                        neg.append(p_.test)
                elif isinstance(p_, ast.IfExp):
                    if x is p_.body:
                        pos.append(p_.test)
                    elif x is p_.orelse:
                        neg.append(p_.test)
                elif isinstance(p_, ast.BoolOp) and x in p_.values:
                    before = p_.values[:p_.values.index(x)]
                    if isinstance(p_.op, ast.And):
                        pos += before
                    else:
                        neg += before
                for t in pos:
                    for c in (t.values if isinstance(t, ast.BoolOp) and isinstance(t.op, ast.And) else [t]):
                        if isinstance(c, ast.Compare) and len(c.ops) == 1 and isinstance(c.ops[0], ast.IsNot) \
                                and A.const(c.comparators[0], 1) is None and A.text(c.left) == subject:
                            proven = True
                        if A.text(c) == subject:
                            proven = True
                for t in neg:
                    for c in (t.values if isinstance(t, ast.BoolOp) and isinstance(t.op, ast.Or) else [t]):
                        if isinstance(c, ast.Compare) and len(c.ops) == 1 and isinstance(c.ops[0], ast.Is) \
                                and A.const(c.comparators[0], 1) is None and A.text(c.left) == subject:
                            proven = True
                        if isinstance(c, ast.UnaryOp) and isinstance(c.op, ast.Not) and A.text(c.operand) == subject:
                            proven = True
                x = p_
            r.ob(proven, "%s: `%s` guarded" % (f.qualname, A.text(n)[:50]))
            if not proven:
                r.fail("%s|nullable-deref|%s" % (f.qualname, A.text(n)[:40]), "%s: `%s` is dereferenced without a test that `%s` is not None, although the "
                       "same function tests %s() for None elsewhere: for an unnamed opening statement (e.g. BLOCK DATA without a name "
                       "closed by END BLOCK DATA <name>) this is an AttributeError that escapes the parser"
                       % (f.qualname, A.text(n)[:50], subject[:40], call.func.attr), m.loc(f, n))
    return r


# =================================================================================================
# constructor options reach the base class: a subclass __init__ forwards every option it shares with the base __init__
# =================================================================================================
def option_forwarding_rule(m, rid, module="fparser.common.readfortran", base_name="FortranReaderBase"):
    r = RuleResult(rid, "every option a reader subclass accepts and the base reader also has (ignore_comments, include_omp_conditional_lines, "
                        "process_directives ...) is forwarded to the base constructor under its own name")
    r.floor = 6
    bk = m.key(base_name, module)
    binit = m.method(bk, "__init__")
    if binit is None:
        r.error("%s.__init__ vanished" % base_name)
        return r
    bparams = A.param_names(binit.node)[1:]
    for k, c in sorted(m.classes.items()):
        if c["module"] != module or k == bk or not m.issub(k, bk) or "__init__" not in c["own"]:
            continue
        f = m.method(k, "__init__")
        sparams = A.param_names(f.node)[1:]
        calls = [x for x in A.calls(f.node) if isinstance(x.func, ast.Attribute) and x.func.attr == "__init__"
                 and (A.text(x.func.value) in ("super()", base_name) or A.text(x.func.value).startswith("super("))]
        if len(calls) != 1:
            r.error("%s.__init__: %d calls of the base constructor" % (c["name"], len(calls)))
            continue
        call = calls[0]
        pos = list(call.args)
        if A.text(call.func.value) == base_name and pos:
            pos = pos[1:]       # explicit self
        bound = {}
        for i, a in enumerate(pos):
            if i < len(bparams):
                bound[bparams[i]] = a
        for kw in call.keywords:
            if kw.arg:
                bound[kw.arg] = kw.value
        for p_ in sparams:
            if p_ not in bparams:
                continue
            r.instances += 1
            arg = bound.get(p_)
            ok = arg is not None and p_ in {x.id for x in ast.walk(arg) if isinstance(x, ast.Name)}
            if not ok:
                # set afterwards on the instance?
                ok = any(isinstance(n, ast.Assign) and any(A.text(t) in ("self.%s" % p_, "self._%s" % p_) for t in n.targets)
                         and p_ in {x.id for x in ast.walk(n.value) if isinstance(x, ast.Name)} for n in A.body_nodes(f.node))
            r.ob(ok, "%s.__init__: `%s` forwarded" % (c["name"], p_))
            if not ok:
                r.fail("%s.__init__|not-forwarded|%s" % (c["name"], p_), "%s.__init__ accepts `%s` but does not pass it on to %s.__init__ (%s): "
                       "readers of that class silently run with the base default, whatever the caller asked for"
                       % (c["name"], p_, base_name, "passes `%s` instead" % A.text(arg)[:30] if arg is not None else "argument missing"), m.loc(f, call))
    return r


# =================================================================================================
# the reader: a line that may be None (end of input) is dereferenced only under a test, or the failure is absorbed
# =================================================================================================
class NullLineClient(F.Client):
    track = {"line"}

    def __init__(self):
        self.bad = []

    def call_raises(self, call, st):
        return ()

    def call_value(self, call, st):
        if A.text(call.func) in ("get_single_line", "self.get_single_line", "self.get_next_line", "get_next_line"):
            return frozenset([("c", None), ("truthy",), ("c", "")])
        return F.TOP

    def on_stmt(self, stmt, st):
        from rules import optional_rules as O
        from rules import delim_rules as D
        if ("c", None) not in st.get("line"):
            return
        for fld in ("value", "test", "iter"):
            root = getattr(stmt, fld, None)
            if not isinstance(root, ast.AST):
                continue
            P = A.parents(root)
            for n in ast.walk(root):
                if isinstance(n, (ast.Attribute, ast.Subscript)) and isinstance(n.value, ast.Name) and n.value.id == "line" \
                        and isinstance(n.ctx, ast.Load) and not O.proves_not_none(D.facts_at(root, n, P), "line"):
                    self.bad.append((n, stmt))


def reader_none_rule(m, rid):
    RF_ = "fparser.common.readfortran"
    r = RuleResult(rid, "where the reader dereferences a line that may be None (end of input reached inside a continuation), the resulting "
                        "AttributeError is absorbed by the handler around item construction in next() -- it never escapes the parser")
    r.floor = 1
    k = m.key("FortranReaderBase", RF_)
    sites = []
    for name in ("get_source_item", "get_single_line", "get_next_line", "_next", "handle_multilines"):
        f = m.method(k, name)
        if f is None:
            continue
        cl = NullLineClient()
        F.Flow(m, f, cl).run(F.State({}))
        seen = set()
        for n, stmt in cl.bad:
            key = (n.lineno, A.text(n))
            if key not in seen:
                seen.add(key)
                sites.append((f, n, stmt))
    nx = m.method(k, "next")
    caught = set()
    for n in A.body_nodes(nx.node):
        if isinstance(n, ast.Try) and any(A.text(c.func) in ("self._next",) for s_ in n.body for c in ast.walk(s_) if isinstance(c, ast.Call)):
            for h in n.handlers:
                if h.type is None:
                    caught.add("BaseException")
                elif isinstance(h.type, ast.Tuple):
                    caught |= {A.text(e) for e in h.type.elts}
                else:
                    caught.add(A.text(h.type))
    covers = bool(caught & {"Exception", "BaseException", "AttributeError"})
    r.notes.append("possible None dereferences in the reader: %s; next() catches %s" % (
        ["%s:%s" % (f.qualname.split(".")[-1], A.text(n)[:30]) for f, n, s_ in sites], sorted(caught)))
    for f, n, stmt in sites:
        r.instances += 1
        r.ob(covers, "%s: `%s` may be None.%s -- absorbed by next()" % (f.qualname, A.text(n.value), getattr(n, "attr", "[]")))
        if not covers:
            r.fail("%s|none-deref|%s" % (f.qualname, A.text(n)[:30]), "%s dereferences `%s` at `%s` although it can be None (the source ended inside a "
                   "backslash/continuation sequence), and next() no longer absorbs the AttributeError (it catches %s): the exception "
                   "escapes from the parser" % (f.qualname, A.text(n.value), A.text(stmt)[:50], sorted(caught)), m.loc(f, n))
    if not sites:
        r.instances += 1
        r.ob(True, "no dereference of a possibly-None line in the reader")
    return r


def inverse_map_lookup_rule(m, rid):
    r = RuleResult(rid, "the inverse replace map substitutes only keys it holds (text that merely looks like a placeholder is left alone): every "
                        "`self[key]` is under `key in self`")
    r.floor = 1
    from rules import delim_rules as D
    k = m.key("StringReplaceDict", "fparser.common.splitline")
    f = m.method(k, "__call__")
    if f is None:
        r.error("StringReplaceDict.__call__ vanished")
        return r
    P = A.parents(f.node)
    subs = [n for n in ast.walk(f.node) if isinstance(n, ast.Subscript) and A.text(n.value) == "self" and isinstance(n.ctx, ast.Load)]
    if not subs and not any(isinstance(c, ast.Call) and A.text(c.func) in ("self.get",) for c in ast.walk(f.node)):
        r.error("StringReplaceDict.__call__: no lookup in the map found (anchor changed)")
        return r
    for n in subs:
        r.instances += 1
        key = A.text(n.slice)
        facts = []
        for t, pol in D.facts_at(f.node, n, P):
            facts += D.expand(t, pol)
        ok = any(pol and isinstance(t, ast.Compare) and len(t.ops) == 1 and isinstance(t.ops[0], ast.In) and A.text(t.left) == key
                 and A.text(t.comparators[0]) == "self" for t, pol in facts)
        r.ob(ok, "StringReplaceDict.__call__: `%s` under `%s in self`" % (A.text(n), key))
        if not ok:
            r.fail("StringReplaceDict.__call__|unguarded-lookup", "StringReplaceDict.__call__ looks up `%s` without testing that the key is in the map: "
                   "source text that merely looks like a placeholder (a variable named F2PY_EXPR_TUPLE_5) raises KeyError, which escapes the "
                   "parser" % A.text(n), m.loc(f, n))
    # the same where the map is built: symbols FOUND in the text (findall) are looked up only when they are keys
    g = m.need_func("fparser.common.splitline", "string_replace_map")
    Pg = A.parents(g.node)
    found_vars = {}
    for n in A.body_nodes(g.node):
        if isinstance(n, ast.Assign) and isinstance(n.value, ast.Call) and "findall" in A.text(n.value.func):
            for t in n.targets:
                if isinstance(t, ast.Name):
                    found_vars[t.id] = n
    loop_vars = {}
    for n in A.body_nodes(g.node):
        if isinstance(n, ast.For) and isinstance(n.target, ast.Name):
            it = n.iter
            if (isinstance(it, ast.Name) and it.id in found_vars) or (isinstance(it, ast.Call) and "findall" in A.text(it.func)) or \
                    (isinstance(it, ast.Call) and A.dotted(it.func) in ("set", "sorted") and it.args and isinstance(it.args[0], ast.Name) and it.args[0].id in found_vars):
                loop_vars[n.target.id] = n
    for n in A.body_nodes(g.node):
        if isinstance(n, ast.Subscript) and isinstance(n.ctx, ast.Load) and isinstance(n.slice, ast.Name) and n.slice.id in loop_vars:
            r.instances += 1
            key, mp = n.slice.id, A.text(n.value)
            facts = []
            for t, pol in D.facts_at(g.node, n, Pg):
                facts += D.expand(t, pol)
            ok = any(isinstance(t, ast.Compare) and len(t.ops) == 1 and A.text(t.left) == key and A.text(t.comparators[0]) == mp and
                     ((isinstance(t.ops[0], ast.In) and pol) or (isinstance(t.ops[0], ast.NotIn) and not pol)) for t, pol in facts)
            r.ob(ok, "string_replace_map: `%s` under `%s in %s`" % (A.text(n), key, mp))
            if not ok:
                r.fail("string_replace_map|unguarded-lookup|%s" % key, "string_replace_map looks up `%s` for every placeholder-like symbol found in a "
                       "parenthesised group without testing that it is a key of the map: `x = (F2PY_EXPR_TUPLE_9 + 1)` (a legal identifier) raises "
                       "KeyError, which escapes the parser" % A.text(n), m.loc(g, n))
    return r


# =================================================================================================
# SymbolTables.remove: inside a scope, the child of the current scope is tried before the top-level tables
# =================================================================================================
class RemoveOrderClient(F.Client):
    track = {"$tried", "@scope"}
    attr_vars = {"self._current_scope": "@scope"}

    def __init__(self):
        self.bad = []

    def call_raises(self, call, st):
        if A.text(call.func).endswith(".del_child"):
            return (("KeyError", st.set("$tried", F.TRUE)),)
        return ()

    def call_effect(self, call, st):
        if A.text(call.func).endswith(".del_child"):
            return (st.set("$tried", F.TRUE),)
        return (st,)

    def on_stmt(self, stmt, st):
        if st.get("$tried") == F.TRUE:
            return
        t, f_ = F.Flow.truth_vals(st.get("@scope"))
        if not t:
            return          # not inside a scope: the top-level tables are the only place to look
        for fld in ("value", "test", "targets"):
            v = getattr(stmt, fld, None)
            for root in (v if isinstance(v, list) else [v]):
                if isinstance(root, ast.AST) and any(isinstance(x, ast.Attribute) and A.text(x) == "self._symbol_tables" for x in ast.walk(root)):
                    self.bad.append(stmt)


class RemoveOrderFlow(F.Flow):
    def split_leaf(self, test, st):
        if isinstance(test, ast.Attribute) and A.dotted(test) in self.c.attr_vars:
            name = self.c.attr_vars[A.dotted(test)]
            t, f_ = self.truth_vals(st.get(name))
            ts = {st.set(name, F.TRUTHY)} if t else set()
            fs = {st.set(name, F.FALSY)} if f_ else set()
            return ts, fs
        return F.Flow.split_leaf(self, test, st)


def remove_priority_rule(m, rid):
    r = RuleResult(rid, "SymbolTables.remove looks among the children of the current scope before the top-level tables (a nested unit that "
                        "failed to match must not delete an unrelated top-level table of the same name left by an earlier parse)")
    r.floor = 1
    k = m.key("SymbolTables", "fparser.two.symbol_table")
    f = m.method(k, "remove")
    if f is None:
        r.error("SymbolTables.remove vanished")
        return r
    if not any(A.text(c.func).endswith(".del_child") for c in A.calls(f.node)):
        r.error("SymbolTables.remove no longer tries the children of the current scope (anchor changed)")
        return r
    cl = RemoveOrderClient()
    fl = RemoveOrderFlow(m, f, cl)
    fl.run(F.State({"$tried": F.FALSE, "@scope": F.TOP}))
    r.instances += 1
    bad = cl.bad[:1]
    r.ob(not bad, "SymbolTables.remove: inside a scope every access to the top-level tables is preceded by del_child on the current scope")
    if bad:
        r.fail("SymbolTables.remove|top-level-first", "SymbolTables.remove consults the top-level tables (`%s`) while a scope is current and before "
               "trying that scope's children: cleaning up after a nested unit that failed to match deletes an unrelated top-level table of the "
               "same name" % A.text(bad[0])[:60], m.loc(f, bad[0]))
    return r


# ---------------------------------------------------------------------------------------------------------------
# shared mutable state: an instance attribute that is changed in place must be bound to an object of the instance's own
MUTATORS = {"append", "insert", "extend", "pop", "remove", "clear", "update", "add", "discard", "appendleft", "extendleft", "popleft",
            "sort", "reverse", "setdefault", "popitem"}
FRESH_CALLS = {"list", "dict", "set", "deque", "OrderedDict", "defaultdict", "collections.deque", "collections.OrderedDict",
               "collections.defaultdict"}


def _is_mutable_display(node):
    if isinstance(node, (ast.List, ast.Dict, ast.Set, ast.ListComp, ast.DictComp, ast.SetComp)):
        return True
    return isinstance(node, ast.Call) and A.text(node.func) in FRESH_CALLS


def _self_attr(node):
    if isinstance(node, ast.Attribute) and isinstance(node.value, ast.Name) and node.value.id == "self":
        return node.attr
    return None


def shared_state_scan(trees):
    """trees: {label: ast.Module}.  Returns (obligations, findings): every `self.X = E` in a class in whose family (ancestors and
    descendants, by base name) `self.X` is changed in place; a finding when E is an object that outlives the instance: a module-level or
    class-level mutable, or a parameter's mutable default."""
    classes = {}       # name -> [(label, ClassDef)]
    for label, tree in trees.items():
        for n in ast.walk(tree):
            if isinstance(n, ast.ClassDef):
                classes.setdefault(n.name, []).append((label, n))
    parents = {name: {A.text(b).split(".")[-1] for (_, c) in lst for b in c.bases} for name, lst in classes.items()}
    children = {}
    for name, ps in parents.items():
        for p in ps:
            children.setdefault(p, set()).add(name)

    def closure(name, rel):
        seen, todo = set(), [name]
        while todo:
            x = todo.pop()
            for y in rel.get(x, ()):
                if y not in seen:
                    seen.add(y)
                    todo.append(y)
        return seen

    mutated = {}       # class name -> {attr: [node]}
    assigns = {}       # class name -> [(label, func, attr, value node, stmt)]
    for name, lst in classes.items():
        for label, c in lst:
            for f in c.body:
                if not isinstance(f, (ast.FunctionDef, ast.AsyncFunctionDef)):
                    continue
                for n in ast.walk(f):
                    if isinstance(n, ast.Call) and isinstance(n.func, ast.Attribute) and n.func.attr in MUTATORS:
                        a = _self_attr(n.func.value)
                        if a:
                            mutated.setdefault(name, {}).setdefault(a, []).append(n)
                    elif isinstance(n, (ast.Assign, ast.AugAssign, ast.Delete)):
                        tg = n.targets if not isinstance(n, ast.AugAssign) else [n.target]
                        for t in tg:
                            if isinstance(t, ast.Subscript) and _self_attr(t.value):
                                mutated.setdefault(name, {}).setdefault(_self_attr(t.value), []).append(n)
                            if isinstance(n, ast.AugAssign) and _self_attr(t):
                                mutated.setdefault(name, {}).setdefault(_self_attr(t), []).append(n)
                    if isinstance(n, ast.Assign) and len(n.targets) == 1 and _self_attr(n.targets[0]):
                        assigns.setdefault(name, []).append((label, c, f, _self_attr(n.targets[0]), n.value, n))
    modlevel = {}      # label -> {name: node} of module-level mutables
    for label, tree in trees.items():
        d = {}
        for n in tree.body:
            if isinstance(n, ast.Assign) and len(n.targets) == 1 and isinstance(n.targets[0], ast.Name) and _is_mutable_display(n.value):
                d[n.targets[0].id] = n
        modlevel[label] = d
    obligations, findings = [], []
    for name, lst in assigns.items():
        family = {name} | closure(name, parents) | closure(name, children)
        for label, c, f, attr, val, stmt in lst:
            sites = [s for k in family for s in mutated.get(k, {}).get(attr, ())]
            if not sites:
                continue
            obligations.append((label, name, f.name, attr, stmt))
            why = None
            if isinstance(val, ast.Name):
                params = dict(A.param_defaults(f))
                if val.id in params and params[val.id] is not None and _is_mutable_display(params[val.id]):
                    why = "the mutable default value of parameter `%s` (one object for all calls)" % val.id
                elif val.id in modlevel[label] and not any(isinstance(x, ast.Name) and x.id == val.id and isinstance(x.ctx, ast.Store)
                                                           for x in ast.walk(f)) and val.id not in A.param_names(f):
                    why = "the module-level object `%s` (one object for all instances)" % val.id
            elif isinstance(val, ast.Attribute) and isinstance(val.value, ast.Name):
                owner = val.value.id
                cands = [c] if owner in ("self", "cls") else [cc for (_, cc) in classes.get(owner, ())]
                if owner in ("self", "cls"):
                    cands = [cc for k in ({name} | closure(name, parents)) for (_, cc) in classes.get(k, ())]
                for cc in cands:
                    for b in cc.body:
                        if isinstance(b, ast.Assign) and len(b.targets) == 1 and isinstance(b.targets[0], ast.Name) \
                                and b.targets[0].id == val.attr and _is_mutable_display(b.value) and (owner != "self" or val.attr != attr):
                            why = "the class-level object `%s.%s` (one object for all instances)" % (cc.name, val.attr)
            if why:
                findings.append((label, name, f.name, attr, stmt, why, sites[0]))
    return obligations, findings


_SHARED_POSITIVE = '''
_DEFAULT = ["."]
class R:
    def __init__(self, dirs=[]):
        self.include_dirs = _DEFAULT
        self.other = dirs
        self.fresh = ["."]
class S(R):
    def go(self, d):
        self.include_dirs.insert(0, d)
        self.other.append(d)
        self.fresh.append(d)
'''


def shared_state_rule(m, rid, modules=None, floor=20):
    r = RuleResult(rid, "an instance attribute that is changed in place (append/insert/[]=...) by its class family is never bound to a "
                   "module-level or class-level mutable object or to a mutable parameter default: no state leaks from one reader/parser "
                   "object into the next")
    ob, fi = shared_state_scan({"<positive>": ast.parse(_SHARED_POSITIVE)})
    if len(ob) != 3 or sorted(x[3] for x in fi) != ["include_dirs", "other"]:
        r.error("the positive example is no longer recognised (%d obligations, findings %s)" % (len(ob), [x[3] for x in fi]))
        return r
    trees = {path: tree for path, (_, tree) in m.files.items() if modules is None or any(m.modname[path].startswith(p) for p in modules)}
    ob, fi = shared_state_scan(trees)
    r.floor = floor
    for path, cname, fname, attr, stmt in ob:
        r.instances += 1
        r.ob(True, "%s.%s: self.%s = %s" % (cname, fname, attr, A.text(stmt.value)[:40]))
    for path, cname, fname, attr, stmt, why, site in fi:
        r.fail("%s.%s|shared-state|%s" % (cname, fname, attr), "%s.%s binds self.%s to %s, and `%s` (line %d) changes it in place: what one "
               "object adds is seen by every later one (e.g. include directories of an earlier file, entries of an earlier parse)"
               % (cname, fname, attr, why, A.text(site)[:50], site.lineno), "%s:%s" % (m.rel(path), stmt.lineno))
    return r


# ---------------------------------------------------------------------------------------------------------------
# memoisation: a memoised function must be a function of its arguments
IMPURE_NAMES = {"open", "input"}
IMPURE_ATTRS = {"read", "readline", "readlines", "seek", "tell", "listdir", "exists", "isfile", "isdir", "getmtime", "stat", "glob", "walk"}


def _memo_kind(f, module_mutables):
    for d in f.decorator_list:
        t = A.text(d)
        if "lru_cache" in t or t.split("(")[0].split(".")[-1] in ("cache", "cached_property", "memoize", "memoise"):
            return "decorator @%s" % t.split("(")[0]
    for name, default in A.param_defaults(f).items():
        if isinstance(default, ast.Dict) or (isinstance(default, ast.Call) and A.text(default.func) == "dict"):
            if any(isinstance(n, ast.Assign) and any(isinstance(t, ast.Subscript) and isinstance(t.value, ast.Name) and t.value.id == name
                                                      for t in n.targets) for n in ast.walk(f)):
                return "mutable default `%s={}` filled by the function" % name
    stores = {t.value.id for n in ast.walk(f) if isinstance(n, ast.Assign) for t in n.targets
              if isinstance(t, ast.Subscript) and isinstance(t.value, ast.Name) and t.value.id in module_mutables}
    loads = {n.value.value.id for n in ast.walk(f) if isinstance(n, ast.Return) and isinstance(n.value, ast.Subscript)
             and isinstance(n.value.value, ast.Name)}
    for nm in sorted(stores & loads):
        return "module-level table `%s` filled and returned from" % nm
    return None


def memo_scan(tree, state_attrs=(), state_names=()):
    """(functions scanned, [(func node, memo kind, impure call node)]) for one module: memoised functions that (through calls to functions
    of the same module) read the outside world."""
    funcs = {}
    for n in ast.walk(tree):
        if isinstance(n, (ast.FunctionDef, ast.AsyncFunctionDef)):
            funcs.setdefault(n.name, []).append(n)
    mutables = {n.targets[0].id for n in tree.body if isinstance(n, ast.Assign) and len(n.targets) == 1
                and isinstance(n.targets[0], ast.Name) and _is_mutable_display(n.value)}

    def impure(f, seen):
        if id(f) in seen:
            return None
        seen.add(id(f))
        for n in ast.walk(f):
            if isinstance(n, ast.Call):
                if isinstance(n.func, ast.Name) and n.func.id in IMPURE_NAMES:
                    return n
                if isinstance(n.func, ast.Attribute) and n.func.attr in IMPURE_ATTRS:
                    return n
                if isinstance(n.func, ast.Attribute) and n.func.attr == "open" and A.text(n.func.value) in ("io", "os", "codecs"):
                    return n
            # state that changes between calls (the rule registry, the symbol tables ...)
            if isinstance(n, ast.Attribute) and n.attr in state_attrs and isinstance(n.ctx, ast.Load):
                return n
            if isinstance(n, ast.Name) and n.id in state_names and isinstance(n.ctx, ast.Load):
                return n
        for n in ast.walk(f):
            if isinstance(n, ast.Call):
                nm = n.func.id if isinstance(n.func, ast.Name) else (n.func.attr if isinstance(n.func, ast.Attribute) and
                                                                      isinstance(n.func.value, ast.Name) and n.func.value.id in ("self", "cls") else None)
                for g in funcs.get(nm, ()):
                    hit = impure(g, seen)
                    if hit is not None:
                        return hit
        return None

    out = []
    n_funcs = 0
    for lst in funcs.values():
        for f in lst:
            n_funcs += 1
            kind = _memo_kind(f, mutables)
            if kind:
                out.append((f, kind, impure(f, set())))
    return n_funcs, out


_MEMO_POSITIVE = '''
import functools
_T = {}
@functools.lru_cache(maxsize=8)
def a(name):
    return b(name)
def b(name):
    with open(name) as fh:
        return fh.read()
def c(name, _cache={}):
    if name in _cache:
        return _cache[name]
    _cache[name] = b(name)
    return _cache[name]
def d(name):
    if name not in _T:
        _T[name] = len(name)
    return _T[name]
'''


def memo_purity_rule(m, rid, modules, what, floor, state_attrs=(), state_names=()):
    r = RuleResult(rid, "no memoised function (lru_cache/cache decorator, mutable-default table, module-level table) on the %s path reads "
                   "a file, the file system%s: %s" % (what[0], " or process-wide parser state (%s)" % ", ".join(list(state_attrs) + list(state_names))
                                                      if state_attrs or state_names else "", what[1]))
    n, hits = memo_scan(ast.parse(_MEMO_POSITIVE))
    got = sorted((f.name, imp is not None) for f, k, imp in hits)
    if got != [("a", True), ("c", True), ("d", False)]:
        r.error("the positive example is no longer recognised: %s" % got)
        return r
    r.floor = floor
    for path, (_, tree) in sorted(m.files.items()):
        if not any(m.modname[path] == x or m.modname[path].startswith(x + ".") for x in modules):
            continue
        n, hits = memo_scan(tree, state_attrs, state_names)
        r.instances += n
        for f, kind, imp in hits:
            r.ob(imp is None, "%s.%s memoised (%s), pure" % (m.modname[path], f.name, kind))
            if imp is not None:
                r.fail("%s.%s|memoised-io" % (m.modname[path], f.name), "%s.%s is memoised (%s) but its result depends on state outside its "
                       "arguments (`%s`, line %d): the answer is remembered although that state (a file's content, the rule registry "
                       "rebuilt by ParserFactory.create ...) changes between two calls"
                       % (m.modname[path], f.name, kind, A.text(imp)[:50], imp.lineno), "%s:%s" % (m.rel(path), f.lineno))
    r.ob(True, "%d functions scanned" % r.instances)
    return r


# ---------------------------------------------------------------------------------------------------------------
# recording loops are total: every element of the iterated collection is recorded, none is skipped by break/return
def per_iteration(m, f, stmts, is_event):
    """One iteration of a loop body (or one branch of it): (ends, bad) where ends = number of ways the iteration ends and bad = list of
    (kind, node-or-None) for ends that leave the loop early or complete without the event call."""
    cl = PassClient(is_event)
    fl = F.Flow(m, f, cl)
    out = fl.block(stmts, {F.State({"$done": F.FALSE})}, None)
    bad = []
    ends = len(out.normal) + len(out.cont) + len(out.brk) + len(out.ret)
    for st in out.brk:
        bad.append(("break", None))
    for st, node in out.ret:
        bad.append(("return", node))
    for st in list(out.normal) + list(out.cont):
        if st.get("$done") != F.TRUE:
            bad.append(("skip", None))
    return ends, bad


def recording_loops_rule(m, rid):
    r = RuleResult(rid, "the loops that record declared entities and USE ... ONLY names in the scope's table are total: every iteration "
                   "reaches the recording call, none leaves the loop early (path-sensitive, per loop body / per isinstance branch); the "
                   "loop over the declared entities is reached under the three confirmed conditions only")
    r.floor = 4
    k = m.key("Type_Declaration_Stmt", F03)
    a = m.method(k, "add_to_symbol_table")
    if a is None:
        r.error("Type_Declaration_Stmt.add_to_symbol_table vanished")
        return r
    loops = [n for n in A.body_nodes(a.node) if isinstance(n, ast.For)
             and any(isinstance(c, ast.Call) and A.text(c.func).endswith("add_data_symbol") for c in ast.walk(n))]
    if len(loops) != 1:
        r.error("add_to_symbol_table: %d loops contain add_data_symbol (anchor changed)" % len(loops))
        return r
    r.instances += 1
    ends, bad = per_iteration(m, a, loops[0].body, lambda c: A.text(c.func).endswith("add_data_symbol"))
    r.ob(not bad and ends > 0, "add_to_symbol_table: %d iteration ends, all after add_data_symbol" % ends)
    if bad:
        kinds = sorted({b[0] for b in bad})
        r.fail("add_to_symbol_table|iteration|%s" % "+".join(kinds), "Type_Declaration_Stmt.add_to_symbol_table: an iteration over the declared "
               "entities can end (%s) without add_data_symbol: a declared name is then missing from the table of the scope that declares "
               "it (it may be visible from an outer scope or a used module, but it is this scope's own entity)" % ", ".join(kinds), m.loc(a, loops[0]))
    # ... and the loop is reached for every declaration of intrinsic type made inside a scope: the conditions in front of it are the
    # three confirmed by hand (a declaration was matched, there is a current scope, the type is intrinsic); nothing else -- an
    # attribute, the kind of entity -- filters what is recorded, and nothing leaves the function before the loop
    ALLOWED_GUARDS = {"result", "result is not None", "table", "table is not None", "isinstance(result[0], Intrinsic_Type_Spec)",
                      "table and isinstance(result[0], Intrinsic_Type_Spec)"}
    r.instances += 1
    P_ = A.parents(a.node)
    import re as _re
    tv = "table"
    for n in A.body_nodes(a.node):
        if isinstance(n, ast.Assign) and len(n.targets) == 1 and isinstance(n.targets[0], ast.Name) and A.text(n.value) == "SYMBOL_TABLES.current_scope":
            tv = n.targets[0].id

    def norm_guard(t):
        return _re.sub(r"\b%s\b" % _re.escape(tv), "table", t)
    loop0 = [n for n in A.body_nodes(a.node) if isinstance(n, ast.For)
             and any(isinstance(c, ast.Call) and A.text(c.func).endswith("add_data_symbol") for c in ast.walk(n))][0]
    extra = []
    x = loop0
    while x in P_ and P_[x] is not a.node:
        p_ = P_[x]
        if isinstance(p_, ast.If):
            if x in p_.orelse:
                extra.append((p_, "not (%s)" % A.text(p_.test)))
            elif norm_guard(A.text(p_.test)) not in ALLOWED_GUARDS:
                extra.append((p_, A.text(p_.test)))
        elif not isinstance(p_, (ast.FunctionDef,)):
            extra.append((p_, type(p_).__name__))
        x = p_
    for n in A.body_nodes(a.node):
        if isinstance(n, (ast.Return, ast.Raise)) and n.lineno < loop0.lineno:
            extra.append((n, "an early `%s`" % A.text(n)[:30]))
    r.ob(not extra, "add_to_symbol_table: the recording loop is reached whenever a declaration of intrinsic type is matched inside a scope")
    if extra:
        r.fail("add_to_symbol_table|filter|%s" % extra[0][1][:40], "Type_Declaration_Stmt.add_to_symbol_table records the declared entities only "
               "under an additional condition (%s): declarations it filters out (by an attribute such as EXTERNAL, say) are missing "
               "from the scope's table, so a reference to such a name that is also an intrinsic is taken for the intrinsic"
               % extra[0][1][:80], m.loc(a, extra[0][0]))
    u = m.method(m.key("Use_Stmt", F03), "match")
    if u is None:
        r.error("Use_Stmt.match vanished")
        return r
    # the list the names are recorded in: what is appended to inside the loop over the ONLY list's children (whatever it is called)
    olist = "only_list"
    for n in A.body_nodes(u.node):
        if isinstance(n, ast.For) and A.text(n.iter).endswith(".children"):
            apps = [A.text(c.func.value) for c in ast.walk(n) if isinstance(c, ast.Call) and isinstance(c.func, ast.Attribute)
                    and c.func.attr == "append" and isinstance(c.func.value, ast.Name)]
            if apps:
                olist = max(set(apps), key=apps.count)
    loops = [n for n in A.body_nodes(u.node) if isinstance(n, ast.For) and A.text(n.iter).endswith(".children")
             and any(isinstance(c, ast.Call) and A.text(c.func) == olist + ".append" for c in ast.walk(n))]
    if len(loops) != 1:
        r.error("Use_Stmt.match: %d loops over the only-list fill only_list (anchor changed)" % len(loops))
        return r
    loop = loops[0]
    var = A.text(loop.target)
    # early exits anywhere in the iteration
    r.instances += 1
    ends, bad = per_iteration(m, u, loop.body, lambda c: False)
    early = [b for b in bad if b[0] in ("break", "return")]
    r.ob(not early, "Use_Stmt.match: no iteration over the only-list leaves the loop (%d ends)" % ends)
    if early:
        r.fail("Use_Stmt.match|only-loop|early-exit", "Use_Stmt.match: an iteration over the ONLY list can leave the loop (%s): every name after "
               "that entry is missing from the scope's record of the module, so it no longer shadows an intrinsic of the same name"
               % ", ".join(sorted({b[0] for b in early})), m.loc(u, loop))
    # the Name and Rename branches record
    branches = {}
    for n in ast.walk(loop):
        if isinstance(n, ast.If) and isinstance(n.test, ast.Call) and A.text(n.test.func) == "isinstance" and len(n.test.args) == 2 \
                and A.text(n.test.args[0]) == var and isinstance(n.test.args[1], ast.Name):
            branches.setdefault(n.test.args[1].id, n)
    for cname in ("Name", "Rename"):
        r.instances += 1
        br = branches.get(cname)
        if br is None:
            r.ob(False)
            r.fail("Use_Stmt.match|only-loop|%s" % cname, "Use_Stmt.match: the ONLY-list loop has no branch for %s entries" % cname, m.loc(u, loop))
            continue
        body = br.body
        if cname == "Rename":
            # a rename of an operator (children[0] == 'OPERATOR') is deliberately not recorded (TODO #379 in the source): the obligation
            # is on the branch for a rename of a name
            stmts = A.strip_docstring(body)
            if len(stmts) == 1 and isinstance(stmts[0], ast.If):
                t = A.text(stmts[0].test)
                if t in ("not %s.children[0]" % var, "%s.children[0] is None" % var):
                    body = stmts[0].body
                elif t in ("%s.children[0]" % var, "%s.children[0] is not None" % var):
                    body = stmts[0].orelse
        ends, bad = per_iteration(m, u, body, lambda c: A.text(c.func) == olist + ".append")
        r.ob(not bad and ends > 0, "Use_Stmt.match: %s entries: %d ends, all after only_list.append" % (cname, ends))
        if bad:
            r.fail("Use_Stmt.match|only-loop|%s" % cname, "Use_Stmt.match: a %s entry of the ONLY list can be passed over without being added to "
                   "only_list (%s)" % (cname, ", ".join(sorted({b[0] for b in bad}))), m.loc(u, br))
    return r


# ---------------------------------------------------------------------------------------------------------------
# who may raise StopIteration below Program.match: its handler takes StopIteration for "the source is exhausted"
def eof_probe_rule(m, rid):
    r = RuleResult(rid, "inside the parser only Program.match's end-of-input probe calls reader.next(); every matcher reads through "
                        "reader.get_item(), which answers None at the end: a StopIteration raised below Program.match would be taken for the "
                        "normal end of the source and the construct that was still open would be dropped without an error")
    r.floor = 4
    probes = 0
    for (path, q), f in sorted(m.funcs.items()):
        if not f.module.startswith("fparser.two"):
            continue
        for n in A.body_nodes(f.node):
            hit = None
            if isinstance(n, ast.Call):
                if isinstance(n.func, ast.Attribute) and n.func.attr in ("next", "__next__") and not (isinstance(n.func.value, ast.Name) and n.func.value.id in ("re",)):
                    hit = A.text(n)[:50]
                elif isinstance(n.func, ast.Name) and n.func.id == "next" and len(n.args) == 1:
                    hit = A.text(n)[:50]
                elif isinstance(n.func, ast.Attribute) and n.func.attr == "get_item":
                    r.instances += 1
            elif isinstance(n, ast.Raise) and n.exc is not None and A.text(n.exc).startswith("StopIteration"):
                hit = A.text(n)[:50]
            if hit is None:
                continue
            r.instances += 1
            ok = (f.module, q) == (F03, "Program.match")
            if ok:
                probes += 1
                # the probe must sit in a try whose handler catches StopIteration, and be followed by put_item
                ok = any(isinstance(t, ast.Try) and any(h.type is not None and "StopIteration" in A.text(h.type) for h in t.handlers)
                         and any(x is n for x in ast.walk(t)) for t in A.body_nodes(f.node))
            r.ob(ok, "%s.%s: %s" % (f.module, q, hit))
            if not ok:
                r.fail("%s:%s|stop-iteration" % (f.module, q), "%s.%s calls `%s`, which raises StopIteration at the end of the source: Program.match "
                       "catches StopIteration as 'no more lines' and returns what it has, so an unterminated construct or program unit that "
                       "reaches the end of the file is accepted (use reader.get_item(), which returns None there)" % (f.module, q, hit), m.loc(f, n))
    if probes != 1:
        r.error("Program.match has %d end-of-input probes (expected exactly 1; anchor changed)" % probes)
    return r


# ---------------------------------------------------------------------------------------------------------------
# definite None dereference (path-sensitive): `x.attr` / `x[i]` reached in a state where x is exactly None
class _NoneClient(F.Client):
    track = None

    def __init__(self, track=None):
        self.track = track
        self.hits = []

    def on_stmt(self, stmt, st):
        for n in ast.walk(stmt):
            if isinstance(n, (ast.Attribute, ast.Subscript)) and isinstance(n.ctx, ast.Load) and isinstance(n.value, ast.Name) \
                    and st.get(n.value.id) == F.NONE:
                self.hits.append(n)


NONE_DEREF_EXCEPTIONS = {
    # (qualname, variable): reason -- a correlation between two tests that the path analysis cannot see, confirmed by reading
    ("Use_Stmt.match", "only_list"): "result[4] is an Only_List only when result[3] is ', ONLY:' (Use_Stmt._match returns them together), "
                                     "and only_list is set to [] exactly then",
}


def definite_none_rule(m, rid, prefixes=("fparser.two", "fparser.common.readfortran")):
    from sa.model import AnalysisError
    r = RuleResult(rid, "no statement dereferences a variable on a path on which it is None for certain (e.g. a clean-up loop that uses the "
                        "variable tested `is None` just before instead of its loop variable): such a path ends in AttributeError/TypeError "
                        "instead of a match, no-match or syntax error")
    r.floor = 30
    seen_exc = set()
    for (path, q), f in sorted(m.funcs.items()):
        if not f.module.startswith(prefixes):
            continue
        names_none = set()
        for n in A.body_nodes(f.node):
            if isinstance(n, ast.Assign) and A.const(n.value, 1) is None:
                names_none |= {t.id for t in n.targets if isinstance(t, ast.Name)}
            if isinstance(n, ast.Compare) and len(n.ops) == 1 and isinstance(n.ops[0], (ast.Is, ast.IsNot)) \
                    and A.const(n.comparators[0], 1) is None and isinstance(n.left, ast.Name):
                names_none.add(n.left.id)
        deref = {n.value.id for n in A.body_nodes(f.node) if isinstance(n, (ast.Attribute, ast.Subscript)) and isinstance(n.value, ast.Name)}
        cand = names_none & deref
        if not cand:
            continue
        r.instances += 1
        cl = _NoneClient()
        try:
            F.Flow(m, f, cl).run(F.State({}))
        except AnalysisError:
            cl = _NoneClient(set(cand))
            try:
                F.Flow(m, f, cl).run(F.State({}))
            except AnalysisError as err:
                r.undet("%s: %s" % (f.qualname, err))
                continue
        seen = set()
        bad = []
        for n in cl.hits:
            if id(n) in seen:
                continue
            seen.add(id(n))
            # the exception names a role, not a spelling: in that function, the local that is bound to None first and to an empty
            # list later (`only_list` as the tree stands)
            role = None
            if any(k[0] == f.qualname for k in NONE_DEREF_EXCEPTIONS):
                vals = [A.text(x.value) for x in A.body_nodes(f.node) if isinstance(x, ast.Assign) and len(x.targets) == 1
                        and isinstance(x.targets[0], ast.Name) and x.targets[0].id == n.value.id]
                if "None" in vals and "[]" in vals:
                    role = next(k for k in NONE_DEREF_EXCEPTIONS if k[0] == f.qualname)
            if role is not None:
                seen_exc.add(role)
                continue
            bad.append(n)
        r.ob(not bad, "%s: %s never dereferenced while None" % (f.qualname, sorted(cand)) if r.instances % 8 == 0 else None)
        for n in bad[:2]:
            r.fail("%s|none-deref|%s" % (f.qualname, n.value.id), "%s: `%s` is evaluated on a path on which `%s` is None (it was assigned or tested "
                   "None and not re-bound since): the parse ends in AttributeError/TypeError there instead of reporting no match or a syntax "
                   "error at the offending line" % (f.qualname, A.text(n)[:50], n.value.id), m.loc(f, n))
    for key in NONE_DEREF_EXCEPTIONS:
        if key not in seen_exc:
            r.notes.append("exception %s.%s no longer needed (table entry stale)" % key)
    return r


# ---------------------------------------------------------------------------------------------------------------
# give-back is last-in first-out: what was read from the reader last is handed back first
class LifoClient(F.Client):
    """$stack: tuple of the local names that currently hold something read from the reader and not yet kept, oldest first."""

    def __init__(self, keep):
        self.keep = keep                   # name of the list whose elements are kept (content)
        self.track = {"$stack"}
        self.bad = []

    @staticmethod
    def stack(st):
        v = st.get("$stack")
        for a in v:
            if a[0] == "c":
                return a[1]
        return ()

    def push(self, st, name):
        s = tuple(x for x in self.stack(st) if x != name) + (name,)
        return st.set("$stack", F.const(s))

    def drop(self, st, name):
        return st.set("$stack", F.const(tuple(x for x in self.stack(st) if x != name)))

    def restore(self, st, name, node):
        s = self.stack(st)
        if name in s and s[-1] != name:
            self.bad.append((node, name, s[-1]))
        return self.drop(st, name)

    def call_effect(self, call, st):
        fn = call.func
        d = A.dotted(fn) or ""
        if d.endswith("add_comments_includes_directives") and len(call.args) >= 2 and isinstance(call.args[0], ast.Name):
            if call.args[0].id != self.keep:
                return (self.push(st, call.args[0].id),)
            return (st,)
        if isinstance(fn, ast.Attribute) and fn.attr in ("append", "extend") and A.text(fn.value) == self.keep and call.args \
                and isinstance(call.args[0], ast.Name):
            return (self.drop(st, call.args[0].id),)
        if isinstance(fn, ast.Attribute) and fn.attr == "restore_reader" and isinstance(fn.value, ast.Name):
            return (self.restore(st, fn.value.id, call),)
        return (st,)


class LifoFlow(F.Flow):
    def stmt(self, s, states, cur_exc):
        c = self.c
        # for X in reversed(L): X.restore_reader(reader)   -- hands back the whole of L
        if isinstance(s, ast.For) and isinstance(s.iter, ast.Call) and A.dotted(s.iter.func) == "reversed" and s.iter.args \
                and isinstance(s.iter.args[0], ast.Name) and len(s.body) == 1 \
                and any(isinstance(n, ast.Call) and isinstance(n.func, ast.Attribute) and n.func.attr == "restore_reader"
                        and A.text(n.func.value) == A.text(s.target) for n in ast.walk(s.body[0])):
            out = F.Outcome()
            for st in states:
                out.normal.add(c.restore(st, s.iter.args[0].id, s))
            return out
        out = F.Flow.stmt(self, s, states, cur_exc)
        # X = Cls(reader): X now holds the most recently read object (None when nothing matched: then nothing is held)
        if isinstance(s, ast.Assign) and len(s.targets) == 1 and isinstance(s.targets[0], ast.Name) and isinstance(s.value, ast.Call) \
                and s.value.args and isinstance(s.value.args[0], ast.Name) and s.value.args[0].id == "reader" \
                and isinstance(s.value.func, ast.Name):
            out.normal = {c.push(st, s.targets[0].id) for st in out.normal}
        elif isinstance(s, ast.Assign) and len(s.targets) == 1 and isinstance(s.targets[0], ast.Name) and A.const(s.value, 1) is None:
            out.normal = {c.drop(st, s.targets[0].id) for st in out.normal}
        return out

    def split(self, test, st, out=None):
        a, b = F.Flow.split(self, test, st, out)
        # `if X is None` / `if X is not None` / `if not X`: on the branch where X is None it holds nothing
        name = None
        if isinstance(test, ast.Compare) and len(test.ops) == 1 and isinstance(test.left, ast.Name) and A.const(test.comparators[0], 1) is None:
            name, none_branch = test.left.id, ("t" if isinstance(test.ops[0], ast.Is) else "f")
        elif isinstance(test, ast.UnaryOp) and isinstance(test.op, ast.Not) and isinstance(test.operand, ast.Name):
            name, none_branch = test.operand.id, "t"
        elif isinstance(test, ast.Name):
            name, none_branch = test.id, "f"
        if name is not None:
            if none_branch == "t":
                a = {self.c.drop(s_, name) for s_ in a}
            else:
                b = {self.c.drop(s_, name) for s_ in b}
        return a, b


def lifo_restore_rule(m, rid):
    from sa.model import AnalysisError
    r = RuleResult(rid, "what a reader-level matcher reads ahead it hands back in reverse order (path-sensitive stack of the local names that "
                        "hold unread-back objects): restoring an earlier acquisition while a later one is still held puts the later one "
                        "in front of it, so comments/includes overtake or fall behind the statement they belong to")
    r.floor = 4
    for (path, q), f in sorted(m.funcs.items()):
        if not f.module.startswith("fparser.two") or "reader" not in A.param_names(f.node):
            continue
        if not any(isinstance(c, ast.Call) and isinstance(c.func, ast.Attribute) and c.func.attr == "restore_reader" for c in A.calls(f.node)):
            continue
        r.instances += 1
        # the list whose elements the matcher keeps: the one it returns (`return (content,)` / `return content, ...`)
        keep = "content"
        for ret in A.returns(f.node):
            v = ret.value
            if isinstance(v, ast.Tuple) and v.elts and isinstance(v.elts[0], ast.Name):
                keep = v.elts[0].id
                break
        cl = LifoClient(keep)
        try:
            LifoFlow(m, f, cl).run(F.State({"$stack": F.const(())}))
        except AnalysisError as err:
            r.undet("%s: %s" % (q, err))
            continue
        seen = set()
        bad = [b for b in cl.bad if not (id(b[0]) in seen or seen.add(id(b[0])))]
        r.ob(not bad, "%s: give-backs in reverse order of reading" % q)
        for node, name, top in bad[:2]:
            r.fail("%s|lifo|%s" % (q, name), "%s hands back `%s` while `%s`, which was read after it, is still held: `%s` then ends up in "
                   "front of `%s` in the reader's queue, i.e. the stream is re-read in a different order (a comment lands inside or after "
                   "the statement that followed it)" % (q, name, top, top, name), m.loc(f, node))
    return r


# ------------------------------------------------------------------------------------------------
# C09.R14: what the scope-owning block engine returned is final
# ------------------------------------------------------------------------------------------------
def engine_result_final_rule(m, rid):
    """BlockBase.match opens the scoping region of a program unit and, on success, leaves it with the symbol table kept; on failure
    (no match or an exception) it removes the table.  A matcher that receives a successful result and then turns it into a failure
    -- raises, or returns something else -- leaves the table of the rejected unit behind: the failed parse is visible to the next."""
    r = RuleResult(rid, "what the scope-owning block engine (BlockBase.match) returned is what its caller returns: after the call no "
                        "matcher raises or returns another value, unless it removes the symbol table first (a rejected unit must "
                        "not leave its table behind)")
    r.floor = 30
    for (p, q), f in sorted(m.funcs.items()):
        if "/tests/" in p or "/two/" not in p.replace("\\", "/"):
            continue
        calls = [c for c in A.calls(f.node) if A.text(c.func) == "BlockBase.match"]
        if not calls:
            continue
        P = A.parents(f.node)
        for c in calls:
            r.instances += 1
            holder = P.get(c)
            if isinstance(holder, ast.Return):
                r.ob(True, "%s returns the engine's result directly" % q if r.obligations % 10 == 0 else None)
                continue
            if not (isinstance(holder, ast.Assign) and len(holder.targets) == 1 and isinstance(holder.targets[0], ast.Name)):
                r.ob(False)
                r.fail("%s|engine-result|unbound" % q, "%s uses the result of BlockBase.match in `%s`: it is neither returned nor bound to a "
                       "name that is returned" % (q, A.text(holder)[:60]), m.loc(f, c))
                continue
            var = holder.targets[0].id
            # the try statements whose body holds the call: their handlers run when the engine itself failed (it cleaned up)
            own_handlers = set()
            x = c
            while x in P:
                p_ = P[x]
                if isinstance(p_, ast.Try) and any(x is b or any(x is y for y in ast.walk(b)) for b in p_.body):
                    for h in p_.handlers:
                        own_handlers.update(id(n) for n in ast.walk(h))
                x = p_
            bad = None
            # the statements control can reach after the call: the rest of its block, then (unless that rest ends in a return or
            # raise) the rest of the enclosing blocks
            after = []
            x = holder
            while x in P and not isinstance(x, (ast.FunctionDef, ast.AsyncFunctionDef)):
                blk = P[x]
                rest = []
                for field in ("body", "orelse", "finalbody"):
                    b = getattr(blk, field, None)
                    if isinstance(b, list) and x in b:
                        rest = b[b.index(x) + 1:]
                if isinstance(blk, ast.ExceptHandler) and x in blk.body:
                    rest = blk.body[blk.body.index(x) + 1:]
                after.extend(rest)
                if any(isinstance(s_, (ast.Return, ast.Raise)) for s_ in rest):
                    break
                x = blk
            for n in [y for s_ in after for y in ast.walk(s_)]:
                if id(n) in own_handlers:
                    continue
                if isinstance(n, ast.Raise):
                    bad = (n, "raises")
                elif isinstance(n, ast.Return) and not (isinstance(n.value, ast.Name) and n.value.id == var):
                    bad = (n, "returns `%s`" % (A.text(n.value) if n.value is not None else "None"))
                elif isinstance(n, ast.Assign) and any(isinstance(t, ast.Name) and t.id == var for t in n.targets):
                    bad = (n, "re-binds `%s`" % var)
                if bad:
                    # allowed when the table is removed before, in the same block
                    blk = P.get(bad[0])
                    sibs = []
                    for field in ("body", "orelse", "finalbody"):
                        b = getattr(blk, field, None)
                        if isinstance(b, list) and bad[0] in b:
                            sibs = b[:b.index(bad[0])]
                    if any("SYMBOL_TABLES.remove(" in A.text(s_) for s_ in sibs):
                        bad = None
                        continue
                    break
            r.ob(bad is None, "%s returns `%s` unchanged" % (q, var))
            if bad is not None:
                r.fail("%s|engine-result|%s" % (q, bad[1].split(" ")[0]), "%s %s after BlockBase.match has returned: on success the engine has "
                       "already left the scoping region and kept the unit's symbol table, so rejecting the unit now leaves that table "
                       "behind -- a later parse of a unit of the same name sees the declarations of the rejected one" % (q, bad[1]),
                       m.loc(f, bad[0]))
    return r


# ------------------------------------------------------------------------------------------------
# the parser takes items as the reader is configured to deliver them
# ------------------------------------------------------------------------------------------------
READER_TAKERS = ("get_item", "next", "get_single_line", "get_next_line", "get_source_item", "_next")


def _comment_override_sites(fnode):
    out = []
    for c in A.calls(fnode):
        if isinstance(c.func, ast.Attribute) and c.func.attr in READER_TAKERS:
            kw = [k for k in c.keywords if k.arg == "ignore_comments"]
            pos = c.args[0] if (c.func.attr in ("get_item", "next", "_next") and c.args) else None
            for v in [k.value for k in kw] + ([pos] if pos is not None else []):
                if not (isinstance(v, ast.Constant) and v.value is None):
                    out.append((c, A.text(v)))
    return out


def comment_option_owner_rule(m, rid):
    r = RuleResult(rid, "whether comments are delivered is the reader's option: no parser code (fparser.two) takes an item from the reader "
                        "with an ignore_comments argument of its own -- items skipped that way are gone, so with comments kept a "
                        "matcher that peeks with ignore_comments=True silently drops the comments in front of the statement it peeks at")
    sample = ast.parse("def match(reader):\n    item = reader.get_item(ignore_comments=True)\n    reader.put_item(item)\n").body[0]
    if len(_comment_override_sites(sample)) != 1:
        r.error("the detector no longer recognises its positive example")
        return r
    r.floor = 300
    for (p, q), f in sorted(m.funcs.items()):
        pp = p.replace("\\", "/")
        if "/tests/" in pp or "/two/" not in pp:
            continue
        r.instances += 1
        sites = _comment_override_sites(f.node)
        r.ob(not sites, ("%s takes items as the reader delivers them" % q) if r.obligations % 100 == 0 else None)
        for c, v in sites[:1]:
            r.fail("%s|comment-option|%s" % (q, A.text(c)[:40]), "%s takes an item from the reader with ignore_comments=%s (`%s`): the comment "
                   "items skipped by that call are never given back, so they vanish from the tree -- under one standard only, if the "
                   "matcher belongs to one grammar" % (q, v, A.text(c)[:60]), m.loc(f, c))
    return r


# ------------------------------------------------------------------------------------------------
# C06.R24: the class dispatch of Base.__new__ terminates when nothing matches
# ------------------------------------------------------------------------------------------------
def dispatch_terminates_rule(m, rid):
    """Base.__new__ is interpreted on synthetic rule classes whose matchers never match and whose registry entries refer back to
    classes already being tried (the shape of the 2008 classes Format_Item and Proc_Decl, which are registered under their own
    name): the outcome has to be NoMatchError, not an unbounded recursion."""
    from sa import pureeval as PE
    r = RuleResult(rid, "the class dispatch of Base.__new__ terminates: interpreted on synthetic rule classes that never match and "
                        "whose registered alternatives lead back to a class already being tried (a class registered under its own "
                        "name, two classes naming each other, a chain that closes), it ends in NoMatchError -- never in an "
                        "unbounded recursion, which would escape as RecursionError instead of a syntax error")
    r.floor = 4
    k = m.key("Base", "fparser.two.utils")
    f = m.method(k, "__new__") if k else None
    if f is None:
        r.error("Base.__new__ vanished")
        return r
    scenarios = [
        ("a class registered under its own name", {"A": ["A", "B"], "B": []}, "A"),
        ("two classes that name each other", {"A": ["B"], "B": ["A"]}, "A"),
        ("a chain of three that closes", {"A": ["B"], "B": ["C"], "C": ["A", "B"]}, "A"),
        ("own name behind another alternative, entered from a parent", {"P": ["A"], "A": ["B", "A"], "B": []}, "P"),
    ]
    for title, registry, start in scenarios:
        r.instances += 1
        depth = [0]
        deepest = [0]

        class Cls(PE.Obj):
            def __init__(self, name):
                PE.Obj.__init__(self, {"__name__": name, "match": lambda s: None})
                self.name = name

            def __call__(self, string, parent_cls=None, _deepcopy=False):
                depth[0] += 1
                deepest[0] = max(deepest[0], depth[0])
                try:
                    if depth[0] > 40:
                        raise PE.Unsupported("recursion")
                    return ev.run_function(f.node, [self, string], {"parent_cls": parent_cls, "_deepcopy": _deepcopy},
                                           env0={"super": lambda *a: (_ for _ in ()).throw(PE.Unsupported("super()"))})
                finally:
                    depth[0] -= 1

            def __repr__(self):
                return "<class %s>" % self.name
        classes = {n: Cls(n) for n in registry}
        ev = PE.Evaluator({}, max_steps=400000)
        ev.g["Base"] = PE.Obj({"subclasses": {n: [classes[x] for x in alts] for n, alts in registry.items()}})
        ev.g["FortranReaderBase"] = type("FortranReaderBase", (), {})
        ev.g["BlockBase"] = type("BlockBase", (), {})
        ev.g["readfortran"] = PE.Obj({"Comment": type("Comment", (), {})})
        ev.g["NoMatchError"] = "NoMatchError"
        ev.g["getattr"] = lambda o, n, *d: (o.fields[n] if n in o.fields else (d[0] if d else (_ for _ in ()).throw(PE.PyRaise("AttributeError", n))))
        ev.g["hasattr"] = lambda o, n: isinstance(o, PE.Obj) and n in o.fields
        ev.g["issubclass"] = lambda a, b: False
        ev.g["isinstance"] = lambda o, t: isinstance(o, t) if isinstance(t, (type, tuple)) else False
        ev.g["_set_parent"] = lambda *a, **kw: None
        ev.g["object"] = PE.Obj({"__new__": lambda c: PE.Obj({})})
        outcome = None
        try:
            classes[start]("10 format (3q)")
            outcome = "returns a value"
        except PE.PyRaise as err:
            outcome = err.exc_type
        except PE.Unsupported as err:
            outcome = "recursion" if "recursion" in str(err) or "step budget" in str(err) else None
            if outcome is None:
                r.error("Base.__new__ cannot be interpreted statically (%s)" % err)
                return r
        except RecursionError:
            outcome = "recursion"
        ok = outcome == "NoMatchError"
        r.ob(ok, "%s: %s at depth %d" % (title, outcome, deepest[0]))
        if not ok:
            r.fail("Base.__new__|dispatch|%s" % title[:30], "Base.__new__, interpreted on %s (registry %r, nothing matches): %s -- expected "
                   "NoMatchError.  The list of classes being tried no longer stops the dispatch from re-entering a class, so an input "
                   "no alternative accepts ends in RecursionError" % (title, registry, "the dispatch re-enters the classes without end"
                                                                      if outcome == "recursion" else outcome), m.loc(f))
    return r


# ------------------------------------------------------------------------------------------------
# every node built from the reader can be given back
# ------------------------------------------------------------------------------------------------
def giveback_complete_rule(m, rid):
    r = RuleResult(rid, "in every function of the grammar that builds nodes from the reader and gives nodes back when it reports no match "
                        "(calls restore_reader), each local that holds such a node is either given back itself somewhere "
                        "(`v.restore_reader(reader)`), or put into a collection over which a give-back loop runs, or is the function's "
                        "only result: a node held in a local of its own and merely joined to the result on success is lost on the "
                        "no-match path -- its statement vanishes from the source the next matcher sees")
    r.floor = 3
    for (p_, q), f in sorted(m.funcs.items()):
        pp = p_.replace("\\", "/")
        if "/two/" not in pp or "/tests/" in pp or "reader" not in A.param_names(f.node):
            continue
        body = list(A.body_nodes(f.node))
        if not any(isinstance(c, ast.Call) and isinstance(c.func, ast.Attribute) and c.func.attr == "restore_reader" for c in body):
            continue
        node_vars = {}
        for n in body:
            if isinstance(n, ast.Assign) and isinstance(n.value, ast.Call) and n.value.args and A.text(n.value.args[0]) == "reader" \
                    and isinstance(n.value.func, ast.Name) and len(n.targets) == 1 and isinstance(n.targets[0], ast.Name):
                node_vars.setdefault(n.targets[0].id, n)
        if not node_vars:
            continue
        # collections that are given back: `for o in reversed(L): o.restore_reader(...)` / `for o in L: ...`
        restored_lists = set()
        for n in body:
            if isinstance(n, ast.For) and any(isinstance(c, ast.Call) and isinstance(c.func, ast.Attribute) and c.func.attr == "restore_reader"
                                              and A.text(c.func.value) == A.text(n.target) for c in ast.walk(n)):
                it = n.iter
                if isinstance(it, ast.Call) and A.text(it.func) == "reversed" and it.args:
                    it = it.args[0]
                restored_lists.add(A.text(it))
        no_match_returns = [n for n in body if isinstance(n, ast.Return) and (n.value is None or A.const(n.value, 0) is None)]
        r.instances += 1
        bad = []
        for v, asg in sorted(node_vars.items()):
            direct = any(isinstance(c, ast.Call) and isinstance(c.func, ast.Attribute) and c.func.attr == "restore_reader"
                         and A.text(c.func.value) == v for c in body)
            collected = any(isinstance(c, ast.Call) and isinstance(c.func, ast.Attribute) and c.func.attr in ("append", "insert", "extend")
                            and A.text(c.func.value) in restored_lists and any(v in {x.id for x in ast.walk(a) if isinstance(x, ast.Name)} for a in c.args)
                            for c in body)
            returned_alone = any(isinstance(n, ast.Return) and isinstance(n.value, ast.Name) and n.value.id == v for n in body)
            later_nomatch = any(n.lineno > asg.lineno for n in no_match_returns)
            if not (direct or collected or returned_alone) and later_nomatch:
                bad.append((v, asg))
        # every no-match exit that can be reached with something collected gives the collection back first
        P_ = A.parents(f.node)

        def block_of(n):
            p0 = P_.get(n)
            for fld in ("body", "orelse", "finalbody"):
                blk = getattr(p0, fld, None)
                if isinstance(blk, list) and n in blk:
                    return blk
            return None

        def loops_around(n):
            out, x = [], n
            while x in P_:
                x = P_[x]
                if isinstance(x, (ast.For, ast.While)):
                    out.append(x)
            return out

        def gives_back(stmt, L):
            if not isinstance(stmt, ast.For):
                return False
            it = stmt.iter
            if isinstance(it, ast.Call) and A.text(it.func) == "reversed" and it.args:
                it = it.args[0]
            return A.text(it) == L and any(isinstance(c, ast.Call) and isinstance(c.func, ast.Attribute) and c.func.attr == "restore_reader"
                                           for c in ast.walk(stmt))
        unrestored = []
        for L in sorted(restored_lists):
            appends = [c for c in body if isinstance(c, ast.Call) and isinstance(c.func, ast.Attribute) and c.func.attr in ("append", "insert", "extend")
                       and A.text(c.func.value) == L]
            if not appends:
                continue
            for rt in no_match_returns:
                may_hold = any(a.lineno < rt.lineno for a in appends) or \
                    any(lp in loops_around(a) for a in appends for lp in loops_around(rt))
                if not may_hold:
                    continue
                # known empty here: under `if not L` / `if len(L) == 0`
                empty = False
                x = rt
                while x in P_:
                    p0 = P_[x]
                    if isinstance(p0, ast.If) and x in p0.body and A.text(p0.test) in ("not %s" % L, "len(%s) == 0" % L, "%s == []" % L):
                        empty = True
                    x = p0
                if empty:
                    continue
                blk = block_of(rt) or []
                before = blk[:blk.index(rt)] if rt in blk else []
                given = any(gives_back(s_, L) for s_ in before)
                # ... or the exit sits in a branch that follows a give-back loop in an enclosing block
                x = rt
                while not given and x in P_ and not isinstance(P_[x], (ast.FunctionDef, ast.For, ast.While)):
                    x = P_[x]
                    blk2 = block_of(x) or []
                    if x in blk2:
                        given = any(gives_back(s_, L) for s_ in blk2[:blk2.index(x)])
                if not given:
                    unrestored.append((L, rt))
        r.ob(not bad and not unrestored, "%s: %s given back or collected" % (q, sorted(node_vars)))
        for L, rt in unrestored[:2]:
            r.fail("%s|exit-without-give-back|%s" % (q, L), "%s can report no match (line %d) while `%s` may already hold nodes built from the "
                   "reader, without running the give-back loop over it first: the statements those nodes consumed are gone for the "
                   "next matcher -- a labelled DO swallowed this way makes a loop without its terminating statement acceptable"
                   % (q, rt.lineno, L), m.loc(f, rt))
        for v, asg in bad[:2]:
            r.fail("%s|not-given-back|%s" % (q, v), "%s builds `%s` from the reader (`%s`) and can report no match afterwards, but `%s` is never "
                   "given back: it is neither restored itself nor put into a collection that the give-back loop covers (%s).  The "
                   "statement it consumed disappears from what the next matcher reads -- an opening statement lost this way leaves its "
                   "END (or its missing END) unnoticed" % (q, v, A.text(asg.value)[:40], v, sorted(restored_lists) or "none"), m.loc(f, asg))
    return r
