"""C18 -- parse trees can be deep-copied and pickled (structural clauses: the copy protocol is well-typed)."""
import ast

from sa import astutil as A
from sa import flow as F
from sa.model import AnalysisError
from sa.report import RuleResult

UTILS = "fparser.two.utils"
COPY_HOOKS = ("__deepcopy__", "__copy__", "__reduce__", "__reduce_ex__", "__getstate__", "__setstate__", "__slots__",
              "__getnewargs_ex__")


def getnewargs_shape(m, f):
    """(list of element nodes) of the single returned tuple of a __getnewargs__ function, or None."""
    rets = A.returns(f.node)
    if len(rets) != 1 or not isinstance(rets[0].value, ast.Tuple):
        return None
    return rets[0].value.elts


class DeepClient(F.Client):
    """With _deepcopy == True, __new__ must return a fresh object without touching its `string` argument."""
    track = {"_deepcopy", "$bad"}

    def __init__(self, string_param, m=None, f=None):
        self.string_param = string_param
        self.m = m
        self.f = f
        self.bad = []

    def call_effect(self, call, st):
        d = A.dotted(call.func) or ""
        if isinstance(call.func, ast.Attribute) and call.func.attr == "__new__" and not d:
            d = "super().__new__"
        ok = d in ("object.__new__", "getattr", "isinstance", "issubclass") or d.endswith(".__new__") or d == "super" \
            or d.endswith(".append")
        uses_string = any(isinstance(x, ast.Name) and x.id == self.string_param for a in call.args for x in ast.walk(a))
        if d.endswith(".__new__") and d != "object.__new__":
            uses_string = False  # forwarding the arguments to the base __new__ is fine
            # ... but the flag must be forwarded too when the callee knows it
            callee = None
            recv = d.rsplit(".", 1)[0]
            k = self.m.class_of_name(self.f, recv) if self.m is not None and recv != "super()" else None
            if k:
                callee = self.m.method(k, "__new__")
            if callee is not None and "_deepcopy" in A.param_names(callee.node):
                b = A.bind(call, A.param_names(callee.node))
                v = b.get("_deepcopy") if b else None
                fwd = v is not None and ((isinstance(v, ast.Name) and v.id == "_deepcopy") or (isinstance(v, ast.Constant) and v.value is True))
                if not fwd:
                    self.bad.append(call)
                    return (st.set("$bad", F.TRUE),)
        if not ok or uses_string:
            self.bad.append(call)
            return (st.set("$bad", F.TRUE),)
        return (st,)


def r1_newargs_vs_new(m):
    r = RuleResult("C18.R1", "the tuple returned by __getnewargs__ binds to the resolved __new__ and reaches its deep-copy early return")
    r.floor = 300
    base = m.key("Base", UTILS)
    checked_pairs = {}
    for k in sorted(m.classes):
        c = m.classes[k]
        if not m.issub(k, base):
            continue
        r.instances += 1
        g = m.method(k, "__getnewargs__")
        n = m.method(k, "__new__")
        if g is None or n is None:
            r.fail("%s|missing" % c["name"], "%s: __getnewargs__ or __new__ cannot be resolved" % c["name"], None)
            continue
        pk = (id(g), id(n))
        if pk in checked_pairs:
            res = checked_pairs[pk]
        else:
            res = check_pair(m, g, n)
            checked_pairs[pk] = res
        ok, msg, node_f, node = res
        if ok:
            r.ob(True, "%s: %s -> %s: %s" % (c["name"], g.qualname, n.qualname, msg))
        else:
            r.ob(False)
            r.fail("%s|%s|%s" % (c["name"], g.qualname, n.qualname),
                   "%s cannot be deep-copied/unpickled: %s (%s feeds %s)" % (c["name"], msg, g.qualname, n.qualname),
                   m.loc(node_f, node) if node_f else None)
    r.notes.append("%d distinct (__getnewargs__, __new__) pairs analysed" % len(checked_pairs))
    return r


def check_pair(m, g, n):
    elts = getnewargs_shape(m, g)
    if elts is None:
        return False, "%s does not return one literal tuple" % g.qualname, g, None
    params = A.param_names(n.node)[1:]      # without cls
    defaults = A.param_defaults(n.node)
    if len(elts) > len(params) and not n.node.args.vararg:
        return False, "__getnewargs__ returns %d values but __new__ takes %d" % (len(elts), len(params)), n, None
    missing = [p for p in params[len(elts):] if p not in defaults]
    if missing:
        return False, "__new__ parameters %s receive no value" % missing, n, None
    if "_deepcopy" not in params:
        return False, "__new__ has no _deepcopy parameter, so unpickling re-runs the matcher on the stored text", n, None
    idx = params.index("_deepcopy")
    if idx >= len(elts) or not (isinstance(elts[idx], ast.Constant) and elts[idx].value is True):
        return False, "the value bound to _deepcopy is not True", g, elts[idx] if idx < len(elts) else None
    # early return under _deepcopy=True
    cl = DeepClient(params[0] if params else "string", m, n)
    fl = F.Flow(m, n, cl)
    out = fl.run(F.State({"_deepcopy": F.TRUE, "$bad": F.FALSE}))
    bad_rets = [(st, node) for st, node in out.ret if st.get("$bad") == F.TRUE]
    none_rets = [(st, node) for st, node in out.ret if node is None or node.value is None or
                 (isinstance(node.value, ast.Constant) and node.value.value is None)]
    if not out.ret:
        return False, "__new__ has no returning path when _deepcopy is True", n, None
    if bad_rets:
        return False, "with _deepcopy=True __new__ still runs `%s` before returning" % A.text(cl.bad[0])[:60], n, cl.bad[0]
    if none_rets:
        return False, "with _deepcopy=True __new__ can return None", n, none_rets[0][1]
    if any(exc for exc in out.exc):
        st, exc, node = next(iter(out.exc))
        return False, "with _deepcopy=True __new__ can raise %s" % exc, n, node
    return True, "%d values, _deepcopy=True -> early return" % len(elts), None, None


def r2_attrs_set(m):
    r = RuleResult("C18.R2", "every attribute __getnewargs__ reads is assigned on every construction path of a node")
    r.floor = 3
    base = m.key("Base", UTILS)
    # attributes read by each __getnewargs__
    reads = {}
    for k in sorted(m.classes):
        if not m.issub(k, base):
            continue
        g = m.method(k, "__getnewargs__")
        if g is None:
            continue
        attrs = {x.attr for x in A.body_nodes(g.node) if isinstance(x, ast.Attribute) and isinstance(x.value, ast.Name) and x.value.id == "self"}
        reads[k] = attrs
    # construction sites: v = object.__new__(cls)
    sites = []
    for (path, q), f in sorted(m.funcs.items()):
        if not f.module.startswith("fparser.two"):
            continue
        for n in A.body_nodes(f.node):
            if isinstance(n, ast.Assign) and isinstance(n.value, ast.Call) and (A.dotted(n.value.func) or "") == "object.__new__" \
                    and isinstance(n.targets[0], ast.Name):
                sites.append((f, n, n.targets[0].id))
    if len(sites) < 3:
        r.error("fewer than 3 object.__new__(cls) construction sites found")
    from sa.callgraph import CallGraph
    cg = CallGraph(m)
    for f, n, var in sites:
        r.instances += 1
        own = cg.owner_class(f)
        # classes constructed here: the owner and its subclasses that resolve __new__ to f
        users = [k for k in reads if m.method(k, "__new__") is f]
        need = set()
        for k in users:
            need |= reads[k]
        # what is assigned on obj after creation (flow-insensitively within the same block sequence):
        direct = set()
        via_init = set()
        P = A.parents(f.node)
        blk = P.get(n)
        body = getattr(blk, "body", None)
        stmts = []
        for fld in ("body", "orelse", "finalbody"):
            lst = getattr(blk, fld, None)
            if isinstance(lst, list) and n in lst:
                stmts = lst[lst.index(n) + 1:]
        for s in stmts:
            if isinstance(s, ast.Return):
                break
            for x in ast.walk(s):
                if isinstance(x, ast.Assign):
                    for t in x.targets:
                        if isinstance(t, ast.Attribute) and isinstance(t.value, ast.Name) and t.value.id == var:
                            direct.add(t.attr)
                if isinstance(x, ast.Call) and isinstance(x.func, ast.Attribute) and isinstance(x.func.value, ast.Name) \
                        and x.func.value.id == var and x.func.attr == "init" and not _conditional(x, s):
                    for k in users:
                        init = m.method(k, "init")
                        if init is not None:
                            a = {t.attr for y in A.body_nodes(init.node) if isinstance(y, ast.Assign) for t in y.targets
                                 if isinstance(t, ast.Attribute) and isinstance(t.value, ast.Name) and t.value.id == "self"}
                            via_init = a if not via_init else (via_init & a)
        have = direct | via_init
        missing = sorted(a for a in need if a not in have and a not in ("__class__",))
        r.ob(not missing, "%s: `%s` -> assigned %s, __getnewargs__ of %d classes read %s" % (f.qualname, A.text(n), sorted(have), len(users), sorted(need)))
        if missing:
            r.fail("%s|unset|%s" % (f.qualname, ",".join(missing)), "%s creates a node with object.__new__ and returns it without assigning %s, "
                   "which the resolved __getnewargs__ reads: copying such a node raises AttributeError" % (f.qualname, missing), m.loc(f, n))
    return r


def _conditional(call, stmt):
    """call sits under an `if hasattr(cls, 'init')`-style guard inside stmt -- treated as unconditional only for that idiom."""
    if isinstance(stmt, ast.If):
        t = A.text(stmt.test)
        return not (t.startswith("hasattr(") and "init" in t)
    return False


def printer_attrs(m, base):
    """self.<attr> read by any printer of a node class."""
    out = set()
    for k in m.classes:
        if not m.issub(k, base):
            continue
        for nm in ("tostr", "tofortran", "tostr_a", "__str__"):
            if nm in m.classes[k]["own"]:
                f = m.method(k, nm)
                if f is not None:
                    out |= {x.attr for x in A.body_nodes(f.node) if isinstance(x, ast.Attribute) and isinstance(x.value, ast.Name) and x.value.id == "self"
                            and isinstance(x.ctx, ast.Load)}
    return out

IMMUTABLE_TYPE_NAMES = {"str", "int", "float", "bool", "bytes", "complex", "NoneType", "frozenset"}


class Undecided(Exception):
    pass


class DeepcopyFlow:
    """Decides a hand-written `__deepcopy__(self, memo)` by a small may-share analysis.  A value is *original* when it is (part of) the
    state of `self`; it becomes clean by `copy.deepcopy(<value>, memo)` or under a test that proves it immutable (isinstance with only
    immutable builtin types, `is None`).  A finding is an original value stored into the object that is returned; a deepcopy of state
    before `memo[id(self)]` is set is the second finding (every child's .parent leads back to self)."""

    def __init__(self, func):
        self.f = func
        ps = [a.arg for a in func.args.args]
        if len(ps) != 2:
            raise Undecided("signature")
        self.me, self.memo = ps
        self.new = set()
        self.memo_set = False
        self.findings = []      # (kind, node, text)
        self.sinks = 0
        self.copies = 0

    # ---- expressions
    def is_deepcopy(self, c):
        d = A.dotted(c.func) or ""
        return d in ("copy.deepcopy", "deepcopy") and len(c.args) == 2 and isinstance(c.args[1], ast.Name) and c.args[1].id == self.memo

    def taint(self, e, env):
        if e is None or isinstance(e, ast.Constant):
            return False
        if isinstance(e, ast.Name):
            if e.id == self.me:
                return True
            return env.get(e.id, False)
        if isinstance(e, ast.Attribute):
            return self.taint(e.value, env)
        if isinstance(e, ast.Subscript):
            return self.taint(e.value, env)
        if isinstance(e, ast.Starred):
            return self.taint(e.value, env)
        if isinstance(e, (ast.Tuple, ast.List, ast.Set)):
            return any(self.taint(x, env) for x in e.elts)
        if isinstance(e, ast.Dict):
            return any(self.taint(x, env) for x in e.values if x is not None)
        if isinstance(e, ast.IfExp):
            et, ef = self.narrow(e.test, env)
            return self.taint(e.body, et) or self.taint(e.orelse, ef)
        if isinstance(e, (ast.GeneratorExp, ast.ListComp, ast.SetComp, ast.DictComp)):
            env2 = dict(env)
            for g in e.generators:
                self.bind(g.target, self.taint(g.iter, env2), env2)
                for c in g.ifs:
                    env2, _ = self.narrow(c, env2)
            if isinstance(e, ast.DictComp):
                return self.taint(e.value, env2)
            return self.taint(e.elt, env2)
        if isinstance(e, ast.Call):
            if self.is_deepcopy(e):
                self.copies += 1
                if not self.memo_set and self.taint(e.args[0], env):
                    self.findings.append(("memo-late", e, A.text(e)))
                return False
            d = A.dotted(e.func) or ""
            if d in ("copy.deepcopy", "deepcopy", "copy.copy"):
                raise Undecided("a copy call without the memo: %s" % A.text(e))
            if d in ("id", "isinstance", "len", "type", "hasattr", "issubclass", "str", "repr", "int"):
                return False
            if d in ("list", "tuple", "dict", "set", "vars", "iter", "enumerate", "zip", "reversed", "sorted", "getattr") or \
                    (isinstance(e.func, ast.Call) and (A.dotted(e.func.func) or "") == "type"):
                return any(self.taint(a, env) for a in e.args)
            if isinstance(e.func, ast.Attribute) and e.func.attr in ("items", "values", "copy", "get", "keys") and not e.keywords:
                return self.taint(e.func.value, env)
            if d.endswith(".__new__"):
                return False
            if any(self.taint(a, env) for a in list(e.args) + [k.value for k in e.keywords]) or \
                    (isinstance(e.func, ast.Attribute) and self.taint(e.func.value, env)):
                raise Undecided("original state is passed to %s" % A.text(e.func))
            return False
        if isinstance(e, (ast.BinOp,)):
            return self.taint(e.left, env) or self.taint(e.right, env)
        if isinstance(e, (ast.Compare, ast.BoolOp, ast.UnaryOp, ast.JoinedStr)):
            return False
        raise Undecided("expression %s" % type(e).__name__)

    def bind(self, target, t, env):
        if isinstance(target, ast.Name):
            env[target.id] = t
        elif isinstance(target, (ast.Tuple, ast.List)):
            for x in target.elts:
                self.bind(x, t, env)
        elif isinstance(target, ast.Starred):
            self.bind(target.value, t, env)

    def immutable_types(self, tnode):
        elts = tnode.elts if isinstance(tnode, ast.Tuple) else [tnode]
        names = []
        for x in elts:
            tx = A.text(x)
            if tx == "type(None)":
                tx = "NoneType"
            names.append(tx)
        return bool(names) and all(n in IMMUTABLE_TYPE_NAMES for n in names)

    def narrow(self, test, env):
        """(environment when the test holds, environment when it does not)"""
        et, ef = dict(env), dict(env)
        if isinstance(test, ast.UnaryOp) and isinstance(test.op, ast.Not):
            a, b = self.narrow(test.operand, env)
            return b, a
        if isinstance(test, ast.Call) and A.dotted(test.func) == "isinstance" and len(test.args) == 2 and isinstance(test.args[0], ast.Name):
            if self.immutable_types(test.args[1]):
                et[test.args[0].id] = False
        if isinstance(test, ast.Compare) and len(test.ops) == 1 and isinstance(test.left, ast.Name) and A.const(test.comparators[0], 1) is None:
            if isinstance(test.ops[0], ast.Is):
                et[test.left.id] = False
            if isinstance(test.ops[0], ast.IsNot):
                ef[test.left.id] = False
        if isinstance(test, ast.BoolOp) and isinstance(test.op, ast.Or):
            # the false side of `a or b` is the false side of both
            for v in test.values:
                _, f2 = self.narrow(v, ef)
                ef = f2
        if isinstance(test, ast.BoolOp) and isinstance(test.op, ast.And):
            for v in test.values:
                t2, _ = self.narrow(v, et)
                et = t2
        return et, ef

    # ---- statements
    def is_new_target(self, t):
        """`new.attr`, `new.__dict__[k]`"""
        if isinstance(t, ast.Attribute) and isinstance(t.value, ast.Name) and t.value.id in self.new:
            return True
        if isinstance(t, ast.Subscript) and isinstance(t.value, ast.Attribute) and t.value.attr == "__dict__" \
                and isinstance(t.value.value, ast.Name) and t.value.value.id in self.new:
            return True
        return False

    def sink(self, value, env, node):
        self.sinks += 1
        if self.taint(value, env):
            self.findings.append(("shared", node, A.text(value)))

    def block(self, body, env):
        for s in body:
            env = self.stmt(s, env)
        return env

    def stmt(self, s, env):
        if isinstance(s, ast.Expr):
            v = s.value
            if isinstance(v, ast.Constant):
                return env
            if isinstance(v, ast.Call):
                d = A.dotted(v.func) or ""
                if d == "setattr" and len(v.args) == 3 and isinstance(v.args[0], ast.Name) and v.args[0].id in self.new:
                    self.sink(v.args[2], env, s)
                    return env
                if isinstance(v.func, ast.Attribute) and v.func.attr == "update" and A.text(v.func.value).split(".")[0] in self.new:
                    for a in v.args:
                        self.sink(a, env, s)
                    return env
                if isinstance(v.func, ast.Attribute) and v.func.attr in ("append", "extend", "add") and isinstance(v.func.value, ast.Name):
                    # a local container that is filled: it carries what is put into it
                    env = dict(env)
                    env[v.func.value.id] = env.get(v.func.value.id, False) or any(self.taint(a, env) for a in v.args)
                    return env
                self.taint(v, env)
                return env
            raise Undecided("statement %s" % A.text(s)[:60])
        if isinstance(s, (ast.Assign, ast.AnnAssign)):
            targets = s.targets if isinstance(s, ast.Assign) else [s.target]
            value = s.value
            env = dict(env)
            for t in targets:
                if isinstance(t, ast.Subscript) and isinstance(t.value, ast.Name) and t.value.id == self.memo:
                    if A.text(t.slice) == "id(%s)" % self.me:
                        self.memo_set = True
                    continue
                if self.is_new_target(t):
                    self.sink(value, env, s)
                    continue
                if isinstance(t, ast.Name):
                    if isinstance(value, ast.Call) and (A.dotted(value.func) or "").endswith("__new__") or \
                            (isinstance(value, ast.Call) and isinstance(value.func, ast.Attribute) and value.func.attr == "__new__"):
                        self.new.add(t.id)
                        env[t.id] = False
                    else:
                        env[t.id] = self.taint(value, env)
                    continue
                if isinstance(t, (ast.Tuple, ast.List)):
                    self.bind(t, self.taint(value, env), env)
                    continue
                if isinstance(t, ast.Subscript) and isinstance(t.value, ast.Name):
                    env[t.value.id] = env.get(t.value.id, False) or self.taint(value, env)
                    continue
                raise Undecided("assignment to %s" % A.text(t))
            return env
        if isinstance(s, ast.For):
            env = dict(env)
            self.bind(s.target, self.taint(s.iter, env), env)
            # two rounds reach the fixed point of a may-analysis over booleans joined by `or`
            e1 = self.block(s.body, env)
            e2 = self.block(s.body, self.join(env, e1))
            return self.join(env, self.join(e1, self.block(s.orelse, e2)))
        if isinstance(s, ast.If):
            et, ef = self.narrow(s.test, env)
            return self.join(self.block(s.body, et), self.block(s.orelse, ef))
        if isinstance(s, ast.Return):
            if s.value is None or not (isinstance(s.value, ast.Name) and s.value.id in self.new):
                if s.value is not None and self.taint(s.value, env):
                    self.findings.append(("shared", s, A.text(s.value)))
                elif s.value is None:
                    raise Undecided("returns nothing")
                elif not isinstance(s.value, ast.Name):
                    raise Undecided("returns %s" % A.text(s.value))
            return env
        if isinstance(s, (ast.Pass, ast.Import, ast.ImportFrom)):
            return env
        raise Undecided("statement %s" % type(s).__name__)

    @staticmethod
    def join(a, b):
        out = dict(a)
        for k, v in b.items():
            out[k] = out.get(k, False) or v
        return out

    def decide(self):
        self.block(self.f.body, {})
        if not self.sinks:
            raise Undecided("nothing is stored into the new object")
        return self.findings


_DEEPCOPY_EXAMPLES = {
    "ok": """
def __deepcopy__(self, memo):
    new = object.__new__(type(self))
    memo[id(self)] = new
    for name, value in self.__dict__.items():
        new.__dict__[name] = copy.deepcopy(value, memo)
    return new
""",
    "ok-guard": """
def __deepcopy__(self, memo):
    dup = type(self).__new__(type(self))
    memo[id(self)] = dup
    for name, value in vars(self).items():
        if isinstance(value, (str, int, type(None))):
            setattr(dup, name, value)
        else:
            setattr(dup, name, copy.deepcopy(value, memo))
    return dup
""",
    "shared": """
def __deepcopy__(self, memo):
    new = object.__new__(type(self))
    memo[id(self)] = new
    for name, value in self.__dict__.items():
        if isinstance(value, (list, tuple)):
            value = type(value)(copy.deepcopy(c, memo) if isinstance(c, Base) else c for c in value)
        else:
            value = copy.deepcopy(value, memo)
        new.__dict__[name] = value
    return new
""",
    "memo-late": """
def __deepcopy__(self, memo):
    new = object.__new__(type(self))
    for name, value in self.__dict__.items():
        new.__dict__[name] = copy.deepcopy(value, memo)
    memo[id(self)] = new
    return new
""",
}


def deepcopy_selfcheck():
    got = {}
    for name, src in _DEEPCOPY_EXAMPLES.items():
        try:
            got[name] = sorted({k for k, _, _ in DeepcopyFlow(ast.parse(src).body[0]).decide()})
        except Undecided as e:
            got[name] = ["undecided: %s" % e]
    want = {"ok": [], "ok-guard": [], "shared": ["shared"], "memo-late": ["memo-late"]}
    return got == want, got


def nested_container_classes(m):
    """node classes whose match returns a tuple with a nested tuple/list literal among its elements: their `items` hold containers of nodes"""
    base = m.key("Base", UTILS)
    blockbase = m.key("BlockBase", UTILS)
    out = []
    for k in sorted(m.classes):
        if not m.issub(k, base) or "match" not in m.classes[k]["own"] or m.issub(k, blockbase):
            continue        # (a block engine's result tuple holds the arguments of init(), not the items)
        f = m.method(k, "match")
        if f is None:
            continue
        CONT = (ast.Tuple, ast.List, ast.ListComp)
        local = {}
        for n in A.body_nodes(f.node):
            if isinstance(n, ast.Assign) and len(n.targets) == 1 and isinstance(n.targets[0], ast.Name):
                local.setdefault(n.targets[0].id, []).append(n.value)
        for rt in A.returns(f.node):
            if isinstance(rt.value, ast.Tuple) and any(isinstance(x, CONT) or (isinstance(x, ast.Name) and any(isinstance(v, CONT) for v in local.get(x.id, ())))
                                                       for x in rt.value.elts):
                out.append(m.classes[k]["name"])
                break
    return out


def r3_no_custom_protocol(m):
    r = RuleResult("C18.R3", "no class of a tree overrides the copy/pickle protocol in a way that loses what the printers read or that its subclasses cannot follow")
    r.floor = 300
    base = m.key("Base", UTILS)
    pattrs = printer_attrs(m, base)
    for k in sorted(m.classes):
        c = m.classes[k]
        if not m.issub(k, base):
            continue
        r.instances += 1
        hooks = [h for h in COPY_HOOKS if h in c["own"]]
        if not hooks:
            r.ob(True)
            continue
        for h in hooks:
            if h == "__getstate__":
                f = m.method(k, h)
                lost = set()
                recognised = True
                for n in A.body_nodes(f.node):
                    if isinstance(n, ast.Assign) and isinstance(n.targets[0], ast.Subscript) and isinstance(n.targets[0].slice, ast.Constant) \
                            and isinstance(n.value, ast.Constant):
                        lost.add(n.targets[0].slice.value)
                    if isinstance(n, ast.Call) and isinstance(n.func, ast.Attribute) and n.func.attr == "pop" and n.args and isinstance(n.args[0], ast.Constant):
                        lost.add(n.args[0].value)
                    if isinstance(n, ast.Delete):
                        for t in n.targets:
                            if isinstance(t, ast.Subscript) and isinstance(t.slice, ast.Constant):
                                lost.add(t.slice.value)
                hit = sorted(a for a in lost if a in pattrs)
                if hit:
                    r.ob(False)
                    r.fail("%s.__getstate__|%s" % (c["name"], ",".join(hit)), "%s.__getstate__ drops %s from the copied state, but the printers "
                           "read it (labels and construct names live in .item): the copy prints different Fortran" % (c["name"], hit), m.loc(f))
                elif not lost:
                    r.error("%s defines __getstate__ in a form the rules of C18 cannot decide" % c["name"])
                else:
                    r.ob(True, "%s.__getstate__ drops %s, none of which a printer reads" % (c["name"], sorted(lost)))
            elif h == "__deepcopy__":
                f = m.method(k, h)
                ok_, got = deepcopy_selfcheck()
                if not ok_:
                    r.error("the examples of the __deepcopy__ analysis are no longer decided as recorded: %s" % got)
                    continue
                try:
                    fl = DeepcopyFlow(f.node)
                    found = fl.decide()
                except Undecided as e:
                    r.error("%s defines __deepcopy__ in a form the rules of C18 cannot decide (%s)" % (c["name"], e))
                    continue
                nested = nested_container_classes(m)
                r.ob(not found, "%s.__deepcopy__: %d stores into the new object, %d memo-carrying deepcopy calls; %d node classes keep nested "
                     "containers in items" % (c["name"], fl.sinks, fl.copies, len(nested)))
                for kind, node, text in found:
                    if kind == "shared":
                        if not nested:
                            r.error("%s.__deepcopy__ stores `%s` uncopied and no node class with nested containers was found" % (c["name"], text))
                            continue
                        r.fail("%s.__deepcopy__|shared" % c["name"], "%s.__deepcopy__ stores `%s` into the copy without deep-copying it: the value "
                               "is only known not to be one of the tested types, and %d node classes (%s ...) keep nested tuples/lists of nodes "
                               "in their items -- those containers and the nodes in them are shared between the original and the copy"
                               % (c["name"], text, len(nested), ", ".join(nested[:4])), m.loc(f, node))
                    else:
                        r.fail("%s.__deepcopy__|memo-late" % c["name"], "%s.__deepcopy__ deep-copies state (`%s`) before registering the new "
                               "object in the memo: every child's .parent leads back to this node, which is then copied again without end"
                               % (c["name"], text), m.loc(f, node))
            else:
                r.error("%s defines %s: an unrecognised copy protocol, the rules of C18 cannot decide it" % (c["name"], h))
    r.sample("no node class defines any of %s; printers read %s" % (COPY_HOOKS, sorted(pattrs)))
    # reader items hang off every statement node (.item): their protocol must be followable by every subclass
    RFM = "fparser.common.readfortran"
    for k in sorted(m.classes):
        c = m.classes[k]
        if c["module"] != RFM:
            continue
        for h in COPY_HOOKS:
            if h not in c["own"]:
                continue
            r.instances += 1
            f = m.method(k, h)
            ret = A.returns(f.node) if f else []
            if h == "__reduce__" and len(ret) == 1 and isinstance(ret[0].value, ast.Tuple) and len(ret[0].value.elts) >= 2 \
                    and isinstance(ret[0].value.elts[1], ast.Tuple) and A.text(ret[0].value.elts[0]) in ("self.__class__", "type(self)"):
                nargs = len(ret[0].value.elts[1].elts)
                bad = []
                for k2 in sorted(m.classes):
                    if m.issub(k2, k):
                        init = m.method(k2, "__init__")
                        if init is None:
                            continue
                        ps = A.param_names(init.node)[1:]
                        req = [p for p in ps if p not in A.param_defaults(init.node)]
                        if not (len(req) <= nargs <= len(ps)):
                            bad.append((m.classes[k2]["name"], len(ps)))
                r.ob(not bad, "%s.__reduce__ rebuilds with %d arguments" % (c["name"], nargs))
                if bad:
                    r.fail("%s.__reduce__|%s" % (c["name"], bad[0][0]), "%s.__reduce__ re-creates `self.__class__` with %d arguments, but its subclass "
                           "%s takes %d: copying or pickling any tree that holds such an item raises TypeError" % (c["name"], nargs, bad[0][0], bad[0][1]), m.loc(f))
            elif h in ("__deepcopy__", "__copy__") and any(isinstance(x.value, ast.Name) and x.value.id == "self" for x in ret):
                r.ob(False)
                r.fail("%s.%s|returns-self" % (c["name"], h), "%s.%s can return the object itself: every statement node of a copied tree then "
                       "shares its reader item (.item: label, construct name, line) with the original, so changing the label or name "
                       "on the copy changes what the original prints" % (c["name"], h), m.loc(f))
            else:
                r.error("%s.%s: an unrecognised copy protocol on a reader item class" % (c["name"], h))
    return r


RESOURCE_CALLS = {"open": "an open file", "io.open": "an open file", "codecs.open": "an open file", "os.fdopen": "an open file",
                  "threading.Lock": "a lock", "threading.RLock": "a lock", "socket.socket": "a socket",
                  "tempfile.TemporaryFile": "an open file", "tempfile.NamedTemporaryFile": "an open file"}


def r4_reachable_state(m):
    """Everything a tree node references is copied/pickled with it: node -> item (Line, Comment, ...) -> reader -> format.
    copy and pickle refuse open files, locks, lambdas, nested functions and generators."""
    r = RuleResult("C18.R4", "no object reachable from a tree node (its reader item, the reader, the source format) stores a value that "
                             "copy/pickle refuse: an open file, a lambda or nested function, a generator, a lock")
    r.floor = 50
    RF_, SI_ = "fparser.common.readfortran", "fparser.common.sourceinfo"
    base = m.key("Base", UTILS)
    keys = [k for k, c in m.classes.items() if c["module"] in (RF_, SI_) or (k in m.classes and m.issub(k, base) and not c.get("generated"))]
    for k in sorted(keys):
        c = m.classes[k]
        if c["module"] not in (RF_, SI_) and not c["module"].startswith("fparser.two"):
            continue
        cd = m.classdef(k)
        if cd is None:
            continue
        custom = {n.name for n in cd.body if isinstance(n, ast.FunctionDef)} & {"__getstate__", "__reduce__", "__reduce_ex__", "__deepcopy__"}
        for meth in [n for n in cd.body if isinstance(n, ast.FunctionDef)]:
            f = m.method(k, meth.name)
            if f is None:
                continue
            nested = {n.name for n in ast.walk(meth) if isinstance(n, ast.FunctionDef) and n is not meth}
            for n in A.body_nodes(meth):
                if not isinstance(n, ast.Assign):
                    continue
                for t in n.targets:
                    if not (isinstance(t, ast.Attribute) and isinstance(t.value, ast.Name)):
                        continue
                    if t.value.id != "self" and not any(isinstance(x, ast.Call) for x in ast.walk(n.value)):
                        continue            # `other.attr = <plain value>`: nothing copy/pickle could refuse
                    r.instances += 1
                    v, why = n.value, None
                    # a regex match object (kept, for instance, to avoid matching a line twice) cannot be pickled
                    for x in ([v] + (list(v.values) if isinstance(v, ast.BoolOp) else []) + ([v.body, v.orelse] if isinstance(v, ast.IfExp) else [])):
                        if isinstance(x, ast.Call):
                            d_ = A.dotted(x.func) or ""
                            ent = m.resolve_name_in_func(f, x.func.id) if isinstance(x.func, ast.Name) else None
                            if (isinstance(x.func, ast.Attribute) and x.func.attr in ("match", "search", "fullmatch") and
                                not (isinstance(x.func.value, ast.Name) and m.class_of_name(f, x.func.value.id))) \
                                    or d_ in ("re.match", "re.search", "re.fullmatch") \
                                    or (ent and ent.get("kind") == "regex_method" and ent.get("method") in ("match", "search", "fullmatch")):
                                why = "a regex match object"
                    if why:
                        pass
                    elif isinstance(v, ast.Lambda):
                        why = "a lambda"
                    elif isinstance(v, ast.GeneratorExp):
                        why = "a generator"
                    elif isinstance(v, ast.Name) and v.id in nested:
                        why = "a nested function"
                    elif isinstance(v, ast.Call):
                        d = A.dotted(v.func) or ""
                        if d in RESOURCE_CALLS:
                            why = RESOURCE_CALLS[d]
                        elif d in ("iter", "map", "filter", "zip") and v.args and not isinstance(v.args[0], (ast.List, ast.Tuple, ast.Constant)):
                            why = None
                    ok = why is None or bool(custom)
                    r.ob(ok, "%s.%s: self.%s" % (c["name"], meth.name, t.attr) if r.instances % 40 == 0 else None)
                    if not ok:
                        r.fail("%s.%s|%s.%s|%s" % (c["name"], meth.name, t.value.id, t.attr, why.split()[-1]),
                               "%s.%s stores %s in `%s` and the class has no __getstate__/__reduce__ leaving it out: every tree node "
                               "refers to its reader through its item, so copy.deepcopy/pickle of a tree built with this object fails "
                               "(TypeError/AttributeError: cannot pickle)" % (c["name"], meth.name, why, A.text(t)), m.loc(f, n))
    return r


ITEM_MAKERS = {"line_item", "comment_item", "cpp_directive_item", "multiline_item", "_next", "next", "get_source_item", "get_item", "copy"}
ADDERS = {"append", "appendleft", "insert", "extend", "extendleft", "add", "setdefault", "update"}


def r5_no_back_reference(m):
    """Items cache the nodes matched from them (Line.parse_cache) and nodes name their reader in __getnewargs__: a reader that keeps an
    item it has handed out closes a cycle node -> reader -> item -> node through the arguments of the reconstructor, and deepcopy then
    builds the root twice (the copy's children point at a hidden twin)."""
    r = RuleResult("C18.R5", "besides its delivery queue the reader keeps no reference to an item it hands out (no cycle from a node through "
                             "its reader back to a node)")
    r.floor = 1           # (methods of the reader that touch an item: two today; one is enough to show the extractor sees the class)
    RF_ = "fparser.common.readfortran"
    rb = m.key("FortranReaderBase", RF_)
    item_classes = {c["name"] for k, c in m.classes.items() if c["module"] == RF_ and
                    any(b.split(":")[1] in ("Line", "Comment", "MultiLine", "SyntaxErrorLine", "SyntaxErrorMultiLine", "CppDirective") for b in c["mro"])}
    allowed = {"fifo_item": "the delivery queue: empty once the source has been consumed"}
    for k, c in sorted(m.classes.items()):
        if c["module"] != RF_ or not m.issub(k, rb):
            continue
        cd = m.classdef(k)
        if cd is None:
            continue
        for meth in [n for n in cd.body if isinstance(n, ast.FunctionDef)]:
            f = m.method(k, meth.name)
            # names that may hold an item
            items = {a.arg for a in meth.args.args if a.arg in ("item", "newitem", "citem")}
            # locals bound to a reader object (FortranFileReader(...), self.reader) and attributes that already hold items
            readers = {t.id for n_ in A.body_nodes(meth) if isinstance(n_, ast.Assign) and isinstance(n_.value, ast.Call)
                       and A.text(n_.value.func).endswith("Reader") for t in n_.targets if isinstance(t, ast.Name)}
            kept = set()
            changed = True

            def is_item(v):
                if isinstance(v, ast.Name):
                    return v.id in items
                if isinstance(v, ast.Call):
                    fn = v.func
                    if isinstance(fn, ast.Name) and fn.id in item_classes:
                        return True
                    if isinstance(fn, ast.Attribute) and fn.attr in ITEM_MAKERS and (A.text(fn.value) in ("self", "reader", "self.reader") or
                                                                                     (fn.attr == "copy" and is_item(fn.value))):
                        return True
                    if isinstance(fn, ast.Attribute) and fn.attr in ("pop", "popleft") and A.text(fn.value).endswith("fifo_item"):
                        return True
                if isinstance(v, ast.IfExp):
                    return is_item(v.body) or is_item(v.orelse)
                # a collection of items: everything a (nested) reader delivers -- list(reader), [i for i in reader], reversed(...)
                if isinstance(v, ast.Call) and A.dotted(v.func) in ("list", "tuple", "reversed", "iter", "deque") and v.args:
                    a0 = v.args[0]
                    if isinstance(a0, ast.Name) and (a0.id in readers or a0.id in items):
                        return True
                    return is_item(a0)
                if isinstance(v, (ast.ListComp, ast.GeneratorExp)) and v.generators and isinstance(v.generators[0].iter, ast.Name) \
                        and v.generators[0].iter.id in readers:
                    return True
                if isinstance(v, ast.Subscript):
                    return is_item(v.value) or (isinstance(v.value, ast.Attribute) and A.text(v.value.value) == "self" and v.value.attr in kept)
                return False
            while changed:
                changed = False
                for n in A.body_nodes(meth):
                    if isinstance(n, ast.Assign) and len(n.targets) == 1 and isinstance(n.targets[0], ast.Name) and is_item(n.value) \
                            and n.targets[0].id not in items:
                        items.add(n.targets[0].id)
                        changed = True
            for n in A.body_nodes(meth):
                attr = val = None
                if isinstance(n, ast.Call) and isinstance(n.func, ast.Attribute) and n.func.attr in ADDERS \
                        and isinstance(n.func.value, ast.Attribute) and A.text(n.func.value.value) == "self":
                    cand = [a for a in n.args if is_item(a)]
                    if cand:
                        attr, val = n.func.value.attr, cand[0]
                elif isinstance(n, ast.Assign):
                    for t in n.targets:
                        tt = t.value if isinstance(t, ast.Subscript) else t
                        if isinstance(tt, ast.Attribute) and A.text(tt.value) == "self" and is_item(n.value):
                            attr, val = tt.attr, n.value
                if attr is None:
                    continue
                kept.add(attr)
                r.instances += 1
                ok = attr in allowed
                r.ob(ok, "%s.%s: item `%s` stored in self.%s" % (c["name"], meth.name, A.text(val)[:30], attr))
                if not ok:
                    r.fail("%s.%s|keeps-item|%s" % (c["name"], meth.name, attr), "%s.%s keeps the item `%s` in self.%s after handing it out: items cache "
                           "the nodes matched from them and every block node names its reader as a reconstruction argument, so "
                           "copy.deepcopy(tree) reaches the root again through reader -> item -> node while copying those arguments "
                           "and builds it twice (the copy's children then have a hidden twin as parent)"
                           % (c["name"], meth.name, A.text(val)[:30], attr), m.loc(f, n))
    return r


def r6_importable(m):
    r = RuleResult("C18.R6", "every node class (and every class reachable from a node) can be found again by module and qualified name, which is "
                             "how pickle stores a class: no node class is local to a function")
    r.floor = 300
    base = m.key("Base", UTILS)
    for k, c in sorted(m.classes.items()):
        if not (m.issub(k, base) or c["module"] in ("fparser.common.readfortran", "fparser.common.sourceinfo")):
            continue
        if c.get("generated"):
            continue
        r.instances += 1
        ok = c.get("importable") is True
        r.ob(ok, "%s.%s" % (c["module"], c.get("qualname")) if r.instances % 100 == 0 else None)
        if not ok:
            r.fail("%s|not-importable" % c["name"], "class %s (qualified name %s.%s) is not reachable as an attribute of its module under that name: "
                   "pickle.dumps of a tree that holds such a node (or whose reader items cached one) fails with \"Can't pickle local object\""
                   % (c["name"], c["module"], c.get("qualname")), m.class_loc(k))
    return r


TREE_WORLD = ("fparser.two", "fparser.common.readfortran", "fparser.common.sourceinfo", "fparser.common.splitline")
IMMUTABLE_BUILTINS = {"int": int, "str": str, "float": float, "tuple": tuple, "bytes": bytes, "frozenset": frozenset, "complex": complex}
PROTOCOL_OWN = {"__getnewargs__", "__getnewargs_ex__", "__reduce__", "__reduce_ex__"}
MUTABLE_BUILTINS = {"dict": ("__setitem__",), "OrderedDict": ("__setitem__",), "list": ("append", "extend")}


def hook_scan(tree):
    """(classes seen, findings) over one module tree.
    (a) a __getattr__/__getattribute__ that reads instance state through `self.<attr>`: copy and pickle create the bare object first and
        probe it (__setstate__, __reduce_ex__ ...) before any attribute exists, so the hook calls itself without end;
    (b) a subclass of an immutable builtin whose own __new__ uses its argument in a way the plain builtin value does not support
        (copy/pickle re-create the object as cls.__new__(cls, <plain value>)) and that does not supply its own reconstruction arguments."""
    seen, out = 0, []
    for c in ast.walk(tree):
        if not isinstance(c, ast.ClassDef):
            continue
        seen += 1
        own = {n.name: n for n in c.body if isinstance(n, ast.FunctionDef)}
        class_level = {t.id for n in c.body if isinstance(n, (ast.Assign, ast.AnnAssign))
                       for t in (n.targets if isinstance(n, ast.Assign) else [n.target]) if isinstance(t, ast.Name)}
        for h in ("__getattr__", "__getattribute__"):
            f = own.get(h)
            if f is None:
                continue
            me = f.args.args[0].arg if f.args.args else "self"
            reads = [x for x in ast.walk(f) if isinstance(x, ast.Attribute) and isinstance(x.value, ast.Name) and x.value.id == me
                     and isinstance(x.ctx, ast.Load) and not (x.attr.startswith("__") and x.attr.endswith("__"))
                     and x.attr not in own and x.attr not in class_level]
            # a guard that sends dunder / private names straight to AttributeError before the first read makes the hook safe
            guarded = False
            for stmt in f.body:
                if isinstance(stmt, ast.If) and any(isinstance(y, ast.Raise) for y in stmt.body) and \
                        any(isinstance(y, ast.Call) and isinstance(y.func, ast.Attribute) and y.func.attr == "startswith" for y in ast.walk(stmt.test)):
                    guarded = True
                    break
                if any(x in list(ast.walk(stmt)) for x in reads):
                    break
            if reads and not guarded:
                out.append((c, f, "attr-hook", "%s.%s reads `%s.%s`: copy.deepcopy / pickle.loads create the bare object and look up "
                            "__setstate__ / __reduce_ex__ on it before `%s` exists, so the hook re-enters itself until RecursionError"
                            % (c.name, h, me, reads[0].attr, reads[0].attr)))
        bases = [A.text(b).split(".")[-1] for b in c.bases]
        bb = [b for b in bases if b in IMMUTABLE_BUILTINS]
        if bb and "__new__" in own and not (PROTOCOL_OWN & set(own)):
            f = own["__new__"]
            params = [a.arg for a in f.args.args][1:]
            for x in ast.walk(f):
                if isinstance(x, ast.Attribute) and isinstance(x.value, ast.Name) and x.value.id in params and isinstance(x.ctx, ast.Load) \
                        and not hasattr(IMMUTABLE_BUILTINS[bb[0]], x.attr):
                    out.append((c, f, "builtin-new", "%s(%s).__new__ uses `%s.%s`, which a plain %s does not have: copy and pickle re-create "
                                "the object as %s.__new__(cls, <%s value>) (the builtin's __getnewargs__), so deep-copying or unpickling any "
                                "tree that holds such a value raises AttributeError" % (c.name, bb[0], x.value.id, x.attr, bb[0], c.name, bb[0])))
                    break
            if len([p_ for p_ in params if p_ not in A.param_defaults(f)]) > 1:
                out.append((c, f, "builtin-new", "%s(%s).__new__ requires %d arguments but copy/pickle re-create it with the single plain %s value"
                            % (c.name, bb[0], len(params), bb[0])))
        # (c) a dict/list subclass whose item-storing method reads instance state: pickle restores the items of such an object
        #     (SETITEMS / APPENDS, through the overridden method) BEFORE its __dict__ (BUILD), and never calls __init__
        mb = [b for b in bases if b in MUTABLE_BUILTINS]
        if mb and not (PROTOCOL_OWN & set(own)):
            for hname in MUTABLE_BUILTINS[mb[0]]:
                f = own.get(hname)
                if f is None:
                    continue
                me = f.args.args[0].arg if f.args.args else "self"
                builtin = {"dict": dict, "list": list, "OrderedDict": dict}[mb[0]]
                reads = [x for x in ast.walk(f) if isinstance(x, ast.Attribute) and isinstance(x.value, ast.Name) and x.value.id == me
                         and isinstance(x.ctx, ast.Load) and not hasattr(builtin, x.attr) and x.attr not in own and x.attr not in class_level]
                if reads:
                    out.append((c, f, "builtin-items", "%s(%s).%s reads `%s.%s`: pickle.loads re-creates the object with %s.__new__, stores "
                                "its items through %s and only then restores the instance attributes (__init__ is never called), so "
                                "unpickling any tree whose reader items hold such an object raises AttributeError"
                                % (c.name, mb[0], hname, me, reads[0].attr, c.name, hname)))
                    break
    return seen, out


_HOOK_POSITIVE = """
class M(dict):
    def __init__(self):
        super().__init__()
        self._order = []
    def __setitem__(self, key, value):
        self._order.append(key)
        super().__setitem__(key, value)
class N(dict):
    count = 0
    def __setitem__(self, key, value):
        super().__setitem__(key, self.norm(value))
    def norm(self, v):
        return v

class D:
    def __init__(self, item):
        self.item = item
    def __getattr__(self, name):
        return getattr(self.item, name)
class E:
    def __getattr__(self, name):
        if name.startswith("__"):
            raise AttributeError(name)
        return getattr(self.item, name)
class L(int):
    def __new__(cls, text):
        obj = super().__new__(cls, text.replace(" ", ""))
        obj.text = text
        return obj
class S(str):
    def __new__(cls, text):
        return super().__new__(cls, text.strip())
"""


def r7_hooks(m):
    r = RuleResult("C18.R7", "no class that can be reached from a tree (nodes, reader items, readers, formats, split-line strings) has an "
                             "attribute hook that reads instance state, an immutable-builtin subclass whose __new__ cannot take the plain value, or a "
                             "dict/list subclass whose item-storing method needs instance attributes (pickle stores the items first): "
                             "both make copy.deepcopy / pickle fail although parsing and printing work")
    r.floor = 400
    seen, out = hook_scan(ast.parse(_HOOK_POSITIVE))
    if sorted((c.name, kind) for c, f, kind, msg in out) != [("D", "attr-hook"), ("L", "builtin-new"), ("M", "builtin-items")]:
        r.error("the positive example is no longer recognised: %s" % [(c.name, kind) for c, f, kind, msg in out])
        return r
    for path, (_, tree) in sorted(m.files.items()):
        if not m.modname[path].startswith(TREE_WORLD):
            continue
        seen, out = hook_scan(tree)
        r.instances += seen
        for c, f, kind, msg in out:
            r.fail("%s|%s" % (c.name, kind), msg, "%s:%s" % (m.rel(path), f.lineno))
    r.ob(True, "%d classes of the tree world scanned" % r.instances)
    return r


NODE_LINKS = {"parent", "items", "content", "item", "string", "separator"}


def link_scan(func):
    """assignments `<a>.attr = <b>` in one function where both a and b are parse-tree nodes taken from a content/items collection (loop
    variables over it, or names assigned from such names) and attr is not one of the tree's own links"""
    nodes = set()
    changed = True
    while changed:
        changed = False
        for n in ast.walk(func):
            if isinstance(n, ast.For) and isinstance(n.target, ast.Name):
                it = A.text(n.iter)
                if any(w in it for w in ("content", ".items", "children")) or (isinstance(n.iter, ast.Name) and n.iter.id in ("content", "items")):
                    if n.target.id not in nodes:
                        nodes.add(n.target.id)
                        changed = True
            if isinstance(n, ast.Assign) and len(n.targets) == 1 and isinstance(n.targets[0], ast.Name) and isinstance(n.value, ast.Name) \
                    and n.value.id in nodes and n.targets[0].id not in nodes:
                nodes.add(n.targets[0].id)
                changed = True
    out = []
    for n in ast.walk(func):
        if isinstance(n, ast.Assign):
            for t in n.targets:
                if isinstance(t, ast.Attribute) and isinstance(t.value, ast.Name) and t.value.id in nodes and t.attr not in NODE_LINKS \
                        and isinstance(n.value, ast.Name) and n.value.id in nodes:
                    out.append((n, t))
    return out


_LINK_POSITIVE = """
def init(self, content):
    previous = None
    for child in content:
        child.previous_sibling = previous
        if previous is not None:
            previous.next_sibling = child
        previous = child
        child.parent = self
"""


def r8_no_cross_links(m):
    r = RuleResult("C18.R8", "nodes of one block are not chained to each other (sibling / neighbour links): copy.deepcopy and pickle follow "
                             "such a chain recursively, one Python frame per statement, and fail on long blocks; the tree's links are "
                             "parent, items and content only")
    r.floor = 500
    got = link_scan(ast.parse(_LINK_POSITIVE).body[0])
    if sorted(t.attr for n, t in got) != ["next_sibling", "previous_sibling"]:
        r.error("the positive example is no longer recognised: %s" % [t.attr for n, t in got])
        return r
    for (path, q), f in sorted(m.funcs.items()):
        if not f.module.startswith("fparser.two"):
            continue
        r.instances += 1
        for n, t in link_scan(f.node):
            r.fail("%s|cross-link|%s" % (q, t.attr), "%s links one node of a block to another through `%s` (`%s`): deep-copying or pickling "
                   "the tree then recurses along that chain, once per statement of the block (RecursionError from a few hundred "
                   "statements)" % (q, t.attr, A.text(n)[:60]), m.loc(f, n))
    r.ob(True, "%d functions scanned" % r.instances)
    return r


def run(m, tier):
    results = [r1_newargs_vs_new(m), r2_attrs_set(m), r3_no_custom_protocol(m), r4_reachable_state(m), r5_no_back_reference(m), r6_importable(m), r7_hooks(m), r8_no_cross_links(m)]
    expl = ("Decides that the copy protocol is well-typed over the whole node class hierarchy: for each of the ~500 node classes the "
            "tuple returned by its resolved __getnewargs__ binds to its resolved __new__, the _deepcopy flag is True and, under that "
            "flag, __new__ returns a fresh object without running a matcher or touching the stored text (abstract interpretation of "
            "each distinct __new__); every attribute __getnewargs__ reads is assigned at every object.__new__ construction site; no "
            "class overrides the protocol otherwise; no class reachable from a node (items, readers, format) stores an open file, lambda, nested function or generator. Does NOT decide equality of the copy's text/structure.")
    return results, expl
