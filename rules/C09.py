"""C09 -- a parse is a function of its input, not of earlier parses (structural clauses)."""
import ast

from sa import astutil as A
from sa import defuse
from sa import flow as F
from sa import tables
from sa.model import AnalysisError
from sa.report import RuleResult
from rules import common_block as cb

TWO = "fparser.two"


def functions_calling(m, suffix, module_prefix=TWO):
    out = []
    for (path, q), f in sorted(m.funcs.items()):
        if not f.module.startswith(module_prefix):
            continue
        for c in A.calls(f.node):
            d = A.dotted(c.func) or ""
            if d.endswith(suffix):
                out.append(f)
                break
    return out


def r1_scope_pairing(m, blocks):
    ctx = cb.get_ctx(m)
    r = RuleResult("C09.R1", "every scope entered by a reader-level matcher is left on all normal and exceptional exits; "
                             "a failed match also removes its symbol table")
    r.floor = 9
    scoping = cb.scoping_instances(ctx, blocks)
    scoping_ids = {id(i) for i in scoping}
    if len(scoping) < 4:
        r.error("only %d BlockBase.match instances have a scoping start class (the engine/table extraction lost them)" % len(scoping))
    engine_calls_enter = any((A.dotted(c.func) or "").endswith("SYMBOL_TABLES.enter_scope") for c in A.calls(ctx.engine.node))
    if not engine_calls_enter:
        r.error("BlockBase.match no longer calls SYMBOL_TABLES.enter_scope (anchor vanished)")
    for inst in blocks:
        if not inst.args:
            continue
        client, out = cb.run_scope(ctx, ctx.engine, inst, r, inst.tag)
        if id(inst) in scoping_ids:
            if client.acquires == 0:
                r.fail("%s|no-acquire" % inst.tag, "%s opens with a scoping statement but no symbol-table scope is entered "
                       "(enter_scope unreachable in this specialisation)" % inst.tag, m.loc(inst.func, inst.call))
        else:
            if client.acquires:
                r.notes.append("%s: enter_scope reachable although the start class is not a scoping class" % inst.tag)
    # every other function that enters a scope
    others = [f for f in functions_calling(m, "SYMBOL_TABLES.enter_scope") if f is not ctx.engine and f is not ctx.engine_raw
              and not f.qualname.startswith("SymbolTables.")]
    for f in others:
        cb.run_scope(ctx, f, None, r, f.qualname, guard=None)
    if not any(f.qualname == "Main_Program0.match" for f in others):
        r.error("Main_Program0.match no longer enters a scope (anchor vanished)")
    return r


class FactoryClient(F.Client):
    track = {"std", "$cleared", "$setup"}

    def call_effect(self, call, st):
        d = A.dotted(call.func) or ""
        if d.endswith("SYMBOL_TABLES.clear"):
            return (st.set("$cleared", F.TRUE),)
        if d.endswith("._setup") or d == "_setup":
            return (st.set("$setup", F.TRUE),)
        return (st,)


def r2_factory_resets(m):
    r = RuleResult("C09.R2", "ParserFactory.create clears the symbol tables and rebuilds the class registry on every returning path; "
                             "_setup starts from a fresh registry")
    r.floor = 2
    f = m.need_func("fparser.two.parser", "ParserFactory.create")
    fl = F.Flow(m, f, FactoryClient())
    out = fl.run(F.State({"$cleared": F.FALSE, "$setup": F.FALSE}))
    r.instances += 1
    n = 0
    for st, node in out.ret:
        n += 1
        ok = st.get("$cleared") == F.TRUE and st.get("$setup") == F.TRUE
        r.ob(ok, "create: return `%s` with cleared=%s setup=%s" % (A.text(node) if node else "end", F.fmt(st.get("$cleared")), F.fmt(st.get("$setup"))))
        if not ok:
            what = []
            if st.get("$cleared") != F.TRUE:
                what.append("SYMBOL_TABLES.clear()")
            if st.get("$setup") != F.TRUE:
                what.append("self._setup(...)")
            r.fail("create|%s|%s" % (A.text(node) if node else "end", "+".join(what)),
                   "ParserFactory.create can return at `%s` without having called %s"
                   % (A.text(node) if node else "end of function", " and ".join(what)), m.loc(f, node) if node is not None else m.loc(f))
    if n == 0:
        r.error("ParserFactory.create has no returning path")
    # _setup: fresh registry first
    s = m.need_func("fparser.two.parser", "ParserFactory._setup")
    r.instances += 1
    body = A.strip_docstring(s.node.body)
    fresh_idx = None
    first_use = None
    for i, stmt in enumerate(body):
        mentions = [n for n in ast.walk(stmt) if isinstance(n, ast.Attribute) and n.attr == "subclasses"]
        if not mentions:
            continue
        is_fresh = isinstance(stmt, ast.Assign) and len(stmt.targets) == 1 and isinstance(stmt.targets[0], ast.Attribute) \
            and stmt.targets[0].attr == "subclasses" and isinstance(stmt.value, (ast.Dict, ast.Call)) \
            and ((isinstance(stmt.value, ast.Dict) and not stmt.value.keys) or
                 (isinstance(stmt.value, ast.Call) and A.dotted(stmt.value.func) in ("dict", "collections.OrderedDict", "OrderedDict") and not stmt.value.args))
        if is_fresh and fresh_idx is None and first_use is None:
            fresh_idx = i
        elif first_use is None and not is_fresh:
            first_use = i
    ok = fresh_idx is not None and (first_use is None or fresh_idx < first_use)
    r.ob(ok, "_setup: fresh `Base.subclasses = {}` at top-level statement %s, first other use at %s" % (fresh_idx, first_use))
    if not ok:
        r.fail("_setup|not-fresh", "ParserFactory._setup does not assign a fresh Base.subclasses before filling it "
               "(alternatives of a previously created standard would survive)", m.loc(s))
    return r


MUTATORS = {"append", "extend", "insert", "update", "pop", "clear", "setdefault", "remove", "popitem", "__setitem__", "__delitem__"}


def r3_registry_ownership(m):
    r = RuleResult("C09.R3", "only ParserFactory._setup writes the process-wide rule registry Base.subclasses")
    r.floor = 1
    writers = {}
    for (path, q), f in sorted(m.funcs.items()):
        aliases = set()
        for n in A.body_nodes(f.node):
            # alias = X.subclasses[...]  /  alias = X.subclasses
            if isinstance(n, ast.Assign):
                for t in n.targets:
                    for tt in (t.elts if isinstance(t, (ast.Tuple, ast.List)) else [t]):
                        if isinstance(tt, ast.Attribute) and tt.attr == "subclasses":
                            writers.setdefault(id(f), (f, []))[1].append(n)
                        if isinstance(tt, ast.Subscript) and _mentions_subclasses(tt.value):
                            writers.setdefault(id(f), (f, []))[1].append(n)
                        if isinstance(tt, ast.Name) and _mentions_subclasses(n.value) and not isinstance(n.value, ast.Call):
                            aliases.add(tt.id)
            elif isinstance(n, ast.AugAssign):
                t = n.target
                if (isinstance(t, ast.Attribute) and t.attr == "subclasses") or \
                        (isinstance(t, ast.Subscript) and _mentions_subclasses(t.value)):
                    writers.setdefault(id(f), (f, []))[1].append(n)
            elif isinstance(n, ast.Delete):
                for t in n.targets:
                    if isinstance(t, ast.Subscript) and _mentions_subclasses(t.value):
                        writers.setdefault(id(f), (f, []))[1].append(n)
            elif isinstance(n, ast.Call) and isinstance(n.func, ast.Attribute) and n.func.attr in MUTATORS:
                recv = n.func.value
                if _mentions_subclasses(recv) and not _is_get_call(recv):
                    writers.setdefault(id(f), (f, []))[1].append(n)
        if aliases:
            for n in A.body_nodes(f.node):
                if isinstance(n, ast.Call) and isinstance(n.func, ast.Attribute) and n.func.attr in MUTATORS \
                        and isinstance(n.func.value, ast.Name) and n.func.value.id in aliases:
                    writers.setdefault(id(f), (f, []))[1].append(n)
    # module-level writes
    for path, (text, tree) in m.files.items():
        for stmt in tree.body:
            for n in ast.walk(stmt) if not isinstance(stmt, (ast.FunctionDef, ast.ClassDef)) else []:
                if isinstance(n, ast.Assign):
                    for t in n.targets:
                        if (isinstance(t, ast.Attribute) and t.attr == "subclasses") or \
                                (isinstance(t, ast.Subscript) and _mentions_subclasses(t.value)):
                            r.fail("module|%s" % m.modname[path], "module-level write to the rule registry in %s" % m.modname[path],
                                   "%s:%s" % (m.rel(path), n.lineno))
    allowed = ("fparser.two.parser", "ParserFactory._setup")
    found_allowed = False
    for fid, (f, nodes) in writers.items():
        r.instances += 1
        if (f.module, f.qualname) == allowed:
            found_allowed = True
            r.ob(True, "%s.%s writes the registry (%d statements) -- the owner" % (f.module, f.qualname, len(nodes)))
            continue
        r.ob(False)
        r.fail("%s:%s" % (f.module, f.qualname), "%s.%s writes the process-wide rule registry Base.subclasses (`%s`); "
               "only ParserFactory._setup may" % (f.module, f.qualname, A.text(nodes[0])[:70]), m.loc(f, nodes[0]))
    if not found_allowed:
        r.error("ParserFactory._setup no longer writes Base.subclasses (anchor vanished)")
    # class-level definitions of `subclasses` other than Base
    for k, c in m.classes.items():
        if "subclasses" in c["own"] and c["name"] != "Base" and c["module"].startswith(TWO):
            r.instances += 1
            r.fail("classattr|%s" % c["name"], "class %s defines its own `subclasses` attribute, shadowing the registry" % c["name"],
                   None)
    return r


def _mentions_subclasses(node):
    for n in ast.walk(node):
        if isinstance(n, ast.Attribute) and n.attr == "subclasses":
            return True
    return False


def _is_get_call(node):
    return isinstance(node, ast.Call) and isinstance(node.func, ast.Attribute) and node.func.attr in ("get", "items", "keys", "values", "copy")


def r4_memo(m):
    r = RuleResult("C09.R4", "the tokeniser memo is keyed by all arguments and its cached result is never mutated by a caller")
    r.floor = 40
    w = m.need_func("fparser.common.splitline", "memoize.<locals>.wrapper")
    r.instances += 1
    # the key used for the memo lookup and store
    key_names = set()
    # the memo table: the dict of the enclosing function that the wrapper reads and writes (whatever it is called)
    outer = m.module_func("fparser.common.splitline", "memoize")
    memo_names = {"memo"}
    if outer is not None:
        for n in A.body_nodes(outer.node):
            if isinstance(n, ast.Assign) and len(n.targets) == 1 and isinstance(n.targets[0], ast.Name) and isinstance(n.value, ast.Dict):
                memo_names.add(n.targets[0].id)
    for n in A.body_nodes(w.node):
        if isinstance(n, ast.Subscript) and isinstance(n.value, ast.Name) and n.value.id in memo_names:
            key_names |= A.names_in(n.slice)
        if isinstance(n, ast.Call) and isinstance(n.func, ast.Attribute) and isinstance(n.func.value, ast.Name) \
                and n.func.value.id in memo_names and n.func.attr in ("get", "setdefault") and n.args:
            key_names |= A.names_in(n.args[0])
    a = w.node.args
    var, kw = (a.vararg.arg if a.vararg else None), (a.kwarg.arg if a.kwarg else None)
    params = set(A.param_names(w.node)) | {x for x in (var, kw) if x}
    if not key_names:
        r.error("memoize.wrapper: no memo[key] / memo.get(key) found")
    else:
        d = defuse.deps(w.node)
        dep = set()
        for k in key_names:
            dep |= defuse.closure(w.node, k, d)
        missing = sorted(p for p in params if p not in dep)
        r.ob(not missing, "memoize.wrapper: key %s depends on %s; parameters %s" % (sorted(key_names), sorted(dep & params), sorted(params)))
        if missing:
            r.fail("memo-key|%s" % ",".join(missing), "the memo key of splitline.memoize does not depend on %s: calls that differ only "
                   "there share a cache entry" % missing, m.loc(w))
    # callers: the returned map is only called / stored
    n_sites = 0
    for (path, q), f in sorted(m.funcs.items()):
        for n in A.body_nodes(f.node):
            if isinstance(n, ast.Assign) and isinstance(n.value, ast.Call) and (A.dotted(n.value.func) or "").split(".")[-1] == "string_replace_map":
                n_sites += 1
                r.instances += 1
                t = n.targets[0]
                mapvar = None
                if isinstance(t, (ast.Tuple, ast.List)) and len(t.elts) == 2 and isinstance(t.elts[1], ast.Name):
                    mapvar = t.elts[1].id
                elif isinstance(t, ast.Name):
                    mapvar = t.id   # whole tuple
                if mapvar is None:
                    r.undet("%s: result of string_replace_map bound to `%s`" % (q, A.text(t)))
                    continue
                bad = None
                for x in A.body_nodes(f.node):
                    if isinstance(x, ast.Call) and isinstance(x.func, ast.Attribute) and isinstance(x.func.value, ast.Name) \
                            and x.func.value.id == mapvar and x.func.attr in MUTATORS:
                        bad = x
                    if isinstance(x, (ast.Assign, ast.AugAssign, ast.Delete)):
                        tg = x.targets if isinstance(x, (ast.Assign, ast.Delete)) else [x.target]
                        for tt in tg:
                            if isinstance(tt, ast.Subscript) and isinstance(tt.value, ast.Name) and tt.value.id == mapvar:
                                bad = x
                r.ob(bad is None, "%s: map `%s` only called/stored" % (q, mapvar))
                if bad is not None:
                    r.fail("mutates|%s|%s" % (q, A.text(bad)[:50]), "%s mutates the replace map returned by the memoised "
                           "string_replace_map (`%s`): every later call with the same line sees the change" % (q, A.text(bad)[:60]), m.loc(f, bad))
    return r


def r5_parse_cache(m):
    r = RuleResult("C09.R5", "the per-line parse cache is per Line instance (cannot outlive its reader or cross standards)")
    r.floor = 1
    k = m.key("Line", "fparser.common.readfortran")
    init = m.method(k, "__init__")
    r.instances += 1
    if init is None:
        r.error("Line.__init__ vanished")
        return r
    assigned = any(isinstance(n, ast.Assign) and any(isinstance(t, ast.Attribute) and t.attr == "parse_cache" and
                                                     isinstance(t.value, ast.Name) and t.value.id == "self" for t in n.targets)
                   and isinstance(n.value, (ast.Dict, ast.Call)) for n in A.body_nodes(init.node))
    class_level = any("parse_cache" in m.classes[x]["own"] for x in m.mro(k))
    users = [f for (p, q), f in m.funcs.items() if any(isinstance(n, ast.Attribute) and n.attr == "parse_cache" for n in A.body_nodes(f.node))]
    if not users:
        r.error("no function uses parse_cache (anchor vanished)")
    ok = assigned and not class_level
    r.ob(ok, "Line.__init__ assigns self.parse_cache = {...}: %s; class-level attribute: %s; users: %s"
         % (assigned, class_level, sorted(f.qualname for f in users)))
    if not ok:
        r.fail("parse_cache-shared", "Line.parse_cache is not a fresh per-instance dict (assigned in __init__: %s, class-level: %s): "
               "cached parse results would be shared between lines/readers/standards" % (assigned, class_level), m.loc(init))
    # module-level caches keyed by something else in the matcher world: inventory only
    return r


def r6_boundary_rollback(m):
    ctx = cb.get_ctx(m)
    r = RuleResult("C09.R6", "a parse that fails at the API boundary rolls back the symbol tables registered by the units it had completed")
    r.floor = 1
    f = m.need_func("fparser.two.Fortran2003", "Program.__new__")
    g = m.need_func("fparser.two.Fortran2003", "Program.match")
    r.instances += 1
    found = []
    for fn in (f, g):
        for n in A.body_nodes(fn.node):
            if isinstance(n, ast.Try):
                for h in n.handlers + [None]:
                    body = n.finalbody if h is None else h.body
                    for x in body:
                        for c in ast.walk(x):
                            if isinstance(c, ast.Call) and (A.dotted(c.func) or "").split(".")[0] == "SYMBOL_TABLES" \
                                    and (A.dotted(c.func) or "").split(".")[-1] not in ("lookup", "current_scope"):
                                found.append(A.text(c))
    r.ob(bool(found), "Program.__new__/Program.match: symbol-table rollback calls on the failure paths: %s" % (found or "none"))
    if not found:
        r.fail("Program.__new__|no-table-rollback",
               "neither Program.__new__ nor Program.match removes, on their failure paths, the symbol tables that program units "
               "completed earlier in the same (failing) parse have registered", m.loc(f))
    return r


STATE_OWNERS = {
    # (module, qualname) -> (written target prefix, reason)
    ("fparser.two.parser", "ParserFactory._setup"): ("Fortran2003.Base.subclasses", "the registry owner (C09.R2/R3)"),
    ("fparser.two.utils", "DynamicImport.import_now"): ("DynamicImport.", "one-shot late import of constant class references"),
    ("fparser.two.Fortran2008.block_stmt_r808", "Block_Stmt.match"): ("Block_Stmt.counter", "process-wide counter for synthetic BLOCK names; the property exempts these names"),
}
PARSER_WORLD = ("fparser.two", "fparser.common.readfortran", "fparser.common.splitline", "fparser.common.sourceinfo")
ALL_MUT = MUTATORS | {"add", "discard", "appendleft", "popleft", "sort", "reverse"}


def r7_state_writers(m):
    from sa.callgraph import CallGraph
    ctx = cb.get_ctx(m)
    r = RuleResult("C09.R7", "no parser code writes class-level or module-level state except the three owners confirmed by hand")
    r.floor = 3
    seen_owner = set()
    n_funcs = 0
    for (path, q), f in sorted(m.funcs.items()):
        if not f.module.startswith(PARSER_WORLD):
            continue
        n_funcs += 1
        locs = ctx.cg.locals_of(f)
        writes = []
        for n in A.body_nodes(f.node):
            if isinstance(n, ast.Global):
                writes.append(("global " + ",".join(n.names), n))
            tg = []
            if isinstance(n, ast.Assign):
                tg = n.targets
            elif isinstance(n, (ast.AugAssign, ast.AnnAssign)):
                tg = [n.target]
            elif isinstance(n, ast.Delete):
                tg = n.targets
            elif isinstance(n, ast.Call) and isinstance(n.func, ast.Attribute) and n.func.attr in ALL_MUT:
                tg = [n.func.value]
                if isinstance(n.func.value, ast.Name):
                    # in-place mutation of a module-level container
                    nm = n.func.value.id
                    if nm not in locs:
                        ent = m.resolve_name_in_func(f, nm)
                        if ent and ent.get("kind") in ("const", "object") and ent.get("type", "") not in ("logging.Logger",):
                            if not (ent.get("kind") == "object" and ent.get("type_key")):
                                writes.append((A.text(n.func.value), n))
                    tg = []
            flat = []
            for t in tg:
                flat += t.elts if isinstance(t, (ast.Tuple, ast.List)) else [t]
            for t in flat:
                if not isinstance(t, (ast.Attribute, ast.Subscript)):
                    continue
                base = t
                while isinstance(base, (ast.Attribute, ast.Subscript)):
                    base = base.value
                if not isinstance(base, ast.Name):
                    continue
                if base.id == "cls" and base.id in A.param_names(f.node)[:1]:
                    writes.append((A.text(t), n))
                    continue
                if base.id in locs:
                    continue
                ent = m.resolve_name_in_func(f, base.id)
                if ent and ent.get("kind") in ("class", "module"):
                    writes.append((A.text(t), n))
                elif ent and ent.get("kind") in ("const", "object") and isinstance(t, ast.Subscript):
                    writes.append((A.text(t), n))
        if not writes:
            continue
        r.instances += 1
        owner = STATE_OWNERS.get((f.module, f.qualname))
        for text, node in writes:
            if owner and text.startswith(owner[0]):
                seen_owner.add((f.module, f.qualname))
                continue
            r.ob(False)
            r.fail("%s:%s|%s" % (f.module, f.qualname, text.split("[")[0]),
                   "%s.%s writes process-wide state `%s` (%s); a later parse can observe it"
                   % (f.module, f.qualname, text, A.text(node)[:60]), m.loc(f, node))
        if owner:
            r.ob(True, "%s.%s writes %s* -- %s" % (f.module, f.qualname, owner[0], owner[1]))
    for k in STATE_OWNERS:
        if k not in seen_owner:
            r.notes.append("owner %s.%s no longer writes its state (table entry stale)" % k)
    r.notes.append("%d functions of the parser world scanned" % n_funcs)
    if n_funcs < 600:
        r.error("only %d parser-world functions scanned (expected > 600)" % n_funcs)
    return r


WIPE_OWNERS = {("fparser.two.parser", "ParserFactory.create")}
WIPE_INTERNAL = {"SymbolTables.__init__", "SymbolTables.clear"}


def r12_wipe_owner(m):
    """Who-may-call: the set of top-level symbol tables is wiped as a whole only when a parser is created."""
    r = RuleResult("C09.R12", "the symbol-table registry is emptied as a whole (SYMBOL_TABLES.clear(), re-binding or clearing of "
                              "SymbolTables._symbol_tables) only by ParserFactory.create: no parse, failed or not, wipes the tables of earlier parses")
    r.floor = 3
    tkey = "fparser.two.symbol_table:SymbolTables"
    for (path, q), f in sorted(m.funcs.items()):
        if not f.module.startswith("fparser."):
            continue
        inside = f.module == "fparser.two.symbol_table" and q.startswith("SymbolTables.")
        for n in A.body_nodes(f.node):
            what = None
            if isinstance(n, ast.Call) and isinstance(n.func, ast.Attribute) and n.func.attr == "clear":
                recv = n.func.value
                if isinstance(recv, ast.Name) and recv.id not in ("self",):
                    ent = m.resolve_name_in_func(f, recv.id)
                    if ent and ent.get("type_key") == tkey:
                        what = "%s.clear()" % recv.id
                elif isinstance(recv, ast.Attribute) and recv.attr == "_symbol_tables":
                    what = A.text(n)
                elif inside and isinstance(recv, ast.Name) and recv.id == "self":
                    what = "self.clear()"
            elif isinstance(n, ast.Assign):
                for t in n.targets:
                    if isinstance(t, ast.Attribute) and t.attr == "_symbol_tables":
                        what = A.text(n)[:50]
            if what is None:
                continue
            r.instances += 1
            ok = (f.module, q) in WIPE_OWNERS or (inside and q in WIPE_INTERNAL)
            r.ob(ok, "%s.%s: %s" % (f.module, q, what))
            if not ok:
                r.fail("%s:%s|wipes-tables" % (f.module, q), "%s.%s empties the whole symbol-table registry (`%s`): the tables that earlier, "
                       "successful parses left behind disappear although only a new parser (ParserFactory.create) may reset them"
                       % (f.module, q, what), m.loc(f, n))
    return r


def r8_table_keys(m):
    r = RuleResult("C09.R8", "every access to the symbol-table dictionaries uses a lower-cased key (sibling agreement)")
    r.floor = 6
    for cname, dicts in (("SymbolTables", ("_symbol_tables",)), ("SymbolTable", ("_data_symbols", "_modules")), ("ModuleUse", ("_symbols",))):
        k = m.key(cname, "fparser.two.symbol_table")
        for name, d in sorted(m.classes[k]["own"].items()):
            f = m.method(k, name)
            if f is None or d.get("kind") == "property" and False:
                continue
            lowered = set()
            for n in A.body_nodes(f.node):
                if isinstance(n, ast.Assign) and len(n.targets) == 1 and isinstance(n.targets[0], ast.Name):
                    if _is_lower(n.value):
                        lowered.add(n.targets[0].id)
                if isinstance(n, (ast.For, ast.comprehension)):
                    pass
            for n in A.body_nodes(f.node):
                keyexpr = None
                if isinstance(n, ast.Subscript) and isinstance(n.value, ast.Attribute) and n.value.attr in dicts:
                    keyexpr = n.slice
                elif isinstance(n, ast.Compare) and len(n.ops) == 1 and isinstance(n.ops[0], (ast.In, ast.NotIn)) \
                        and isinstance(n.comparators[0], ast.Attribute) and n.comparators[0].attr in dicts:
                    keyexpr = n.left
                elif isinstance(n, ast.Call) and isinstance(n.func, ast.Attribute) and n.func.attr in ("get", "pop", "setdefault") \
                        and isinstance(n.func.value, ast.Attribute) and n.func.value.attr in dicts and n.args:
                    keyexpr = n.args[0]
                if keyexpr is None:
                    continue
                r.instances += 1
                ok = _is_lower(keyexpr) or (isinstance(keyexpr, ast.Name) and keyexpr.id in lowered)
                if not ok and isinstance(keyexpr, ast.Name):
                    # loop variables over the dictionary's own keys are lower-cased by construction
                    for x in A.body_nodes(f.node):
                        if isinstance(x, (ast.For, ast.comprehension)) and keyexpr.id in A.assigned_names(x.target) \
                                and any(isinstance(y, ast.Attribute) and y.attr in dicts for y in ast.walk(x.iter)):
                            ok = True
                if ok:
                    r.ob(True, "%s.%s: %s[%s]" % (cname, name, "/".join(dicts), A.text(keyexpr)))
                else:
                    r.undet("%s.%s: key `%s` not syntactically lower-cased" % (cname, name, A.text(keyexpr)))
                    raw = set(A.param_names(f.node))
                    for x in A.body_nodes(f.node):
                        if isinstance(x, ast.Assign) and len(x.targets) == 1 and isinstance(x.targets[0], ast.Name) \
                                and isinstance(x.value, ast.Name) and x.value.id in raw:
                            raw.add(x.targets[0].id)
                    if isinstance(keyexpr, ast.Name) and keyexpr.id in raw:
                        r.ob(False)
                        r.fail("%s.%s|%s" % (cname, name, A.text(keyexpr)),
                               "%s.%s uses its parameter `%s` as a symbol-table key without lower-casing it, while the sibling "
                               "methods store lower-cased keys: names that differ in case miss the table" % (cname, name, A.text(keyexpr)),
                               m.loc(f, n))
    # comparisons of a table/module name with a parameter must use the lower-cased value as well
    for cname in ("SymbolTables", "SymbolTable", "ModuleUse"):
        k = m.key(cname, "fparser.two.symbol_table")
        for name, d in sorted(m.classes[k]["own"].items()):
            f = m.method(k, name)
            if f is None:
                continue
            params = set(A.param_names(f.node))
            for n in A.body_nodes(f.node):
                if isinstance(n, ast.Compare) and len(n.ops) == 1 and isinstance(n.ops[0], (ast.Eq, ast.NotEq)):
                    sides = [n.left, n.comparators[0]]
                    for a, b in (sides, sides[::-1]):
                        if isinstance(a, ast.Attribute) and a.attr in ("name", "_name") and isinstance(b, ast.Name) and b.id in params:
                            r.instances += 1
                            r.ob(False)
                            r.fail("%s.%s|cmp|%s" % (cname, name, b.id),
                                   "%s.%s compares a stored (lower-cased) name with its raw parameter `%s`: a name written with "
                                   "upper-case letters is never found" % (cname, name, b.id), m.loc(f, n))
                        elif isinstance(a, ast.Attribute) and a.attr in ("name", "_name") and isinstance(b, ast.Name):
                            r.instances += 1
                            r.ob(True, "%s.%s: %s" % (cname, name, A.text(n)))
    return r


def _is_lower(node):
    return isinstance(node, ast.Call) and isinstance(node.func, ast.Attribute) and node.func.attr == "lower" and not node.args


def run(m, tier):
    blocks = tables.engine_instances(m, "BlockBase")
    results = [r1_scope_pairing(m, blocks), r2_factory_resets(m), r3_registry_ownership(m), r4_memo(m), r5_parse_cache(m), r6_boundary_rollback(m), r7_state_writers(m), r8_table_keys(m)]
    from rules import C16, order_rules
    r9 = C16.r3_lookup(m)
    r9.rule = "C09.R9"
    r9.title = "a scoping unit entered inside another scope always gets a table of its own; only outside any scope is an existing top-level table re-entered (shared with C16.R3)"
    for f_ in r9.findings:
        f_.rule = "C09.R9"
    results.append(r9)
    results.append(order_rules.remove_priority_rule(m, "C09.R10"))
    results.append(order_rules.shared_state_rule(m, "C09.R11"))
    results.append(r12_wipe_owner(m))
    results.append(order_rules.memo_purity_rule(m, "C09.R13", ("fparser.two", "fparser.common.readfortran", "fparser.common.splitline", "fparser.common.sourceinfo"),
                                               ("parsing", "what a parser created for one standard computes must not be remembered for the next"), 600,
                                               state_attrs=("subclasses", "_symbol_tables"), state_names=("SYMBOL_TABLES",)))
    results.append(order_rules.engine_result_final_rule(m, "C09.R14"))
    from rules import symtab_interp
    results.append(symtab_interp.run_rule(m, "C09.R15", tier))
    from rules import prog_rules
    results.append(prog_rules.state_rule(m, "C09.R16", tier))
    expl = ("Decides the structural clauses of C09: (R1) scope typestate -- in the generic block engine, specialised for each "
            "of its call sites, and in every other function that enters a symbol-table scope, the scope is left on every normal "
            "and exceptional exit (exception edges from explicit-raise summaries over the resolved call graph, for the exception "
            "classes the API boundary converts), and a reported no-match/failed match removes the table it created; (R2) the parser factory resets "
            "symbol tables and registry on every returning path; (R3) nobody but the factory writes the registry; (R4) the "
            "tokeniser memo is keyed by all arguments and callers never mutate the cached map; (R5) the per-line parse cache is "
            "per instance. Does NOT decide equality of results across histories.")
    return results, expl
