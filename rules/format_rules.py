"""String-formatting arity: a formatting expression that cannot supply every field raises IndexError/KeyError/TypeError at print or
error-report time.  Purely syntactic (literal format strings only); non-literal format strings are counted and skipped."""
import ast
import string

from sa import astutil as A
from sa import shapes
from sa.report import RuleResult


def format_fields(lit):
    """(positional indices used, keyword names used, uses auto numbering) or None when the literal is not a valid format string."""
    pos, kws, auto = set(), set(), 0

    def visit(s, depth=0):
        nonlocal auto
        for _, field, spec, _conv in string.Formatter().parse(s):
            if field is None:
                continue
            head = field
            for sep in ".[":
                head = head.split(sep)[0]
            if head == "":
                pos.add(auto)
                auto += 1
            elif head.isdigit():
                pos.add(int(head))
            else:
                kws.add(head)
            if spec and depth == 0:
                visit(spec, 1)
    try:
        visit(lit)
    except ValueError:
        return None
    return pos, kws


def format_arity_rule(m, rid, only_world=None):
    r = RuleResult(rid, "no formatting expression can fail for want of arguments: every literal.format(...) supplies each field it names and "
                        "every literal % (tuple) has as many elements as conversions")
    r.floor = 150
    n_skip = 0
    for (p, q), f in sorted(m.funcs.items()):
        if "/tests/" in p or "/scripts/" in p:
            continue
        for n in A.body_nodes(f.node):
            if isinstance(n, ast.Call) and isinstance(n.func, ast.Attribute) and n.func.attr == "format":
                recv = n.func.value
                lit = None
                if isinstance(recv, ast.Constant) and isinstance(recv.value, str):
                    lit = recv.value
                elif isinstance(recv, ast.JoinedStr):
                    continue
                elif isinstance(recv, ast.Name):
                    # a local bound once to a literal in this function
                    defs = [s for s in A.body_nodes(f.node) if isinstance(s, (ast.Assign, ast.AugAssign)) and
                            any(isinstance(t, ast.Name) and t.id == recv.id for t in (s.targets if isinstance(s, ast.Assign) else [s.target]))]
                    if len(defs) == 1 and isinstance(defs[0], ast.Assign) and isinstance(defs[0].value, ast.Constant) \
                            and isinstance(defs[0].value.value, str):
                        lit = defs[0].value.value
                if lit is None:
                    n_skip += 1
                    continue
                ff = format_fields(lit)
                r.instances += 1
                if ff is None:
                    r.ob(False)
                    r.fail("%s|format|invalid" % q, "%s: `%s` is not a valid format string" % (q, A.text(recv)[:40]), m.loc(f, n))
                    continue
                pos, kws = ff
                starred = any(isinstance(a, ast.Starred) for a in n.args)
                dstar = any(k.arg is None for k in n.keywords)
                npos = len(n.args)
                have_kw = {k.arg for k in n.keywords if k.arg}
                bad = None
                if pos and not starred and max(pos) >= npos:
                    bad = "names positional field {%d} but only %d positional argument(s) are passed" % (max(pos), npos)
                elif kws - have_kw and not dstar:
                    bad = "names field(s) %s that are not passed" % sorted(kws - have_kw)
                r.ob(bad is None, "%s: %r %% %d args" % (q, lit[:30], npos) if r.instances % 25 == 0 else None)
                if bad:
                    r.fail("%s|format|%s" % (q, lit[:24]), "%s: `%s.format(%s)` %s: the call raises %s when it is reached"
                           % (q, A.text(recv)[:40], ", ".join(A.text(a)[:20] for a in n.args), bad,
                              "IndexError" if "positional" in bad else "KeyError"), m.loc(f, n))
            elif isinstance(n, ast.BinOp) and isinstance(n.op, ast.Mod) and isinstance(n.left, ast.Constant) and isinstance(n.left.value, str):
                try:
                    want = shapes.count_conversions(n.left.value)
                except Exception:
                    continue
                if isinstance(n.right, ast.Tuple) and not any(isinstance(e, ast.Starred) for e in n.right.elts):
                    got = len(n.right.elts)
                elif isinstance(n.right, (ast.Constant, ast.JoinedStr)):
                    got = 1
                else:
                    n_skip += 1
                    continue
                if "%(" in n.left.value:
                    continue
                r.instances += 1
                ok = got == want
                r.ob(ok, "%s: %r %% %d-tuple" % (q, n.left.value[:30], got) if r.instances % 25 == 0 else None)
                if not ok:
                    r.fail("%s|percent|%s" % (q, n.left.value[:24]), "%s: `%r %% (...)` has %d conversion(s) but %d value(s): TypeError when reached"
                           % (q, n.left.value[:40], want, got), m.loc(f, n))
    r.notes.append("formatting expressions with a non-literal format string or a non-literal right operand (decided by the tuple-shape rules "
                   "C01.R2/C10.R5 when the operand is self.items): %d" % n_skip)
    return r
