"""C13 -- INCLUDE resolution is transparent; unresolved includes are kept (structural clauses)."""
import ast

from sa import astutil as A
from sa import tables
from sa.report import RuleResult
from rules import common_block as cb
from rules import reader_rules as rr
from rules import C11

RF = "fparser.common.readfortran"


def r1_search(m):
    r = RuleResult("C13.R1", "the include search visits the directories in order and stops at the first existing file; an unresolved include is returned as an item")
    r.floor = 3
    nx = rr.reader_func(m, "next")
    loops = [n for n in A.body_nodes(nx.node) if isinstance(n, ast.For) and "include_dirs" in A.text(n.iter)]
    r.instances += 1
    if len(loops) != 1:
        r.error("FortranReaderBase.next: the loop over include_dirs was not found (anchor changed)")
        return r
    lp = loops[0]
    ordered = not any(isinstance(c, ast.Call) and A.dotted(c.func) in ("reversed", "sorted", "set") for c in ast.walk(lp.iter))
    # the directories iterated are self.include_dirs (possibly a copy)
    it = A.text(lp.iter)
    src_ok = it in ("self.include_dirs", "self.include_dirs[:]", "list(self.include_dirs)")
    if isinstance(lp.iter, ast.Name):
        # a local copy of the reader's list, whatever it is called
        defs = [n for n in A.body_nodes(nx.node) if isinstance(n, ast.Assign) and A.text(n.targets[0]) == it]
        src_ok = bool(defs) and all(A.text(d.value) in ("self.include_dirs[:]", "self.include_dirs", "list(self.include_dirs)") for d in defs)
    # the local that holds the item just read
    item_var = "item"
    for n in A.body_nodes(nx.node):
        if isinstance(n, ast.Assign) and len(n.targets) == 1 and isinstance(n.targets[0], ast.Name) and isinstance(n.value, ast.Call) \
                and A.text(n.value.func) == "self._next":
            item_var = n.targets[0].id
    tgt = A.text(lp.target)
    cand = None
    brk = False
    for s in lp.body:
        if isinstance(s, ast.Assign) and isinstance(s.value, ast.Call) and A.dotted(s.value.func) == "os.path.join" \
                and A.text(s.value.args[0]) == tgt:
            cand = A.text(s.targets[0])
        if isinstance(s, ast.If) and isinstance(s.test, ast.Call) and A.dotted(s.test.func) in ("os.path.exists", "os.path.isfile") \
                and cand and A.text(s.test.args[0]) == cand and any(isinstance(b, ast.Break) for b in s.body):
            brk = True
    ok = ordered and src_ok and cand is not None and brk
    r.ob(ok, "next: `for %s in %s` joins the file name, tests existence of `%s`, breaks at the first hit: ordered=%s source=%s break=%s"
         % (tgt, it, cand, ordered, src_ok, brk))
    if not ok:
        why = []
        if not ordered:
            why.append("the directories are not visited in include-path order")
        if not src_ok:
            why.append("the directories searched are not self.include_dirs")
        if cand is None:
            why.append("no candidate path is built from the directory")
        if not brk:
            why.append("the search does not stop at the first existing file (a later directory would win)")
        r.fail("next|search|%s" % ";".join(w.split()[0] + w.split()[-1] for w in why), "FortranReaderBase.next: " + "; ".join(why), m.loc(nx, lp))
    if cand is None:
        return r          # the shape of the search changed: the remaining clauses are keyed on the candidate path variable
    # after the loop: unresolved -> the item itself is returned
    r.instances += 1
    unresolved = False
    for n in A.body_nodes(nx.node):
        if isinstance(n, ast.If) and isinstance(n.test, ast.UnaryOp) and isinstance(n.test.op, ast.Not) \
                and isinstance(n.test.operand, ast.Call) and A.dotted(n.test.operand.func) in ("os.path.isfile", "os.path.exists") \
                and cand and A.text(n.test.operand.args[0]) == cand:
            unresolved = any(isinstance(s, ast.Return) and A.text(s.value) == item_var for s in n.body)
    r.ob(unresolved, "next: `if not os.path.isfile(%s): return item`" % cand)
    if not unresolved:
        r.fail("next|unresolved", "FortranReaderBase.next no longer returns the INCLUDE line as an ordinary item when the file is not found", m.loc(nx))
    # a file that was found is expanded: between the existence test and the construction of the nested reader no other path hands the
    # INCLUDE line on -- unless it is guarded by a collection that is also shrunk somewhere (a recursion guard with push AND pop)
    ctor0 = [c for c in A.calls(nx.node) if A.text(c.func) == "FortranFileReader"]
    chk = [n for n in A.body_nodes(nx.node) if isinstance(n, ast.If) and isinstance(n.test, ast.UnaryOp) and isinstance(n.test.operand, ast.Call)
           and A.dotted(n.test.operand.func) in ("os.path.isfile", "os.path.exists")]
    if ctor0 and chk:
        r.instances += 1
        lo, hi = chk[0].end_lineno, ctor0[0].lineno
        cls_node = nx.cls_node
        extra = []
        P_ = A.parents(nx.node)
        for n in A.body_nodes(nx.node):
            if isinstance(n, ast.Return) and lo < n.lineno < hi and n.value is not None and A.text(n.value) == item_var:
                guard_attrs = set()
                x = n
                while x in P_ and P_[x] is not nx.node:
                    p_ = P_[x]
                    if isinstance(p_, ast.If) and x in p_.body:
                        for c in ast.walk(p_.test):
                            if isinstance(c, ast.Compare) and isinstance(c.ops[0], (ast.In, ast.NotIn)):
                                for a_ in ast.walk(c.comparators[0]):
                                    if isinstance(a_, ast.Attribute) and isinstance(a_.value, ast.Name) and a_.value.id == "self":
                                        guard_attrs.add(a_.attr)
                    x = p_
                shrunk = False
                for ga in guard_attrs:
                    for y in ast.walk(cls_node) if cls_node is not None else ():
                        if isinstance(y, ast.Call) and isinstance(y.func, ast.Attribute) and y.func.attr in ("pop", "remove", "discard", "clear", "popleft") \
                                and A.text(y.func.value).endswith("." + ga):
                            shrunk = True
                        if isinstance(y, ast.Delete) and any(ga in A.text(t) for t in y.targets):
                            shrunk = True
                if not shrunk:
                    extra.append((n, sorted(guard_attrs)))
        r.ob(not extra, "next: a file that exists is always handed to a nested reader")
        for n, ga in extra:
            r.fail("next|found-not-expanded", "FortranReaderBase.next can return the INCLUDE line unexpanded although the file was found%s: "
                   "the second inclusion of a file (two routines including the same declarations) stays an Include_Stmt"
                   % (" (guarded by self.%s, which is only ever added to, never removed from)" % ga[0] if ga else ""), m.loc(nx, n))
    # options reach the nested reader
    r.instances += 1
    ctor = [c for c in A.calls(nx.node) if A.text(c.func) == "FortranFileReader"]
    ok = False
    if ctor:
        kw = {k.arg: A.text(k.value) for k in ctor[0].keywords}
        ok = kw.get("include_dirs") in (it, "self.include_dirs", "self.include_dirs[:]") and kw.get("ignore_comments") == "ignore_comments" \
            and cand and A.text(ctor[0].args[0]) == cand
        # every option the file reader shares with the base reader travels to the nested reader
        fk, bk = m.key("FortranFileReader", RF), m.key("FortranReaderBase", RF)
        fparams = A.param_names(m.method(fk, "__init__").node)[1:]
        bparams = A.param_names(m.method(bk, "__init__").node)[1:]
        missing_opts = [p_ for p_ in fparams if p_ in bparams and (p_ not in kw or p_.strip("_") not in kw[p_])]
        if missing_opts:
            ok = False
    r.ob(ok, "next: nested FortranFileReader(%s, include_dirs=..., ignore_comments=...)" % cand)
    if not ok:
        r.fail("next|nested-options", "the reader created for an included file does not receive the resolved path, the include "
               "directories and every reader option of the including reader (comment setting, OpenMP conditional lines, directive "
               "processing): lines of the included file are then classified differently from the same lines written in place",
               m.loc(nx, ctor[0]) if ctor else m.loc(nx))
    # the include reader is consulted first and dropped when exhausted
    r.instances += 1
    deleg = any(isinstance(n, ast.If) and A.text(n.test) in ("self.reader is not None", "self.reader") and
                any(isinstance(t, ast.Try) and any(A.text(c.func) == "self.reader.next" for c in ast.walk(t) if isinstance(c, ast.Call)) and
                    any(any(isinstance(x, ast.Assign) and A.text(x.targets[0]) == "self.reader" and A.const(x.value, 1) is None for x in h.body)
                        for h in t.handlers if h.type is not None and A.text(h.type) == "StopIteration")
                    for t in n.body) for n in A.body_nodes(nx.node))
    r.ob(deleg, "next: reads from the active include reader first; StopIteration from it resets self.reader")
    if not deleg:
        r.fail("next|delegate", "FortranReaderBase.next no longer reads from the active include reader first and drops it when it is exhausted", m.loc(nx))
    return r


def run(m, tier):
    ctx = cb.get_ctx(m)
    blocks = tables.engine_instances(m, "BlockBase")
    r1c = C11.r1_always_tried(m, ctx, blocks)
    r1c.rule = "C13.R3"
    r1c.title = "Include_Stmt is among the classes tried at every position (shared with C11.R1)"
    for f in r1c.findings:
        f.rule = "C13.R3"
    results = [r1_search(m), rr.rule_queue(m, "C13.R2"), r1c]
    r5 = C11.r2_nodes(m, ctx, blocks)
    r5.rule = "C13.R5"
    r5.title = "unresolved Include_Stmt nodes collected by a reader-level matcher are kept or restored when it reports no match (shared with C11.R2ii)"
    for f in r5.findings:
        f.rule = "C13.R5"
    results.append(r5)
    from rules import regex_rules
    results += regex_rules.c13_rules(m)
    r9 = C11.r11_strict_order(m, blocks, "C13.R9")
    r9.title = "a block that enforces the order of its classes lists only parts: Include_Stmt is appended after the listed classes, so elsewhere an unresolved INCLUDE between two statements would end their matching"
    results.append(r9)
    from rules import C08, order_rules
    from sa.report import retag
    results.append(order_rules.shared_state_rule(m, "C13.R7", ["fparser.common"], floor=12))
    results.append(order_rules.memo_purity_rule(m, "C13.R8", ("fparser.common.readfortran", "fparser.common.sourceinfo", "fparser.common.splitline"),
                                               ("include search and reading", "which file an INCLUDE line resolves to is decided from the file system as it is now, not as it was at an earlier parse"), 70))
    results.append(retag(C08.r4_opener_index(m), "C13.R6", "the block engine addresses the opening statement by start_idx: unresolved "
                         "Include_Stmt nodes collected before it come first in `content` (shared with C08.R4)"))
    from rules import reader_interp
    results.append(reader_interp.include_rule(m, "C13.R10", tier))
    from rules import prog_rules
    results.append(prog_rules.include_rule(m, "C13.R11", tier))
    expl = ("Decides structural clauses of C13: the include search visits self.include_dirs in order and stops at the first existing "
            "file; an unresolved INCLUDE line is returned as an ordinary item and Include_Stmt is tried at every position (per call "
            "site of the block engine and around program units, in both directive modes); the nested reader gets the path, the "
            "include directories and the comment setting; give-back is forwarded to the active include reader and nobody touches "
            "another reader's queue; the INCLUDE-line regex accepts exactly the quoted-file-name forms. Does NOT decide tree equality "
            "for every split point.")
    return results, expl
