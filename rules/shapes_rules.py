"""E4-based rules shared by C01, C02, C10."""
import ast

from sa import astutil as A
from sa.report import RuleResult

UTILS = "fparser.two.utils"


def rule_match_functions(m):
    """(class key, FuncInfo) for every distinct match/_match function of a rule class."""
    base = m.key("Base", UTILS)
    seen = {}
    for k in sorted(m.classes):
        if not m.issub(k, base):
            continue
        for nm in ("match", "_match"):
            f = m.method(k, nm)
            if f is not None and id(f) not in seen:
                seen[id(f)] = (k, f)
    return list(seen.values())


def is_ctor_call(m, f, node, locs):
    """node is a call of a rule class (by name) or of a class-valued parameter/local."""
    if not isinstance(node, ast.Call):
        return False
    fn = node.func
    base = m.key("Base", UTILS)
    if isinstance(fn, ast.Name):
        if fn.id in locs:
            return fn.id.endswith("cls") or fn.id == "cls"
        k = m.class_of_name(f, fn.id)
        return bool(k and m.issub(k, base))
    return False


def c10_rules(m):
    from sa.callgraph import CallGraph
    r = RuleResult("C10.R5", "every node a matcher returns is built by its own constructor call (no node object is reused)")
    r.floor = 300
    cg = CallGraph(m)
    for k, f in rule_match_functions(m):
        r.instances += 1
        locs = cg.locals_of(f)
        # local containers that memoise constructor results by key
        bad = None
        for n in A.body_nodes(f.node):
            if isinstance(n, ast.Assign) and len(n.targets) == 1 and isinstance(n.targets[0], ast.Subscript) \
                    and isinstance(n.targets[0].value, ast.Name) and n.targets[0].value.id in locs \
                    and not isinstance(n.targets[0].slice, ast.Constant):
                if any(is_ctor_call(m, f, x, locs) for x in ast.walk(n.value)):
                    cont = n.targets[0].value.id
                    # is the container read back with a variable key?
                    for y in A.body_nodes(f.node):
                        if isinstance(y, ast.Subscript) and isinstance(y.ctx, ast.Load) and isinstance(y.value, ast.Name) \
                                and y.value.id == cont and not isinstance(y.slice, (ast.Constant, ast.Slice)):
                            bad = (n, cont)
            if isinstance(n, ast.Call) and isinstance(n.func, ast.Attribute) and n.func.attr == "setdefault" \
                    and isinstance(n.func.value, ast.Name) and n.func.value.id in locs and len(n.args) == 2 \
                    and any(is_ctor_call(m, f, x, locs) for x in ast.walk(n.args[1])):
                bad = (n, n.func.value.id)
        # the same constructor-result variable twice in one returned tuple
        ctor_vars = set()
        for n in A.body_nodes(f.node):
            if isinstance(n, ast.Assign) and len(n.targets) == 1 and isinstance(n.targets[0], ast.Name) and is_ctor_call(m, f, n.value, locs):
                ctor_vars.add(n.targets[0].id)
        dup = None
        for ret in A.returns(f.node):
            if isinstance(ret.value, ast.Tuple):
                names = [e.id for e in ret.value.elts if isinstance(e, ast.Name) and e.id in ctor_vars]
                for x in set(names):
                    if names.count(x) > 1:
                        dup = (ret, x)
        if bad:
            r.ob(False)
            r.fail("%s|memo|%s" % (f.qualname, bad[1]), "%s keeps constructed nodes in the local container `%s` and reads them back by "
                   "key: two occurrences with the same key become one node object placed twice in the tree" % (f.qualname, bad[1]),
                   m.loc(f, bad[0]))
        elif dup:
            r.ob(False)
            r.fail("%s|dup|%s" % (f.qualname, dup[1]), "%s returns the node `%s` twice in one tuple" % (f.qualname, dup[1]), m.loc(f, dup[0]))
        else:
            r.ob(True, "%s: no node reuse" % f.qualname)
    return [r]


def c14_rules(m):
    return []
