"""E4-based rules shared by C01, C02, C10."""
import ast

from sa import astutil as A
from sa.report import RuleResult

UTILS = "fparser.two.utils"


def rule_match_functions(m):
    """(class key, FuncInfo) for every distinct match/_match function of a rule class."""
    base = m.key("Base", UTILS)
    seen = {}
    for k in sorted(m.classes):
        if not m.issub(k, base):
            continue
        for nm in ("match", "_match"):
            f = m.method(k, nm)
            if f is not None and id(f) not in seen:
                seen[id(f)] = (k, f)
    return list(seen.values())


def is_ctor_call(m, f, node, locs):
    """node is a call of a rule class (by name) or of a class-valued parameter/local."""
    if not isinstance(node, ast.Call):
        return False
    fn = node.func
    base = m.key("Base", UTILS)
    if isinstance(fn, ast.Name):
        if fn.id in locs:
            return fn.id.endswith("cls") or fn.id == "cls"
        k = m.class_of_name(f, fn.id)
        return bool(k and m.issub(k, base))
    return False


def c10_rules(m):
    from sa.callgraph import CallGraph
    r = RuleResult("C10.R5", "every node a matcher returns is built by its own constructor call (no node object is reused)")
    r.floor = 300
    cg = CallGraph(m)
    for k, f in rule_match_functions(m):
        r.instances += 1
        locs = cg.locals_of(f)
        # local containers that memoise constructor results by key
        bad = None
        for n in A.body_nodes(f.node):
            if isinstance(n, ast.Assign) and len(n.targets) == 1 and isinstance(n.targets[0], ast.Subscript) \
                    and isinstance(n.targets[0].value, ast.Name) and n.targets[0].value.id in locs \
                    and not isinstance(n.targets[0].slice, ast.Constant):
                if any(is_ctor_call(m, f, x, locs) for x in ast.walk(n.value)):
                    cont = n.targets[0].value.id
                    # is the container read back with a variable key?
                    for y in A.body_nodes(f.node):
                        if isinstance(y, ast.Subscript) and isinstance(y.ctx, ast.Load) and isinstance(y.value, ast.Name) \
                                and y.value.id == cont and not isinstance(y.slice, (ast.Constant, ast.Slice)):
                            bad = (n, cont)
            if isinstance(n, ast.Call) and isinstance(n.func, ast.Attribute) and n.func.attr == "setdefault" \
                    and isinstance(n.func.value, ast.Name) and n.func.value.id in locs and len(n.args) == 2 \
                    and any(is_ctor_call(m, f, x, locs) for x in ast.walk(n.args[1])):
                bad = (n, n.func.value.id)
        # the same constructor-result variable twice in one returned tuple
        ctor_vars = set()
        for n in A.body_nodes(f.node):
            if isinstance(n, ast.Assign) and len(n.targets) == 1 and isinstance(n.targets[0], ast.Name) and is_ctor_call(m, f, n.value, locs):
                ctor_vars.add(n.targets[0].id)
        dup = None
        for ret in A.returns(f.node):
            if isinstance(ret.value, ast.Tuple):
                names = [e.id for e in ret.value.elts if isinstance(e, ast.Name) and e.id in ctor_vars]
                for x in set(names):
                    if names.count(x) > 1:
                        dup = (ret, x)
        if bad:
            r.ob(False)
            r.fail("%s|memo|%s" % (f.qualname, bad[1]), "%s keeps constructed nodes in the local container `%s` and reads them back by "
                   "key: two occurrences with the same key become one node object placed twice in the tree" % (f.qualname, bad[1]),
                   m.loc(f, bad[0]))
        elif dup:
            r.ob(False)
            r.fail("%s|dup|%s" % (f.qualname, dup[1]), "%s returns the node `%s` twice in one tuple" % (f.qualname, dup[1]), m.loc(f, dup[0]))
        else:
            r.ob(True, "%s: no node reuse" % f.qualname)
    return [r]


def c14_rules(m):
    return []


# =================================================================================================
# C01 / C02: matcher <-> printer shape agreement
# =================================================================================================
# elements a printer leaves out on purpose, with the reason (confirmed by reading)
UNPRINTED_OK = {
    ("Block_Stmt", 1): "the synthetic scope name of an unnamed BLOCK (the property exempts it)",
    ("Data_Edit_Desc", 3): "always None for the descriptors this printer handles",
    ("Data_Edit_Desc", 4): "always None for the descriptors this printer handles",
    ("Critical_Stmt", 0): "the keyword CRITICAL itself; the printer emits the same literal",
    ("Cpp_Linemarker_Stmt", 1): "the head pattern ends in .*$ and consumes the whole line, so no tail is ever matched",
}


def _names_read(f, names):
    used = set()
    for n in A.body_nodes(f.node):
        if isinstance(n, ast.Name) and isinstance(n.ctx, ast.Load) and n.id in names:
            used.add(n.id)
    return used


def resolve_printer(m, key):
    """The printer function(s) that render a node's items: tostr (following `return Base.tostr(self)` delegation)."""
    f = m.method(key, "tostr")
    return f


def _in_test_only(P, node, func):
    """The expression `node` is used only to decide a branch (inside an if/while/ifexp test, a comparison or a boolean
    operator), i.e. its value cannot flow into the printed string from this occurrence."""
    cur = node
    while cur in P and P[cur] is not func:
        p = P[cur]
        if isinstance(p, (ast.If, ast.While, ast.IfExp)) and cur is p.test:
            return True
        if isinstance(p, ast.Assert):
            return True
        if isinstance(p, (ast.Compare,)) or (isinstance(p, ast.UnaryOp) and isinstance(p.op, ast.Not)):
            pass          # keep climbing: a comparison may still be an argument of something printed (rare) -> decided by the enclosing test
        if isinstance(p, ast.stmt):
            return False
        cur = p
    return False


def printer_reads(m, key, f, depth=0):
    """(set of indices whose VALUE is used, whole-tuple flag, usage record) for printer f of class key, following
    delegation.  An index that only occurs in branch conditions (`if self.items[1] is None`) does not count: the element
    must flow into what is returned on some path."""
    from sa import shapes as SH
    u = SH.printer_use(f)
    P0 = A.parents(f.node)
    test_only = set()
    value_used = set()
    for n in A.body_nodes(f.node):
        if isinstance(n, ast.Subscript) and isinstance(n.value, ast.Attribute) and n.value.attr in ("items", "children") \
                and isinstance(n.value.value, ast.Name) and n.value.value.id == "self":
            idx = None
            if isinstance(n.slice, ast.Constant) and isinstance(n.slice.value, int):
                idx = n.slice.value
            elif isinstance(n.slice, ast.UnaryOp) and isinstance(n.slice.op, ast.USub) and isinstance(n.slice.operand, ast.Constant):
                idx = -n.slice.operand.value
            if idx is None:
                continue
            if _in_test_only(P0, n, f.node):
                test_only.add(idx)
            else:
                value_used.add(idx)
    u.indices = set(i for i in u.indices if i in value_used or i not in test_only)
    # self.children[k] is self.items[k] for non-block nodes
    P = A.parents(f.node)
    for n in A.body_nodes(f.node):
        if isinstance(n, ast.Attribute) and n.attr == "children" and isinstance(n.value, ast.Name) and n.value.id == "self":
            p = P.get(n)
            if isinstance(p, ast.Subscript) and isinstance(p.slice, ast.Constant) and isinstance(p.slice.value, int):
                u.indices.add(p.slice.value)
            else:
                u.whole.append(("children", None, p))
    unpack_reads = set()
    for cnt, node in u.unpack:
        names = [e.id if isinstance(e, ast.Name) else None for e in node.targets[0].elts]
        used = set()
        for x in A.body_nodes(f.node):
            if isinstance(x, ast.Name) and isinstance(x.ctx, ast.Load) and x.id in names and not _in_test_only(P0, x, f.node):
                used.add(x.id)
        for i, nm in enumerate(names):
            if nm in used:
                unpack_reads.add(i)
    whole = any(k in ("format", "tuple", "iterate", "passed", "format-call", "children") for k, _, _ in u.whole)
    # slices: self.items[a:b]
    for k, _, node in u.whole:
        if k == "slice":
            whole = True
    reads = set(u.indices) | unpack_reads
    deleg = False
    if depth < 3:
        for c in u.delegates:
            tgt = None
            if isinstance(c.func.value, ast.Name):
                k2 = m.class_of_name(f, c.func.value.id)
                if k2:
                    tgt = m.method(k2, c.func.attr)
            if tgt is not None and tgt is not f:
                r2, w2, u2 = printer_reads(m, key, tgt, depth + 1)
                reads |= r2
                whole |= w2
            else:
                deleg = True
    # other methods of the same class called on self that read items (e.g. tostr_a)
    for n in A.body_nodes(f.node):
        if isinstance(n, ast.Call) and isinstance(n.func, ast.Attribute) and isinstance(n.func.value, ast.Name) and n.func.value.id == "self" \
                and n.func.attr not in ("tostr",) and depth < 3:
            g = m.method(key, n.func.attr)
            if g is not None and g is not f:
                r2, w2, _ = printer_reads(m, key, g, depth + 1)
                reads |= r2
                whole |= w2
    return reads, whole or deleg or u.dynamic, u


def flat_kinds(k):
    if isinstance(k, tuple) and k and k[0] == "alt":
        out = set()
        for x in k[1]:
            out |= flat_kinds(x)
        return out
    return {k}


def c01_rules(m):
    from sa import shapes as SH
    from sa.callgraph import CallGraph
    cg = CallGraph(m)
    S = SH.Shapes(m, cg)
    base = m.key("Base", UTILS)
    block = m.key("BlockBase", UTILS)
    r1 = RuleResult("C01.R1", "every rule class that can build a node has a printer")
    r1.floor = 320
    r2 = RuleResult("C01.R2", "the arity a matcher returns is the arity its init accepts and its printer indexes/formats/unpacks")
    r2.floor = 250
    r3 = RuleResult("C01.R3", "every element a matcher can put into a node is read by the node's printer")
    r3.floor = 225
    n_open = 0
    for k in sorted(m.classes):
        c = m.classes[k]
        if not m.issub(k, base):
            continue
        mf = m.method(k, "match")
        if mf is None and not m.is_generated_method(k, "match"):
            continue
        name = c["name"]
        # ---- R1
        r1.instances += 1
        pf = m.method(k, "tostr")
        has_printer = pf is not None
        if m.issub(k, block):
            has_printer = m.method(k, "tofortran") is not None
        ss = S.of_func(mf) if mf is not None else None
        builds = True if ss is None else bool(ss.shapes or ss.open)
        if builds and not has_printer:
            r1.ob(False)
            r1.fail("%s|no-printer" % name, "%s.match can build a node but no tostr/tofortran resolves for it: str() of such a node raises "
                    "AttributeError" % name, m.loc(mf) if mf else None)
        else:
            r1.ob(True, "%s: printer %s" % (name, (m.method_owner(k, "tostr") or m.method_owner(k, "tofortran") or "?").split(":")[-1]) if r1.instances % 60 == 1 else None)
        if mf is None or ss is None or m.issub(k, block) or pf is None:
            continue
        if ss.open:
            n_open += 1
        ar = ss.arities()
        if not ar:
            continue
        # ---- R2
        r2.instances += 1
        init = m.method(k, "init")
        issues = []
        if init is not None and not init.node.args.vararg:
            ps = A.param_names(init.node)[1:]
            req = [p for p in ps if p not in A.param_defaults(init.node)]
            for a in ar:
                if not (len(req) <= a <= len(ps)):
                    issues.append(("init", "match returns %d values but %s takes %d" % (a, init.qualname, len(ps)), init))
        reads, whole, u = printer_reads(m, k, pf)
        init_owner = m.method_owner(k, "init") or ""
        items_is_result = init_owner.endswith(":Base")       # items == the returned tuple
        if items_is_result:
            amin, amax = min(ar), max(ar)
            guarded = {n for op, n, _ in u.len_guards}
            for idx in sorted(u.indices):
                need = idx + 1 if idx >= 0 else -idx
                if need > amax or (need > amin and not u.len_guards and not ss.open):
                    issues.append(("index", "the printer reads items[%d] but the matcher returns %s values" % (idx, sorted(ar)), pf))
            for kind, nconv, node in u.whole:
                if kind == "format" and nconv is not None and nconv not in ar and not ss.open:
                    issues.append(("format", "`%s` has %d conversions but the matcher returns %s values" % (A.text(node)[:50], nconv, sorted(ar)), pf))
            for cnt, node in u.unpack:
                if cnt not in ar and not ss.open:
                    issues.append(("unpack", "`%s` unpacks %d values but the matcher returns %s" % (A.text(node)[:50], cnt, sorted(ar)), pf))
            for op, n, node in u.len_guards:
                if n not in ar and not ss.open and op in ("NotEq", "Eq"):
                    issues.append(("len-guard", "`%s` compares with %d but the matcher returns %s values" % (A.text(node)[:40], n, sorted(ar)), pf))
        r2.ob(not issues, "%s: arities %s, printer indices %s" % (name, sorted(ar), sorted(u.indices)) if r2.instances % 50 == 1 else None)
        for kind, msg, fn in issues[:2]:
            r2.fail("%s|%s" % (name, kind), "%s: %s" % (name, msg), m.loc(fn))
        # ---- R3
        if not items_is_result:
            continue
        r3.instances += 1
        unread = []
        if not whole:
            for a in ar:
                for i in range(a):
                    if i in reads or (i - a) in reads:
                        continue
                    kinds = set()
                    for s in ss.shapes:
                        if len(s) == a:
                            kinds |= flat_kinds(s[i])
                    harmless = all(x == "none" or (isinstance(x, tuple) and x[0] == "lit") for x in kinds)
                    if harmless or (name, i) in UNPRINTED_OK:
                        continue
                    unread.append((i, a, kinds))
        r3.ob(not unread, "%s: all %s elements read" % (name, sorted(ar)) if r3.instances % 50 == 1 else None)
        for i, a, kinds in unread[:2]:
            r3.fail("%s|unread|%d" % (name, i), "%s: the matcher can store %s in items[%d] (of %d) but the printer %s never reads it: that part "
                    "of the source is dropped from the regenerated text" % (name, sorted(map(str, kinds))[:3], i, a, pf.qualname), m.loc(pf))
    r1.notes.append("%d matchers with an undetermined (open) return among determinate ones" % n_open)
    return [r1, r2, r3, block_printers(m)]


def _derived(stmts, var):
    """var and the locals computed from it in these statements (`text = var.tofortran(...)`; then `lines.append(text)` emits var)"""
    names = {var}
    for _ in range(3):
        for s in stmts:
            for n in ast.walk(s):
                if isinstance(n, ast.Assign) and len(n.targets) == 1 and isinstance(n.targets[0], ast.Name) and (A.names_in(n.value) & names):
                    names.add(n.targets[0].id)
    return names


def _always_appends(stmts, var, names=None):
    """Every path through stmts appends <var>.tofortran(...) (or str(var), or a local computed from var) to some list, with no early exit."""
    names = names or _derived(stmts, var)
    for s in stmts:
        if isinstance(s, (ast.Continue, ast.Break, ast.Return)):
            return False
        if isinstance(s, ast.Expr) and isinstance(s.value, ast.Call) and isinstance(s.value.func, ast.Attribute) and s.value.func.attr == "append" \
                and s.value.args and (names & A.names_in(s.value.args[0])):
            return True
        if isinstance(s, ast.If):
            if s.orelse and _always_appends(s.body, var, names) and _always_appends(s.orelse, var, names):
                return True
            if any(isinstance(x, (ast.Continue, ast.Break, ast.Return)) for b in (s.body, s.orelse) for y in b for x in ast.walk(y)):
                return False
    return False


def block_printers(m):
    r = RuleResult("C01.R8", "every block printer emits all of the block's content: the first, every middle and the last statement")
    r.floor = 6
    block = m.key("BlockBase", UTILS)
    seen = set()
    for k in sorted(m.classes):
        if not m.issub(k, block):
            continue
        f = m.method(k, "tofortran")
        if f is None or id(f) in seen:
            continue
        seen.add(id(f))
        r.instances += 1
        loops = [n for n in A.body_nodes(f.node) if isinstance(n, ast.For)]
        full = [lp for lp in loops if A.text(lp.iter) == "self.content"]
        middle = [lp for lp in loops if A.text(lp.iter) == "self.content[1:-1]"]
        why = None
        if full:
            if not _always_appends(full[0].body, A.text(full[0].target)):
                why = "the loop over self.content does not emit every statement on every path"
        elif middle:
            if not _always_appends(middle[0].body, A.text(middle[0].target)):
                why = "the loop over self.content[1:-1] does not emit every statement on every path"
            txt = " ".join(A.text(x) for x in A.body_nodes(f.node) if isinstance(x, (ast.Assign, ast.Expr)))
            first_var = [A.text(n.targets[0]) for n in A.body_nodes(f.node) if isinstance(n, ast.Assign) and A.text(n.value) == "self.content[0]"]
            last_var = [A.text(n.targets[0]) for n in A.body_nodes(f.node) if isinstance(n, ast.Assign) and A.text(n.value) == "self.content[-1]"]
            def emitted(var):
                names = _derived(f.node.body, var)
                return any(isinstance(c, ast.Call) and isinstance(c.func, ast.Attribute) and c.func.attr == "append" and c.args
                           and (names & A.names_in(c.args[0])) for c in A.calls(f.node))
            if not first_var or not emitted(first_var[0]):
                why = "the first statement (self.content[0]) is not emitted"
            elif not last_var or not emitted(last_var[0]):
                why = "the last statement (self.content[-1]) is not emitted"
        else:
            why = None
            r.error("%s: block printer shape not recognised" % f.qualname)
            continue
        r.ob(why is None, "%s covers first/middle/last of self.content" % f.qualname)
        if why:
            r.fail("%s|coverage" % f.qualname, "%s: %s -- those statements vanish from the regenerated source" % (f.qualname, why), m.loc(f))
    return r
