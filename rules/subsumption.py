"""Rules whose verdict is contained in that of another rule of the same check.

The table-based rules of the reader (one loop iteration / one function interpreted on a hand-written table, with stub objects and
the function's *local names* injected) and the flow rules keyed to those names were written before the reader was interpreted as a
whole (rules/reader_interp.py).  They are kept -- their reports are more local -- but they are bound to the shape and the local names
of `get_source_item` & co.: a behaviour-preserving refactoring makes them lose their anchor.  When that happens and the rule that
decides the same behaviour on the whole reader ran in the same check, met its floor and reported no analysis error, the loss of the
anchor is recorded as a note, not as an analysis error: the behaviour is still decided, by the other rule.  A finding is never
suppressed by this table, and without the subsuming rule the vanished anchor fails the run as before."""

# fragment rule -> the whole-reader / whole-program rule of the same property that decides the same behaviour
SUBSUMED_BY = {
    # free-form continuation loop, inline comments, ';' splitting, quote state, spans, line counter, queue discipline
    "C01.R19": "C01.R32", "C01.R31": "C01.R32", "C01.R25": "C01.R32",
    "C02.R8": "C02.R27", "C02.R10": "C02.R27", "C02.R11": "C02.R27", "C02.R14": "C02.R27", "C02.R19": "C02.R27",
    "C04.R4": "C04.R12", "C04.R7": "C04.R12",
    "C05.R5": "C05.R12", "C05.R7": "C05.R12", "C05.R8": "C05.R12",
    "C04.R1": "C04.R12", "C04.R2": "C04.R12", "C04.R6": "C04.R12", "C04.R8": "C04.R12", "C04.R9": "C04.R12",
    "C05.R6": "C05.R12", "C05.R9": "C05.R12", "C05.R10": "C05.R12",
    "C07.R3": "C07.R12", "C07.R4": "C07.R12", "C07.R8": "C07.R12", "C07.R11": "C07.R12",
    "C11.R5": "C11.R13", "C11.R6": "C11.R13", "C11.R7": "C11.R13", "C11.R10": "C11.R13",
    "C12.R1": "C12.R10", "C12.R2": "C12.R10", "C12.R3": "C12.R10", "C12.R4": "C12.R10", "C12.R5": "C12.R10", "C12.R6": "C12.R10",
    "C12.R8": "C12.R10",
    "C13.R2": "C13.R10",
    "C14.R3": "C14.R13", "C14.R7": "C14.R13", "C14.R8": "C14.R13",
    "C15.R5": "C15.R7",
    "C19.R18": "C19.R19",
    "C19.R20": "C19.R19",
    "C16.R4": "C16.R11",
}


def apply(results, known_ids=()):
    """demote the analysis errors (and the floor test) of a subsumed rule that found nothing wrong, when its subsuming rule is sound"""
    by_id = {r.rule.strip(): r for r in results}
    for r in results:
        sup = by_id.get(SUBSUMED_BY.get(r.rule.strip(), ""))
        if sup is None or r.findings:
            continue
        if sup.errors or sup.instances < sup.floor or any(f.fid not in known_ids for f in sup.findings):
            continue
        lost = r.errors or r.instances < r.floor
        if lost:
            why = "; ".join(r.errors) if r.errors else "only %d instances (floor %d)" % (r.instances, r.floor)
            r.notes.append("anchor lost (%s): not decided by this rule; the same behaviour is decided on the whole reader by %s in this run"
                           % (why[:300], sup.rule))
            r.errors = []
            r.floor = 0
