"""Whole programs parsed by interpretation.

The statement level is rules/two_roundtrip.py (`World.full_parse`: the rule classes' matchers and the generic engines, interpreted);
the reader is rules/reader_interp.py (the whole of fparser.common.readfortran, interpreted), and so are the symbol tables.  This module
joins them: `Base.__new__`, `BlockBase.match`, the block classes, `Program`, `Comment`, the include and directive matchers, the
`FortranSyntaxError` constructor, `_set_parent`, `walk`, the printers -- everything between the reader and the statement matchers -- is
interpreted from its AST as well, so that a small Fortran source goes through all three layers without any repository code being
imported or run.  What comes back is a tree of `Inst` records (class key, items/content, parent, item), the interpreted symbol tables and,
for an invalid source, the exception the parser would raise with its message.

Anything the evaluator cannot interpret is reported as Unsupported: a rule turns that into an analysis error, never a verdict.
"""
import ast
import re

from sa import astutil as A
from sa import pureeval as PE
from rules import reader_interp as RI
from rules import two_roundtrip as TR

UT = "fparser.two.utils"
F03 = "fparser.two.Fortran2003"
C99 = "fparser.two.C99Preprocessor"
ST = "fparser.two.symbol_table"
RF = "fparser.common.readfortran"


def key_of(x):
    """the model key of a class reference or of an instance of either world (None for host values)"""
    if isinstance(x, (TR.ClassRef, RI.ClassRef)):
        return x.key
    if isinstance(x, TR.Inst):
        return x.cls.key
    if isinstance(x, RI.Inst):
        return x.key
    return None


class PWorld(TR.World):
    def __init__(self, m, std="f2003"):
        TR.World.__init__(self, m, std)
        self.parse_all = True
        self.rw = RI.World(m, mods=(RI.SL, RI.SI, RI.RF, ST))
        import collections
        self.rw.ev.g["namedtuple"] = collections.namedtuple
        g = self.ev.g
        rg = self.rw.ev.g
        self.ev.max_steps = 60000000
        self.rw.ev.max_steps = 60000000
        # the parser sees the reader's classes; the reader (Line.parse_line) and the symbol tables see the parser's
        for name in ("FortranReaderBase", "FortranStringReader", "FortranFileReader", "Line", "Comment", "CppDirective", "MultiLine",
                     "SyntaxErrorLine", "FortranReaderError"):
            if name in self.rw.classes:
                g["RF_" + name] = self.rw.cls(name)
        g["FortranReaderBase"] = self.rw.cls("FortranReaderBase")
        g["CppDirective"] = self.rw.cls("CppDirective")
        for name in ("Line", "MultiLine", "SyntaxErrorLine", "FortranStringReader", "FortranFileReader"):
            if name in self.rw.classes and name not in g:
                g[name] = self.rw.cls(name)
        g["readfortran"] = PE.Obj({n: self.rw.cls(n) for n in ("Comment", "Line", "CppDirective", "FortranReaderBase", "MultiLine")
                                   if n in self.rw.classes})
        for mod in (C99,):
            path = m.modfile.get(mod)
            for (p_, q), f in m.funcs.items():
                if p_ == path and "." not in q and q not in g:
                    g[q] = (lambda fn: (lambda *a, **k: self.ev.run_function(fn.node, list(a), k)))(f)
            for name, val in PE.module_regexes(m, mod).items():
                g.setdefault(name, val)
        for k, c in m.classes.items():
            if c["module"] == C99 and c["name"] not in g:
                self.classes.setdefault(c["name"], k)
                g[c["name"]] = TR.ClassRef(self, k)
        # mixins and helpers that are not rule classes
        for k, c in m.classes.items():
            if c["module"] in (UT, F03) and c["name"] not in g and not c["name"].endswith("Error") and c["name"] != "FparserException":
                g[c["name"]] = TR.ClassRef(self, k)
                self.classes.setdefault(c["name"], k)
        # names under which the modules of the grammar import each other's classes (`... import Intrinsic_Name as F2003_Intrinsic_Name`)
        for path, (src_, tree) in m.files.items():
            pp = path.replace("\\", "/")
            if "/two/" not in pp or "/tests/" in pp:
                continue
            for node in tree.body:
                if isinstance(node, ast.ImportFrom) and node.module:
                    for al in node.names:
                        if al.asname and al.asname not in g:
                            k = m.key(al.name, node.module)
                            if k is not None:
                                g[al.asname] = TR.ClassRef(self, k)
        self.registry = None
        g["isinstance"] = self.x_isinstance
        g["issubclass"] = self.x_issubclass
        rg["isinstance"] = self.x_isinstance
        g["hasattr"] = self.x_hasattr
        g["object"] = PE.Obj({"__new__": lambda cref, *a, **k: TR.Inst(self, cref.key, {})})
        g["type"] = self.x_type
        g["id"] = id
        di = PE.Obj({})
        world = self

        def di_get(ev, name):
            # utils.DynamicImport: the Fortran2003 module's own classes, whatever the standard in force
            if name == "C99Preprocessor":
                return world.module_obj(C99)
            if name == "add_comments_includes_directives":
                return g[name]
            if name == "Label_Do_Stmt_2008":
                k = m.key("Label_Do_Stmt", "fparser.two.Fortran2008.label_do_stmt_r816")
            else:
                k = m.key(name, F03)
            if k is None:
                raise PE.Unsupported("di.%s" % name)
            return TR.ClassRef(world, k)
        di.get = di_get
        g["di"] = di
        g["DynamicImport"] = PE.Obj({"add_comments_includes_directives": g["add_comments_includes_directives"]})
        self.tables = self.rw.cls("SymbolTables")()
        g["SYMBOL_TABLES"] = self.tables
        rg["Base"] = g["Base"]
        rg["Submodule_Stmt"] = g.get("Submodule_Stmt", type("Submodule_Stmt", (), {}))
        rg["SymbolTableError"] = lambda *a, **k: PE.PyRaise("SymbolTableError", " ".join(map(str, a)))
        g["SymbolTableError"] = "SymbolTableError"
        g["StopIteration"] = "StopIteration"
        g["KeyError"] = "KeyError"
        g["Exception"] = "Exception"
        g["logging"] = rg["logging"]
        # `getattr(sys.modules[__name__], "Cpp_If_Stmt")`: a module is the namespace its functions see
        anymod = PE.Obj({})
        anymod.get = lambda ev, name: g[name] if name in g else (_ for _ in ()).throw(PE.PyRaise("AttributeError", name))

        class _Modules(dict):
            def __missing__(self_, key):
                return anymod
        g["sys"] = PE.Obj(dict(rg["sys"].fields, modules=_Modules()))
        g.setdefault("__name__", "fparser.two")
        g["FortranSyntaxError"] = self.make_exc("FortranSyntaxError")
        g["InternalError"] = self.make_exc("InternalError")
        for exc in ("NoMatchError", "InternalSyntaxError", "FparserException"):
            g[exc] = (lambda e_: (lambda *a, **k: PE.PyRaise(e_, " ".join(map(str, a)))))(exc)
        self.construct_from = self._construct_from
        # the tokeniser itself, interpreted (the statement-level samples use a model of it)
        g["string_replace_map"] = lambda line, lower=False: self.rw.call(RI.SL, "string_replace_map", line, lower=lower)

    def module_obj(self, modname):
        """a module as its functions see it: classes, functions and constants of the interpreted namespace, and module-level
        literals (`CPP_CLASS_NAMES = [...]`) evaluated from the module's AST"""
        g = self.ev.g
        path = self.m.modfile.get(modname)
        tree = self.m.files[path][1] if path in self.m.files else None
        mod = PE.Obj({})

        def get(ev, name):
            if tree is not None:
                for node in tree.body:
                    if isinstance(node, ast.Assign) and len(node.targets) == 1 and isinstance(node.targets[0], ast.Name) \
                            and node.targets[0].id == name:
                        try:
                            return ast.literal_eval(node.value)
                        except (ValueError, SyntaxError):
                            return self.ev.ev(node.value, {})
            if name in g:
                return g[name]
            raise PE.PyRaise("AttributeError", "%s.%s" % (modname, name))
        mod.get = get
        return mod

    # ---------------------------------------------------------------- exceptions with an __init__ of their own
    def make_exc(self, name):
        k = self.m.key(name, UT)
        init = self.m.method(k, "__init__") if k else None

        def make(*args, **kw):
            if init is None:
                return PE.PyRaise(name, " ".join(map(str, args)))
            me = PE.Obj({})
            got = {}
            base = PE.Obj({"__init__": lambda self_, info="": got.__setitem__("msg", info)})
            saved = {n: self.ev.g.get(n) for n in ("FparserException", "Exception")}
            self.ev.g["FparserException"] = base
            self.ev.g["Exception"] = base
            try:
                self.ev.run_function(init.node, [me] + list(args), kw, env0={"super": lambda *a: PE.Obj({"__init__": lambda info="": got.__setitem__("msg", info)})})
            finally:
                for n, v in saved.items():
                    self.ev.g[n] = v
            return PE.PyRaise(name, str(got.get("msg", "")))
        return make

    # ---------------------------------------------------------------- classes across the worlds
    def x_isinstance(self, obj, cls):
        cs = cls if isinstance(cls, tuple) else (cls,)
        ko = key_of(obj) if not isinstance(obj, (TR.ClassRef, RI.ClassRef)) else None
        for c in cs:
            if isinstance(c, (TR.ClassRef, RI.ClassRef)):
                if ko is not None and ko in self.m.classes and self.m.issub(ko, c.key):
                    return True
                if isinstance(obj, TR.Tok) and obj.tag in self.classes and self.m.issub(self.classes[obj.tag], c.key):
                    return True
            elif isinstance(c, type):
                if isinstance(obj, c) and not isinstance(obj, PE.Obj):
                    return True
                if c in (PE.Obj,) and isinstance(obj, c):
                    return True
            elif isinstance(c, (str, PE.Obj)) or c is None:
                continue
            else:
                raise PE.Unsupported("isinstance on %r" % (c,))
        return False

    def x_issubclass(self, a, b):
        bs = b if isinstance(b, tuple) else (b,)
        ka = key_of(a)
        if ka is None:
            raise PE.Unsupported("issubclass on %r" % (a,))
        return any(key_of(c) is not None and self.m.issub(ka, key_of(c)) for c in bs)

    def x_hasattr(self, o, n):
        if isinstance(o, PE.Obj):
            try:
                o.get(self.ev, n)
                return True
            except PE.Unsupported:
                return False
            except PE.PyRaise as err:
                if err.exc_type == "AttributeError":
                    return False
                return True
        return hasattr(o, n)

    def x_type(self, obj):
        if isinstance(obj, RI.Inst):
            return RI.ClassRef(self.rw, obj.key)
        return self._type(obj)

    def class_attr(self, key, name, bind=None):
        if name == "subclasses":
            return self.get_registry()
        if name == "__name__":
            return key.split(":")[1]
        return TR.World.class_attr(self, key, name, bind=bind)

    def get_registry(self):
        """Base.subclasses as ParserFactory links it for this standard (names -> classes)"""
        if self.registry is None:
            reg = {}
            for name, keys in self.m.snap["registry"][self.std].items():
                reg[name] = [TR.ClassRef(self, k) for k in keys if k in self.m.classes]
            self.registry = reg
        return self.registry

    def find_new(self, key):
        m = self.m
        for kk in m.classes[key]["mro"]:
            cd = m.classdef(kk) if kk in m.classes else None
            if cd is None:
                continue
            for b in cd.body:
                if isinstance(b, ast.FunctionDef) and b.name == "__new__":
                    return kk, b
        return None

    def _construct_from(self, cref, arg, *a, **k):
        """`Cls(reader)`, `Cls(reader item)`, `Cls(node)`: what the class's own __new__ does, interpreted"""
        if isinstance(arg, (TR.Tok, TR.Inst)):
            return arg
        found = self.find_new(cref.key)
        if found is None:
            raise PE.Unsupported("%s has no __new__" % cref.name)
        kk, b = found

        def sup(*sa):
            raise PE.Unsupported("super() in __new__")
        obj = self.ev.run_function(b, [cref, arg] + list(a), k, env0={"super": sup, "__class__": TR.ClassRef(self, kk)})
        # type.__call__: when __new__ hands back an instance of the class, its __init__ runs with the same arguments
        if isinstance(obj, TR.Inst) and self.m.issub(obj.cls.key, cref.key):
            init = self.find_def(obj.cls.key, "__init__")
            if init is not None:
                self.ev.run_function(init[1], [obj, arg] + list(a), k)
        return obj

    def find_def(self, key, name):
        m = self.m
        for kk in m.classes[key]["mro"]:
            cd = m.classdef(kk) if kk in m.classes else None
            if cd is None:
                continue
            for b in cd.body:
                if isinstance(b, ast.FunctionDef) and b.name == name:
                    return kk, b
        return None

    # ---------------------------------------------------------------- running a parse
    def reader_for(self, source, mode=None, files=None, **opts):
        self.rw.files = dict(files or {})
        return RI.make_reader(self.rw, source, mode=mode, **opts)

    def parse(self, source, mode=None, files=None, _keep_tables=False, **opts):
        """-> ("tree", Inst) | ("error", exception type, message).  The symbol tables are emptied first (what creating a parser
        does) unless `_keep_tables`: then this parse follows the earlier ones as a second call of the same parser would."""
        self.ev.steps = 0
        self.rw.ev.steps = 0
        self.pev.steps = 0
        self._acc.clear()
        if not _keep_tables:
            self.tables.get(self.rw.ev, "clear")()
        # SYMBOL_TABLES.enable_checks(): a non-default configuration (duplicate declarations are then errors of the table)
        self.tables.get(self.rw.ev, "enable_checks")(bool(opts.pop("symbol_checks", False)))
        reader = self.reader_for(source, mode=mode, files=files, **opts)
        self.reader = reader
        try:
            tree = self.ev.g["Program"](reader)
        except PE.PyRaise as err:
            return ("error", err.exc_type, err.msg)
        return ("tree", tree)


def tree_shape(node, depth=0):
    """(class name, text or children) -- a printable structure of an interpreted tree"""
    if isinstance(node, TR.Inst):
        name = node.cls.name
        if "content" in node.fields:
            return (name, [tree_shape(c, depth + 1) for c in node.fields["content"]])
        return (name, str(node))
    if isinstance(node, TR.Tok):
        return (node.tag, node.text)
    return (type(node).__name__, repr(node))


def _fresh(world, node):
    """a copy of a statement tree with fresh node objects, its parent links set by the interpreted `_set_parent` (the memo of
    full_parse hands out one tree per (class, text); two statements with the same text are two trees)"""
    if isinstance(node, TR.Inst):
        new = TR.Inst(world, node.cls.key, {})
        for k, v in node.fields.items():
            new.fields[k] = _fresh(world, v) if k in ("items", "content") else v
        new.fields["parent"] = None
        kids = new.fields.get("items", new.fields.get("content"))
        if kids is not None:
            setp = world.ev.g.get("_set_parent")
            if setp is None:
                raise PE.Unsupported("_set_parent vanished")
            setp(new, kids)
        return new
    if isinstance(node, tuple):
        return tuple(_fresh(world, x) for x in node)
    if isinstance(node, list):
        return [_fresh(world, x) for x in node]
    return node


def _pw_full_parse(self, key, text, fuel=None):
    c = self.m.classes[key]
    if c.get("generated") and c["name"].endswith("_List") and c["name"][:-5] in self.classes:
        # a generated <X>_List: `def match(string): return SequenceBase.match(r',', X, string)`, then the alternative X
        ck = ("plist", key, text)
        if ck in self._acc:
            v = self._acc[ck]
            if isinstance(v, PE.PyRaise):
                raise v
            return _fresh(self, v)
        ek = self.classes[c["name"][:-5]]
        seq = self.m.method(self.m.key("SequenceBase", UT), "match")
        if seq is None:
            raise PE.Unsupported("SequenceBase.match vanished")
        try:
            res = self.ev.run_function(seq.node, [",", TR.ClassRef(self, ek), text])
        except PE.PyRaise as err:
            if err.exc_type != "NoMatchError":
                raise
            res = None
        if res is not None:
            node = TR.build(self, key, res, text)
        else:
            try:
                node = self.full_parse(ek, text)
            except PE.PyRaise as err:
                if err.exc_type == "NoMatchError":
                    err = PE.PyRaise("NoMatchError", "%s: %r" % (c["name"], text))
                    self._acc[ck] = err
                raise err
        self._acc[ck] = node
        return _fresh(self, node)
    return _fresh(self, TR.World.full_parse(self, key, text, fuel))


PWorld.full_parse = _pw_full_parse
