"""C19.R8 -- fparser1: text taken from the tokenised line (item.get_line(), where literals, parenthesised groups and real constants are
replaced by F2PY_* placeholders) passes through the inverse map before it is stored in an attribute the printer emits."""
import ast

from sa import astutil as A
from sa.report import RuleResult

ONE = ("fparser.one.statements", "fparser.one.typedecl_statements", "fparser.one.block_statements")
BC = "fparser.common.base_classes"

STR_PROP = {"strip", "lstrip", "rstrip", "lower", "upper", "replace", "split", "rsplit", "partition", "rpartition", "group", "groups",
            "groupdict", "join", "format", "expandtabs", "title", "capitalize", "pop", "copy", "get"}
NON_TEXT = {"find", "rfind", "index", "rindex", "startswith", "endswith", "count", "isdigit", "isalpha", "isalnum", "isspace", "start", "end", "span"}
SANITISING_HELPERS = set()   # filled by helper_summary(): helpers that undo the map on what they return when given the item


def helper_summary(m):
    """Module-level helpers of fparser.common.utils with an `item` parameter whose results have the replace map undone when the item is
    passed: they call item.apply_map / item.copy(..) themselves or hand the item to another such helper (fixpoint)."""
    mod = "fparser.common.utils"
    path = m.modfile.get(mod)
    cand = {}
    for (p, q), f in m.funcs.items():
        if p == path and "." not in q and any(a.arg in ("item", "newitem") for a in f.node.args.args):
            cand[q] = f
    good = set()
    changed = True
    while changed:
        changed = False
        for q, f in cand.items():
            if q in good:
                continue
            ok = any(isinstance(x, ast.Attribute) and x.attr == "apply_map" for x in ast.walk(f.node))
            for c in A.calls(f.node):
                if isinstance(c.func, ast.Name) and c.func.id in good and any(A.text(a) in ("item", "newitem") for a in c.args):
                    ok = True
            if ok:
                good.add(q)
                changed = True
    return good


def printed_attrs(m, k):
    """attributes read (transitively through self.to*/get_* helpers) by the printers of class k."""
    out = set()
    todo = [m.method(k, n) for n in ("tofortran", "tostr", "__str__")]
    seen = set()
    while todo:
        g = todo.pop()
        if g is None or id(g.node) in seen:
            continue
        seen.add(id(g.node))
        mapped = set()
        for n in A.body_nodes(g.node):
            if isinstance(n, ast.Call) and isinstance(n.func, ast.Attribute) and n.func.attr == "apply_map":
                for a in n.args:
                    for x in ast.walk(a):
                        mapped.add(id(x))
        for n in A.body_nodes(g.node):
            if isinstance(n, ast.Attribute) and isinstance(n.value, ast.Name) and n.value.id == "self" and isinstance(n.ctx, ast.Load) \
                    and id(n) not in mapped:
                out.add(n.attr)
            if isinstance(n, ast.Call) and isinstance(n.func, ast.Attribute) and isinstance(n.func.value, ast.Name) and n.func.value.id == "self":
                h = m.method(k, n.func.attr)
                if h is not None:
                    todo.append(h)
    return out


class Taint:
    def __init__(self, m, k, f):
        self.m, self.k, self.f = m, k, f
        self.tainted = set()        # local names holding tokenised text (or containers / match objects of it)
        self.item_names = {"item"}  # local names bound to self.item
        self.mappers = {"apply_map"}
        self.alias = {}             # local name -> self attribute it aliases (self.items = items = [])
        # methods of the class that undo the map themselves on what they are given
        self.clean_methods = set()
        for kk in m.classes[k]["mro"]:
            for name in m.classes.get(kk, {}).get("own", {}):
                g = m.method(kk, name)
                if g is not None and name not in ("process_item",) and \
                        any(isinstance(x, ast.Attribute) and x.attr == "apply_map" for x in ast.walk(g.node)):
                    self.clean_methods.add(name)

    def is_item(self, n):
        return (isinstance(n, ast.Name) and n.id in self.item_names) or A.text(n) == "self.item"

    def expr(self, n):
        """True when the value of n may be tokenised text."""
        if n is None:
            return False
        if isinstance(n, ast.Name):
            return n.id in self.tainted
        if isinstance(n, ast.Constant):
            return False
        if isinstance(n, ast.Call):
            fn = n.func
            d = A.dotted(fn) or ""
            if isinstance(fn, ast.Name) and fn.id in self.mappers:
                return False
            if isinstance(fn, ast.Attribute) and fn.attr == "apply_map":
                return False
            if isinstance(fn, ast.Attribute) and fn.attr == "get_line" and self.is_item(fn.value):
                return True
            if isinstance(fn, ast.Attribute) and fn.attr == "copy" and self.is_item(fn.value):
                return False
            if isinstance(fn, ast.Name) and fn.id in SANITISING_HELPERS:
                if any(self.is_item(a) for a in n.args[1:]) or any(self.is_item(kw.value) for kw in n.keywords):
                    return False
                return any(self.expr(a) for a in n.args)
            if isinstance(fn, ast.Attribute) and fn.attr in NON_TEXT:
                return False
            if d in ("len", "int", "bool", "isinstance", "hasattr", "is_name", "id", "repr"):
                return False
            if d in ("map", "list", "tuple") and n.args:
                if d == "map":
                    f0 = n.args[0]
                    if (isinstance(f0, ast.Name) and f0.id in self.mappers) or (isinstance(f0, ast.Attribute) and f0.attr == "apply_map"):
                        return False
                    return any(self.expr(a) for a in n.args[1:])
                return self.expr(n.args[0])
            if isinstance(fn, ast.Attribute) and A.text(fn.value) == "self" and fn.attr in self.clean_methods:
                return False
            if isinstance(fn, ast.Attribute) and fn.attr in STR_PROP:
                return self.expr(fn.value) or any(self.expr(a) for a in n.args)
            if isinstance(fn, ast.Attribute) and (A.text(fn.value) in ("self",) or self.expr(fn.value)):
                # self.item_re(line), self.some_re(line): a match object over tainted text
                return any(self.expr(a) for a in n.args) or self.expr(fn.value)
            if isinstance(fn, ast.Name):
                # a module-level regex callable (`_xyz_re(line)`) or helper: result derives from its arguments
                return any(self.expr(a) for a in n.args)
            return any(self.expr(a) for a in n.args)
        if isinstance(n, ast.Subscript):
            return self.expr(n.value)
        if isinstance(n, ast.Attribute):
            return self.expr(n.value) and n.attr not in ("label", "name", "span", "reader")
        if isinstance(n, ast.BinOp):
            if isinstance(n.op, ast.Mod) and isinstance(n.left, ast.Constant):
                return self.expr(n.right)
            return self.expr(n.left) or self.expr(n.right)
        if isinstance(n, (ast.Tuple, ast.List, ast.Set)):
            return any(self.expr(e) for e in n.elts)
        if isinstance(n, ast.IfExp):
            return self.expr(n.body) or self.expr(n.orelse)
        if isinstance(n, ast.BoolOp):
            return any(self.expr(v) for v in n.values)
        if isinstance(n, (ast.ListComp, ast.GeneratorExp, ast.SetComp)):
            save = set(self.tainted)
            for g in n.generators:
                if self.expr(g.iter):
                    self.tainted |= set(A.assigned_names(g.target))
            res = self.expr(n.elt)
            self.tainted = save
            return res
        if isinstance(n, ast.JoinedStr):
            return any(self.expr(v.value) for v in n.values if isinstance(v, ast.FormattedValue))
        if isinstance(n, (ast.Compare, ast.UnaryOp)):
            return False
        if isinstance(n, ast.Starred):
            return self.expr(n.value)
        return False

    # ---------------------------------------------------------------- ordered walk (kills taint on re-binding to clean values)
    def run(self):
        for n in A.body_nodes(self.f.node):
            if isinstance(n, ast.Assign) and len(n.targets) == 1 and isinstance(n.targets[0], ast.Name):
                if A.text(n.value) == "self.item":
                    self.item_names.add(n.targets[0].id)
                if isinstance(n.value, ast.Attribute) and n.value.attr == "apply_map":
                    self.mappers.add(n.targets[0].id)
        self.found = []
        self.block(self.f.node.body)
        return self

    def bind(self, target, tainted):
        if isinstance(target, ast.Name):
            (self.tainted.add if tainted else self.tainted.discard)(target.id)
        elif isinstance(target, (ast.Tuple, ast.List)):
            for e in target.elts:
                self.bind(e, tainted)
        elif isinstance(target, ast.Starred):
            self.bind(target.value, tainted)
        elif isinstance(target, ast.Attribute) and isinstance(target.value, ast.Name) and target.value.id == "self":
            if tainted:
                self.found.append((target.attr, self.cur))
            (self.tainted_attrs.add if tainted else self.tainted_attrs.discard)(target.attr)
        elif isinstance(target, ast.Subscript):
            base = target.value
            if tainted:
                if isinstance(base, ast.Name):
                    self.tainted.add(base.id)
                    if base.id in self.alias:
                        self.found.append((self.alias[base.id], self.cur))
                elif isinstance(base, ast.Attribute) and A.text(base.value) == "self":
                    self.found.append((base.attr, self.cur))

    tainted_attrs = None

    def block(self, stmts):
        if self.tainted_attrs is None:
            self.tainted_attrs = set()
        for s_ in stmts:
            self.stmt(s_)

    def calls_in(self, node):
        for c in ast.walk(node):
            if isinstance(c, ast.Call) and isinstance(c.func, ast.Attribute) and c.func.attr in ("append", "extend", "insert", "add", "appendleft"):
                recv = c.func.value
                t = any(self.expr(a) for a in c.args)
                if not t:
                    continue
                if isinstance(recv, ast.Name):
                    self.tainted.add(recv.id)
                    if recv.id in self.alias:
                        self.found.append((self.alias[recv.id], self.cur))
                elif isinstance(recv, ast.Attribute) and A.text(recv.value) == "self":
                    self.found.append((recv.attr, self.cur))

    def stmt(self, s_):
        self.cur = s_
        if isinstance(s_, ast.Assign):
            t = self.expr(s_.value)
            attrs = [x.attr for x in s_.targets if isinstance(x, ast.Attribute) and A.text(x.value) == "self"]
            for x in s_.targets:
                if isinstance(x, ast.Name):
                    for a_ in attrs:
                        self.alias[x.id] = a_
                    if isinstance(s_.value, ast.Attribute) and A.text(s_.value.value) == "self":
                        self.alias[x.id] = s_.value.attr
            self.calls_in(s_.value)
            for x in s_.targets:
                self.bind(x, t)
        elif isinstance(s_, ast.AugAssign):
            if self.expr(s_.value):
                self.bind(s_.target, True)
        elif isinstance(s_, ast.AnnAssign):
            if s_.value is not None:
                self.bind(s_.target, self.expr(s_.value))
        elif isinstance(s_, ast.Expr):
            self.calls_in(s_.value)
        elif isinstance(s_, ast.If):
            save = (set(self.tainted), set(self.tainted_attrs))
            self.block(s_.body)
            after_body = (self.tainted, self.tainted_attrs)
            self.tainted, self.tainted_attrs = set(save[0]), set(save[1])
            self.block(s_.orelse)
            # a branch that leaves the function does not flow on
            def leaves(b):
                return bool(b) and isinstance(b[-1], (ast.Return, ast.Raise, ast.Continue, ast.Break))
            if leaves(s_.body) and not leaves(s_.orelse):
                pass
            elif leaves(s_.orelse) and not leaves(s_.body):
                self.tainted, self.tainted_attrs = after_body
            else:
                self.tainted |= after_body[0]
                self.tainted_attrs |= after_body[1]
        elif isinstance(s_, (ast.For, ast.While)):
            for _ in range(2):
                if isinstance(s_, ast.For):
                    self.cur = s_
                    self.bind(s_.target, self.expr(s_.iter))
                before = (set(self.tainted), set(self.tainted_attrs))
                self.block(s_.body)
                self.tainted |= before[0]
                self.tainted_attrs |= before[1]
            self.block(s_.orelse)
        elif isinstance(s_, ast.Try):
            self.block(s_.body)
            for h in s_.handlers:
                self.block(h.body)
            self.block(s_.orelse)
            self.block(s_.finalbody)
        elif isinstance(s_, ast.With):
            self.block(s_.body)
        elif isinstance(s_, ast.Return):
            pass

    def sinks(self):
        seen, out = set(), []
        for attr, node in self.found:
            if (attr, id(node)) not in seen:
                seen.add((attr, id(node)))
                out.append((attr, node))
        return out


def regex_alphabet_excludes(pattern, flags, chars):
    """True when no string matched by the end-anchored pattern can contain any of `chars`."""
    from re import _parser as sp
    from re import _constants as sc
    if not pattern.rstrip().endswith(("\\Z", "$")) and not pattern.endswith("\\Z"):
        if not pattern.endswith("\\Z") and "\\Z" not in pattern[-4:]:
            return False

    def ok(tree):
        for op, av in tree:
            if op is sc.LITERAL:
                if chr(av) in chars:
                    return False
            elif op is sc.NOT_LITERAL or op is sc.ANY:
                return False
            elif op is sc.IN:
                neg = av and av[0][0] is sc.NEGATE
                if neg:
                    return False
                for o2, a2 in av:
                    if o2 is sc.LITERAL and chr(a2) in chars:
                        return False
                    if o2 is sc.RANGE and any(a2[0] <= ord(c) <= a2[1] for c in chars):
                        return False
                    if o2 is sc.CATEGORY and a2 in (sc.CATEGORY_NOT_SPACE, sc.CATEGORY_NOT_WORD, sc.CATEGORY_NOT_DIGIT):
                        return False
            elif op in (sc.MAX_REPEAT, sc.MIN_REPEAT, sc.POSSESSIVE_REPEAT):
                if not ok(av[2]):
                    return False
            elif op is sc.SUBPATTERN:
                if not ok(av[3]):
                    return False
            elif op is sc.BRANCH:
                if not all(ok(b) for b in av[1]):
                    return False
            elif op in (sc.ASSERT, sc.ASSERT_NOT):
                if op is sc.ASSERT and not ok(av[1]):
                    return False
            elif op is sc.CATEGORY:
                if av in (sc.CATEGORY_NOT_SPACE, sc.CATEGORY_NOT_WORD, sc.CATEGORY_NOT_DIGIT):
                    return False
            elif op is sc.AT:
                pass
            else:
                return False
        return True
    try:
        return ok(sp.parse(pattern, flags))
    except Exception:
        return False


def has_map_guard(f):
    """the function rules out placeholders up front: `if self.item.has_map(): <invalid> return` or `assert not self.item.has_map()`."""
    for s in f.node.body[:6]:
        if isinstance(s, ast.Assert) and "has_map()" in A.text(s.test) and isinstance(s.test, ast.UnaryOp):
            return True
        if isinstance(s, ast.If) and A.text(s.test).endswith("has_map()") and any(isinstance(x, ast.Return) for x in s.body):
            return True
    return False


# Pieces the analysis cannot prove clean, confirmed by reading: each is text OUTSIDE any parenthesis at a position where Fortran
# requires a name, a label or a keyword.  Outside parentheses and quotes the only placeholder the map introduces stands for a
# real constant with an exponent, which a valid program cannot have at such a position; names in parentheses are not replaced.
TRIAGE = {
    "SubProgramStatement.name": "the subprogram name between FUNCTION/SUBROUTINE and '('",
    "SubProgramStatement.prefix": "RECURSIVE/PURE/ELEMENTAL keywords before FUNCTION/SUBROUTINE; a typed prefix is split off by the type-declaration class before",
    "Type.name": "validated by is_name() (statement invalid otherwise)",
    "Type.specs": "type-attr-specs are keywords or KEYWORD(name); a name in parentheses is not replaced by the map",
    "ArithmeticIf.labels": "the three labels after the closing parenthesis (the class pattern demands \\d+ there)",
    "AssignedGoto.varname": "the integer variable name before '('",
    "Case.name": "the construct name after the closing parenthesis",
    "ClassIs.name": "the construct name after the closing parenthesis",
    "TypeIs.name": "the construct name after the closing parenthesis",
    "ElseIf.name": "the construct name after THEN",
    "ElseWhere.name": "the construct name after the mask's closing parenthesis",
    "Check.value": "f2py CHECK(...) :: name-list, text after the closing parenthesis",
    "Common.items": "the /block-name/ between slashes; the object lists go through split_comma with the item",
    "Depend.items": "f2py DEPEND(...) name-list after the closing parenthesis",
    "Entry.name": "the entry name matched by \\w+ before '('",
    "GeneralAssignment.sign": "the regex group (?P<sign>=\\>?): '=' or '=>'",
    "GenericBinding.aspec": "access-spec keyword before '::'",
    "GenericBinding.items": "binding-name-list after '=>': names",
    "Intent.items": "dummy-arg-name-list, each validated by is_name()",
    "Namelist.items": "namelist group names and object name lists: names only",
    "SpecificBinding.iname": "interface name in parentheses: a name in parentheses is not replaced by the map",
    "SpecificBinding.name": "binding name before '=>'",
    "SpecificBinding.bname": "procedure name after '=>'",
    "Use.name": "module name",
    "Use.nature": "validated by is_name()",
    "TypeDeclarationStatement.selector": "the '*<digits>[_kind]' length matched by \\d+(_\\w+|)|[*]; parenthesised selectors go through apply_map",
}


def class_match_pattern(m, k):
    for kk in m.classes[k]["mro"]:
        ent = m.classes.get(kk, {}).get("own", {}).get("match")
        if ent is not None:
            pats = ent.get("patterns")
            if pats and pats[0].get("kind") in ("re_method", "re") and pats[0].get("method", "match") == "match":
                return pats[0]["pattern"], pats[0].get("flags", 0)
            return None
    return None


def taint_rule(m, rid, triage=None):
    r = RuleResult(rid, "fparser1: every piece of the tokenised line that a statement stores and its printer emits has the replace map undone "
                        "(apply_map / a splitting helper given the item), or the statement rules placeholders out with has_map()")
    r.floor = 60
    stmt = m.key("Statement", BC)
    triage = TRIAGE if triage is None else triage
    SANITISING_HELPERS.clear()
    SANITISING_HELPERS.update(helper_summary(m))
    r.notes.append("helpers that undo the map when given the item (derived): %s" % sorted(SANITISING_HELPERS))
    used_triage = set()
    if len(SANITISING_HELPERS) < 3:
        r.error("fewer than 3 map-undoing helpers found in fparser.common.utils (anchor changed)")
    for k in sorted(m.classes):
        c = m.classes[k]
        if c["module"] not in ONE or not m.issub(k, stmt) or "process_item" not in c["own"]:
            continue
        f = m.method(k, "process_item")
        if f is None:
            continue
        r.instances += 1
        if has_map_guard(f):
            r.ob(True, "%s.process_item: placeholders ruled out by has_map()" % c["name"] if r.instances % 10 == 0 else None)
            continue
        pat = class_match_pattern(m, k)
        if pat is not None and regex_alphabet_excludes(pat[0], pat[1], "()'\""):
            r.ob(True, "%s.process_item: the statement's own match pattern admits no parenthesis or quote" % c["name"] if r.instances % 10 == 0 else None)
            continue
        t = Taint(m, k, f).run()
        printed = printed_attrs(m, k)
        for k2 in m.classes:
            if k2 != k and m.classes[k2]["module"] in ONE and m.issub(k2, k):
                printed |= printed_attrs(m, k2)
        bad = {}
        for attr, node in t.sinks():
            if attr in printed:
                bad.setdefault(attr, node)
        for attr in list(bad):
            why = triage.get("%s.%s" % (c["name"], attr))
            if why:
                used_triage.add("%s.%s" % (c["name"], attr))
                r.notes.append("%s.%s exempt: %s" % (c["name"], attr, why))
                del bad[attr]
        r.ob(not bad, "%s.process_item: %d tainted locals, printed attrs %d" % (c["name"], len(t.tainted), len(printed)) if r.instances % 10 == 0 else None)
        for attr, node in sorted(bad.items()):
            r.fail("%s.process_item|tokenised|%s" % (c["name"], attr), "%s.process_item stores text of the tokenised line in self.%s (`%s`) without undoing "
                   "the replace map, and the printer emits it: F2PY_EXPR_TUPLE_n / F2PY_REAL_CONSTANT_n_ placeholders appear in the "
                   "regenerated source" % (c["name"], attr, A.text(node)[:60]), m.loc(f, node))
    stale = sorted(set(triage) - used_triage)
    if stale:
        r.notes.append("triage entries no longer needed (the analysis proves them or the code changed): %s" % stale)
    return r


# =================================================================================================
# C19.R9: an embedded statement does not inherit the label of the statement it is embedded in
# =================================================================================================
def embedded_label_rule(m, rid):
    r = RuleResult(rid, "fparser1: the item built for a statement embedded in a one-line IF/WHERE/FORALL is a copy of the outer item with the "
                        "label cleared (the label is printed once, by the outer statement)")
    r.floor = 3
    stmt = m.key("Statement", BC)
    for k in sorted(m.classes):
        c = m.classes[k]
        if c["module"] not in ONE or not m.issub(k, stmt) or "process_item" not in c["own"]:
            continue
        f = m.method(k, "process_item")
        if f is None:
            continue
        body = list(A.body_nodes(f.node))
        # statements stored in self.content
        stored = set()
        for n in body:
            if isinstance(n, ast.Assign) and any(A.text(t) == "self.content" for t in n.targets):
                stored |= {x.id for x in ast.walk(n.value) if isinstance(x, ast.Name)}
            if isinstance(n, ast.Call) and A.text(n.func) in ("self.content.append", "self.content.insert"):
                stored |= {x.id for a in n.args for x in ast.walk(a) if isinstance(x, ast.Name)}
        # the statement's own item, under whatever local name
        item_names = {"self.item"} | {n.targets[0].id for n in body if isinstance(n, ast.Assign) and len(n.targets) == 1
                                      and isinstance(n.targets[0], ast.Name) and A.text(n.value) == "self.item"}
        copies = {}     # local name -> the copy() call
        for n in body:
            if isinstance(n, ast.Assign) and len(n.targets) == 1 and isinstance(n.targets[0], ast.Name) and isinstance(n.value, ast.Call) \
                    and isinstance(n.value.func, ast.Attribute) and n.value.func.attr == "copy" and A.text(n.value.func.value) in item_names:
                copies[n.targets[0].id] = n
        cleared = {A.text(t.value) for n in body if isinstance(n, ast.Assign) for t in n.targets
                   if isinstance(t, ast.Attribute) and t.attr == "label" and A.const(n.value, 1) is None}
        for n in body:
            if not (isinstance(n, ast.Assign) and len(n.targets) == 1 and isinstance(n.targets[0], ast.Name) and n.targets[0].id in stored
                    and isinstance(n.value, ast.Call) and len(n.value.args) == 2 and A.text(n.value.args[0]) == "self"):
                continue
            arg = n.value.args[1]
            inline = isinstance(arg, ast.Call) and isinstance(arg.func, ast.Attribute) and arg.func.attr == "copy" \
                and A.text(arg.func.value) in item_names
            if not inline and not (isinstance(arg, ast.Name) and arg.id in copies):
                continue
            r.instances += 1
            ok = (not inline) and arg.id in cleared
            r.ob(ok, "%s.process_item: embedded `%s` built from a label-free copy" % (c["name"], A.text(n.value)[:40]))
            if not ok:
                r.fail("%s.process_item|embedded-label" % c["name"], "%s.process_item builds the embedded statement `%s` from a copy of its own item that "
                       "still carries the label: the label is printed by the outer statement and again in front of the embedded one "
                       "('10 if (x) y = 1' -> '10 IF (x) 10 y = 1')" % (c["name"], A.text(n.value)[:50]), m.loc(f, n))
    return r


# =================================================================================================
# C19.R10: the label field of regenerated fixed-form source: label within columns 1-5, column 6 blank
# =================================================================================================
def label_field_rule(m, rid):
    from sa import pureeval as PE
    r = RuleResult(rid, "fparser1 fixed-form output keeps a statement label inside columns 1-5 and leaves column 6 blank, for every label "
                        "length and nesting depth")
    r.floor = 20
    k = m.key("Statement", BC)
    f = m.method(k, "get_indent_tab")
    if f is None:
        r.error("Statement.get_indent_tab vanished")
        return r
    # the whole function is interpreted on a model statement (no local name of it is relied on): a chain of `depth` enclosing
    # statements, an item with the label, the reader's form
    class _Marker:
        pass

    class _St(PE.Obj, _Marker):
        pass
    ev = PE.Evaluator({"Statement": _Marker})
    ev.g["isinstance"] = lambda o, t: isinstance(o, t) if isinstance(t, (type, tuple)) else False
    ev.g["getattr"] = lambda o, n, *d: (o.fields[n] if isinstance(o, PE.Obj) and n in o.fields else (d[0] if d else None))
    tail = [f.node]
    bad = []
    try:
        for isfix in (True, False):
            for label in (1, 10, 100, 1000, 12345, 99999):
                for depth in (0, 1, 2, 5):
                    r.instances += 1
                    parent = PE.Obj({"parent": None})           # the top is not a Statement
                    for _ in range(depth):
                        parent = _St({"parent": parent})
                    me = _St({"parent": parent, "item": PE.Obj({"label": label}),
                              "reader": PE.Obj({"format": PE.Obj({"is_fixed": isfix})})})
                    got = ev.run_function(f.node, [me], {"isfix": isfix if depth % 2 else None})
                    if isfix:
                        ok = isinstance(got, str) and len(got) >= 6 and got[:5].strip() == str(label) and got[5] == " "
                    else:
                        ok = isinstance(got, str) and got.lstrip().startswith(str(label)) and got.endswith(" ") and got.split() == [str(label)]
                    r.ob(ok, "isfix=%s label=%s depth=%d -> %r" % (isfix, label, depth, got) if r.instances % 8 == 0 else None)
                    if not ok:
                        bad.append((isfix, label, depth, got))
    except PE.Unsupported as err:
        r.error("Statement.get_indent_tab: cannot interpret the label formatting statically (%s)" % err)
        return r
    if bad:
        isfix, label, depth, got = bad[0]
        r.fail("Statement.get_indent_tab|label-field|%s" % ("fix" if isfix else "free"), "Statement.get_indent_tab gives %r for label %s (%s form, "
               "depth %d): %s (%d cases)" % (got, label, "fixed" if isfix else "free", depth,
                                            "the label must lie within columns 1-5 and column 6 must stay blank" if isfix else
                                            "the label must be followed by a blank", len(bad)), m.loc(f, tail[0]))
    return r


# =================================================================================================
# C19.R11: once the replace map is undone the text holds the literals again -- no blank squeezing / case folding after that
# =================================================================================================
FOLDERS = {"lower", "upper", "title", "capitalize", "swapcase", "casefold"}


def no_fold_after_restore_rule(m, rid):
    r = RuleResult(rid, "fparser1 never squeezes blanks out of, or case-folds, text on which the replace map has already been undone (character "
                        "literals are back in it)")
    r.floor = 20
    stmt = m.key("Statement", BC)

    def restored(n, names):
        for x in ast.walk(n):
            if isinstance(x, ast.Call) and ((isinstance(x.func, ast.Attribute) and x.func.attr == "apply_map") or
                                            (isinstance(x.func, ast.Name) and x.func.id in ("apply_map",))):
                return True
            if isinstance(x, ast.Name) and x.id in names:
                return True
        return False
    for k in sorted(m.classes):
        c = m.classes[k]
        if c["module"] not in ONE or not m.issub(k, stmt):
            continue
        for name in c["own"]:
            f = m.method(k, name)
            if f is None or f.cls_node is None or f.cls_node.name != c["name"]:
                continue
            if not any(isinstance(x, ast.Attribute) and x.attr == "apply_map" for x in ast.walk(f.node)):
                continue
            r.instances += 1
            names = set()
            for n in A.body_nodes(f.node):
                if isinstance(n, ast.Assign) and isinstance(n.value, ast.Call) and \
                        ((isinstance(n.value.func, ast.Attribute) and n.value.func.attr == "apply_map") or A.text(n.value.func) == "apply_map"):
                    names |= {t.id for t in n.targets if isinstance(t, ast.Name)}
            # a name also bound to the tokenised text elsewhere is not reliably "restored"
            for n in A.body_nodes(f.node):
                if isinstance(n, ast.Assign) and not (isinstance(n.value, ast.Call) and "apply_map" in A.text(n.value.func)):
                    names -= {t.id for t in n.targets if isinstance(t, ast.Name)}
            bad = None
            for n in A.body_nodes(f.node):
                if not (isinstance(n, ast.Call) and isinstance(n.func, ast.Attribute)):
                    continue
                squeeze = n.func.attr == "replace" and len(n.args) == 2 and A.const(n.args[0]) == " " and A.const(n.args[1]) == ""
                if (squeeze or n.func.attr in FOLDERS) and restored(n.func.value, names):
                    bad = n
            r.ob(bad is None, "%s.%s" % (c["name"], name) if r.instances % 15 == 0 else None)
            if bad is not None:
                r.fail("%s.%s|fold-after-restore|%s" % (c["name"], name, bad.func.attr), "%s.%s applies `.%s(...)` to text on which the replace map was "
                       "already undone (`%s`): blanks inside / the case of character literals in it are lost (`cnt(ichar(' ')) = 0` becomes "
                       "`cnt(ichar('')) = 0`)" % (c["name"], name, bad.func.attr, A.text(bad)[:60]), m.loc(f, bad))
    return r


# ---------------------------------------------------------------------------------------------------------------
# the selector helpers of fparser1's type declarations, decided as tables
CHAR_SELECTORS = [
    ("", ("", "")), ("*5", ("5", "")), ("* 5", ("5", "")), ("*(*)", ("*", "")), ("*(n+1)", ("n+1", "")), ("*(length)", ("length", "")),
    ("*(lenx+1)", ("lenx+1", "")), ("*( len )", ("len", "")), ("*(n),", ("n", "")),
    ("(5)", ("5", "")), ("(len=5)", ("5", "")), ("(LEN = n)", ("n", "")), ("(kind=1)", ("", "1")), ("(len=5, kind=1)", ("5", "1")),
    ("(kind=1, len=5)", ("5", "1")), ("(5, 1)", ("5", "1")), ("(5, kind=1)", ("5", "1")), ("(len(a))", ("len(a)", "")),
    ("(lenmax)", ("lenmax", "")), ("(kind(a))", ("kind(a)", "")), ("(len=len(a), kind=kind(b))", ("len(a)", "kind(b)")),
    ("(len(a), kind(b))", ("len(a)", "kind(b)")), ("(*)", ("*", "")), ("(len=*)", ("*", "")), ("(:)", (":", "")),
]
KIND_SELECTORS = [
    ("", ("", "")), ("*8", ("8", "")), ("* 8", ("8", "")), ("(4)", ("", "4")), ("(kind=4)", ("", "4")), ("(KIND = k)", ("", "k")),
    ("(kind(1))", ("", "kind(1)")), ("(k_r)", ("", "k_r")), ("(selected_real_kind(6))", ("", "selected_real_kind(6)")),
]
SPLIT_SELECTORS = [
    ("len=5", ("len", "5")), ("LEN = n+1", ("len", "n+1")), ("kind=1", ("kind", "1")), ("Kind =k", ("kind", "k")), ("5", (None, "5")),
    ("len(a)", (None, "len(a)")), ("kind(a)", (None, "kind(a)")), ("lenmax", (None, "lenmax")), ("kinds", (None, "kinds")), ("*", (None, "*")),
    ("len", (None, "len")), ("n=len", (None, "n=len")),
]


def selector_table_rule(m, rid):
    from sa import pureeval as PE
    r = RuleResult(rid, "fparser1 type declarations: the length / kind selector helpers, decided as tables -- every length and kind expression "
                        "comes out character for character, whatever its spelling (names that begin with 'len' or 'kind', calls of len()/kind())")
    r.floor = 40
    k = m.key("TypeDeclarationStatement", "fparser.one.typedecl_statements")
    fs = {n: m.method(k, n) for n in ("_parse_char_selector", "_parse_kind_selector", "_split_char_selector")}
    if k is None or any(v is None for v in fs.values()):
        r.error("TypeDeclarationStatement selector helpers vanished: %s" % [n for n, v in fs.items() if v is None])
        return r
    g = dict(PE.module_regexes(m, "fparser.one.typedecl_statements"))
    sc = m.need_func("fparser.common.utils", "split_comma")
    ev = PE.Evaluator(g)
    ev.g["split_comma"] = lambda *a, **k_: PE.Evaluator({}).run_function(sc.node, list(a), k_)
    ev.g["repr"] = repr
    # class-level attributes of the statement class (e.g. a regex kept on the class) are visible through self
    me = PE.Obj({"item": None})
    cd = m.classdef(k)
    for b in cd.body if cd is not None else ():
        if isinstance(b, ast.Assign) and len(b.targets) == 1 and isinstance(b.targets[0], ast.Name) and isinstance(b.value, ast.Call) \
                and A.text(b.value.func) in ("re.compile",):
            try:
                import re as _re
                flags = 0
                for a_ in b.value.args[1:]:
                    for nm in A.text(a_).replace("re.", "").split("|"):
                        flags |= getattr(_re, nm.strip())
                pat = ast.literal_eval(b.value.args[0])
                me.fields[b.targets[0].id] = _re.compile(pat, flags)
            except Exception:
                pass
    for n, f in fs.items():
        me.fields[n] = (lambda fn: (lambda *a: ev.run_function(fn.node, [me] + list(a))))(f)
    for meth, table in (("_parse_char_selector", CHAR_SELECTORS), ("_parse_kind_selector", KIND_SELECTORS), ("_split_char_selector", SPLIT_SELECTORS)):
        f = fs[meth]
        bad = []
        for text, want in table:
            r.instances += 1
            try:
                got = ev.run_function(f.node, [me, text])
            except PE.PyRaise as err:
                got = "raises %s" % err.exc_type
            except PE.Unsupported as err:
                r.error("%s cannot be interpreted statically (%s)" % (f.qualname, err))
                return r
            if isinstance(got, list):
                got = tuple(got)
            ok = got == want
            r.ob(ok, "%s(%r) -> %r" % (meth, text, got) if r.obligations % 6 == 0 else None)
            if not ok:
                bad.append((text, got, want))
        if bad:
            text, got, want = bad[0]
            r.fail("TypeDeclarationStatement.%s|selector-table" % meth, "TypeDeclarationStatement.%s(%r) gives %r, expected %r (%d of %d rows "
                   "disagree): the length/kind expression of the declaration is regenerated with characters missing or moved"
                   % (meth, text, got, want, len(bad), len(table)), m.loc(f))
    return r


# ---------------------------------------------------------------------------------------------------------------
# the list/spec helpers of fparser.common.utils used by fparser1, decided as tables with an item model
def _lower_outside_literals(text):
    out, q = [], None
    for ch in text:
        if q:
            out.append(ch)
            if ch == q:
                q = None
        else:
            if ch in "'\"":
                q = ch
            out.append(ch.lower() if q is None else ch)
    return "".join(out)


def _mini_map(line, lower=False):
    """Model of Line.get_line() / string_replace_map, as documented there: the inside of every character literal that is not a plain word
    becomes `_F2PY_STRING_CONSTANT_n_` (quotes stay), the stripped inside of every top-level parenthesised group that is not a plain
    name becomes `F2PY_EXPR_TUPLE_n` (parentheses stay).  Returns (mapped text, restore function)."""
    out, table = [], {}
    i, n = 0, len(line)
    n_str = n_par = 0

    def is_word(t):
        return all(c.isalnum() or c == "_" for c in t)
    while i < n:
        ch = line[i]
        if ch in "'\"":
            j = i + 1
            while True:
                j = line.find(ch, j)
                if j == -1:
                    j = n - 1
                    break
                if line[j:j + 2] == ch + ch:        # doubled quote inside the literal
                    j += 2
                    continue
                break
            inner = line[i + 1:j]
            if is_word(inner):
                out.append(line[i:j + 1])
            else:
                n_str += 1
                k = "_F2PY_STRING_CONSTANT_%d_" % n_str
                table[k] = inner
                out.append(ch + k + line[j:j + 1])
            i = j + 1
        elif ch == "(":
            depth, j = 1, i + 1
            while j < n and depth:
                if line[j] in "'\"":
                    e = line.find(line[j], j + 1)
                    j = n - 1 if e == -1 else e
                elif line[j] == "(":
                    depth += 1
                elif line[j] == ")":
                    depth -= 1
                j += 1
            inner = line[i + 1:j - 1] if depth == 0 else line[i + 1:j]
            if is_word(inner.strip()):
                out.append(line[i:j])
            else:
                n_par += 1
                k = "F2PY_EXPR_TUPLE_%d" % n_par
                table[k] = _lower_outside_literals(inner.strip()) if lower else inner.strip()
                out.append("(" + k + (")" if depth == 0 else ""))
            i = j
        else:
            out.append(ch.lower() if lower else ch)
            i += 1

    def restore(text):
        # longest keys first: F2PY_EXPR_TUPLE_10 contains F2PY_EXPR_TUPLE_1
        for k in sorted(table, key=len, reverse=True):
            text = text.replace(k, table[k])
        return text
    return "".join(out), restore


def _item_model(PE, line, restore=None):
    """What fparser1 helpers use of a reader Line: copy(line, apply_map), get_line(), apply_map(text)."""
    o = PE.Obj({})
    state = {}

    def get_line():
        if "mapped" not in state:
            state["mapped"], state["restore"] = _mini_map(line, lower=True)     # Line.get_line() folds case outside literals
        return state["mapped"]

    def apply_map(text):
        get_line()
        return state["restore"](text)
    o.fields["line"] = line
    o.fields["get_line"] = get_line
    o.fields["apply_map"] = apply_map
    o.fields["copy"] = lambda l_=None, apply_map_=False, **k_: _item_model(
        PE, apply_map(line if l_ is None else l_) if (apply_map_ or k_.get("apply_map")) else (line if l_ is None else l_))
    return o


HELPER_TABLE = [
    # (function, args, kwargs, expected)   -- `ITEM` stands for the item model of the statement the text was cut from
    ("split_comma", ["a, b(1,2), 'x,y'", "ITEM"], {}, ["a", "b(1,2)", "'x,y'"]),
    ("split_comma", ["a,,b", "ITEM"], {}, ["a", "b"]),
    ("split_comma", ["a,,b", "ITEM"], {"keep_empty": True}, ["a", "", "b"]),
    ("split_comma", ["1:n", "ITEM"], {"comma": ":"}, ["1", "n"]),
    ("split_comma", [":", "ITEM"], {"comma": ":", "keep_empty": True}, ["", ""]),
    ("split_comma", ["f(a:b):n", "ITEM"], {"comma": ":"}, ["f(a:b)", "n"]),
    ("split_comma", ["", "ITEM"], {}, []),
    ("split_comma", ["a, b", None], {}, ["a", "b"]),
    ("parse_array_spec", ["1:n, m, :", "ITEM"], {}, [("1", "n"), ("m",), ("", "")]),
    ("parse_array_spec", ["0:f(i,j), *", "ITEM"], {}, [("0", "f(i,j)"), ("*",)]),
    ("specs_split_comma", ["unit=5, fmt='(a)'", "ITEM"], {}, ["UNIT = 5", "FMT = '(a)'"]),
    ("specs_split_comma", ["10, file='a=b.txt'", "ITEM"], {}, ["10", "FILE = 'a=b.txt'"]),
    ("specs_split_comma", ["c, name='x'", "ITEM"], {"upper": True}, ["C", "NAME = 'x'"]),
    ("specs_split_comma", ["a, b(1,2), c", "ITEM"], {}, ["a", "b(1,2)", "c"]),
    ("specs_split_comma", ["", "ITEM"], {}, []),
    ("specs_split_comma", ["6, '(1x,\"a=\",i3)'", "ITEM"], {}, ["6", "'(1x,\"a=\",i3)'"]),
    ("specs_split_comma", ["a(merge(1,2,n==1)), stat=ierr", "ITEM"], {}, ["a(merge(1,2,n==1))", "STAT = ierr"]),
    ("parse_bind", ["bind(c, name='f=g') rest", "ITEM"], {}, (["C", "NAME = 'f=g'"], "rest")),
    ("parse_bind", ["bind(c)", "ITEM"], {}, (["C"], "")),
    ("parse_bind", ["result(r)", "ITEM"], {}, (None, "result(r)")),
    ("parse_result", ["result(r) bind(c)"], {}, ("r", "bind(c)")),
    ("parse_result", ["result ( r )"], {}, ("r", "")),
    ("parse_result", ["x"], {}, (None, "x")),
    ("extract_bracketed_list_items", ["x(a, b:c) y", "ITEM"], {}, [["a"], ["b", "c"]]),
]


def helper_table_rule(m, rid):
    from sa import pureeval as PE
    from rules import regex_rules
    r = RuleResult(rid, "the list/spec helpers fparser1 cuts its statements with (split_comma, specs_split_comma, parse_array_spec, parse_bind, "
                        "parse_result, extract_bracketed_list_items), decided as tables with a model of the reader item (literals and "
                        "parenthesised groups hidden by get_line, restored by apply_map): every piece comes back character for character; "
                        "only a NAME before '=' is a keyword")
    r.floor = 20
    ev = regex_rules.evaluator_with_funcs(m, "fparser.common.utils")
    ev.g["repr"] = repr
    ev.g["ParseError"] = lambda *a, **k: PE.PyRaise("ParseError", " ".join(map(str, a)))
    for fname, args, kw, want in HELPER_TABLE:
        f = m.module_func("fparser.common.utils", fname)
        if f is None:
            r.error("fparser.common.utils.%s vanished" % fname)
            continue
        r.instances += 1
        a = [(_item_model(PE, args[0]) if x == "ITEM" else x) for x in args]
        try:
            got = ev.run_function(f.node, a, dict(kw))
        except PE.PyRaise as err:
            got = "raises %s" % err.exc_type
        except PE.Unsupported as err:
            r.error("%s cannot be interpreted statically (%s)" % (fname, err))
            continue

        def norm(v):
            if isinstance(v, tuple):
                return tuple(norm(x) for x in v)
            if isinstance(v, list):
                return [norm(x) for x in v]
            return v
        ok = norm(got) == want
        shown = "%s(%s%s)" % (fname, ", ".join(repr(x) if x != "ITEM" else "item" for x in args), "".join(", %s=%r" % kv for kv in kw.items()))
        r.ob(ok, "%s -> %r" % (shown, got) if r.obligations % 5 == 0 else None)
        if not ok:
            r.fail("%s|helper-table|%s" % (fname, args[0]), "%s gives %r, expected %r: the piece is regenerated with characters changed "
                   "(a '=' inside a literal or a parenthesised expression taken for the keyword separator, text lost at a delimiter ...)"
                   % (shown, got, want), m.loc(f))
    return r
