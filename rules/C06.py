"""C06 -- parsing ends in a tree or a FortranSyntaxError (structural clauses)."""
import ast

from sa import astutil as A
from sa import defuse
from sa import tables
from sa.model import AnalysisError
from sa.report import RuleResult
from rules import common_block as cb

PARSER_WORLD = ("fparser.two", "fparser.common.readfortran", "fparser.common.splitline", "fparser.common.sourceinfo")
TERMINATORS = {"sys.exit", "exit", "quit", "os._exit", "os.abort", "sys.exit_"}


def in_world(f):
    return f.module.startswith(PARSER_WORLD)


def reachable(ctx, roots):
    """Functions reachable from roots in the parser world (constructing a rule class reaches every rule-class matcher)."""
    m, cg = ctx.m, ctx.cg
    rule_funcs = []
    for k, c in m.classes.items():
        if m.issub(k, ctx.base) or k == ctx.base:
            for name in c["own"]:
                f = m.method(k, name)
                if f is not None and in_world(f):
                    rule_funcs.append(f)
    seen = {}
    todo = list(roots)
    rule_added = False
    edges = {}
    while todo:
        f = todo.pop()
        if id(f) in seen or not in_world(f):
            continue
        seen[id(f)] = f
        for call in A.calls(f.node):
            for t in cg.resolve(f, call):
                if t.kind == "func":
                    edges.setdefault(id(t.func), (f, call))
                    todo.append(t.func)
                elif t.kind == "class" and t.key:
                    for nm in ("__new__", "__init__"):
                        g = m.method(t.key, nm)
                        if g is not None:
                            edges.setdefault(id(g), (f, call))
                            todo.append(g)
                    if (m.issub(t.key, ctx.base)) and not rule_added:
                        rule_added = True
                        for g in rule_funcs:
                            edges.setdefault(id(g), (f, call))
                            todo.append(g)
                elif t.kind == "unknown" and (t.name or "").startswith("local:") and not rule_added:
                    rule_added = True
                    for g in rule_funcs:
                        edges.setdefault(id(g), (f, call))
                        todo.append(g)
    return seen, edges


def entry_points(m):
    roots = []
    for mod, q in (("fparser.two.Fortran2003", "Program.__new__"), ("fparser.two.utils", "Base.__new__"),
                   ("fparser.two.utils", "Base.__str__"), ("fparser.two.utils", "Base.tofortran"),
                   ("fparser.two.utils", "BlockBase.tofortran"), ("fparser.two.utils", "StmtBase.tofortran"),
                   ("fparser.common.readfortran", "FortranReaderBase.next"), ("fparser.common.readfortran", "FortranReaderBase.get_item"),
                   ("fparser.common.readfortran", "FortranReaderBase.__next__"),
                   ("fparser.common.readfortran", "FortranFileReader.__init__"), ("fparser.common.readfortran", "FortranStringReader.__init__"),
                   ("fparser.two.parser", "ParserFactory.create")):
        roots.append(m.need_func(mod, q))
    return roots


def r1_terminators(m, ctx):
    r = RuleResult("C06.R1", "no call path from the parse/print/read entry points reaches a process-terminating call")
    r.floor = 1
    roots = entry_points(m)
    seen, edges = reachable(ctx, roots)
    r.notes.append("%d parser-world functions reachable from %d entry points" % (len(seen), len(roots)))
    if len(seen) < 500:
        r.error("only %d functions reachable from the entry points (call graph lost the grammar dispatch)" % len(seen))
    # terminator functions: contain a terminating call or raise SystemExit
    term_funcs = {}
    for (path, q), f in m.funcs.items():
        if not in_world(f):
            continue
        for n in A.body_nodes(f.node):
            if isinstance(n, ast.Call) and (A.dotted(n.func) or "") in TERMINATORS:
                term_funcs[id(f)] = (f, n)
            if isinstance(n, ast.Raise) and n.exc is not None:
                e = n.exc.func if isinstance(n.exc, ast.Call) else n.exc
                if (A.dotted(e) or "").split(".")[-1] in ("SystemExit", "KeyboardInterrupt"):
                    term_funcs[id(f)] = (f, n)
    r.instances += len(term_funcs)
    if not term_funcs:
        r.notes.append("no terminating call exists in the parser world")
    # positive control: the known terminator must be seen while it exists
    for fid, (tf, node) in sorted(term_funcs.items(), key=lambda x: x[1][0].qualname):
        if fid in seen and any(tf is x for x in roots):
            r.fail("%s|direct" % tf.qualname, "%s terminates the process directly (`%s`)" % (tf.qualname, A.text(node)), m.loc(tf, node))
        # every reachable call site of the terminator function
        for gid, g in sorted(seen.items(), key=lambda x: x[1].qualname):
            for call in A.calls(g.node):
                ts = ctx.cg.resolve(g, call)
                if any(t.kind == "func" and t.func is tf for t in ts):
                    if g is tf:
                        continue
                    r.instances += 1
                    # (keyed by the message literal, not by the names of the locals formatted into it)
                    lits = [n_.value for n_ in ast.walk(call.args[0]) if isinstance(n_, ast.Constant) and isinstance(n_.value, str)] if call.args else []
                    arg = repr(lits[0])[:60] if lits else (A.text(call.args[0])[:60] if call.args else "")
                    r.ob(False)
                    r.fail("%s->%s|%s" % (g.qualname, tf.qualname, arg),
                           "%s calls %s (`%s`), which terminates the process (`%s`) -- reachable from the parser entry points"
                           % (g.qualname, tf.qualname, A.text(call)[:70], A.text(node)), m.loc(g, call),
                           {"terminator": "%s:%s" % (tf.module, tf.qualname)})
    return r


def r2_boundary(m, ctx):
    r = RuleResult("C06.R2", "every fparser exception class that is raised as a signal is converted at the API boundary")
    r.floor = 2
    sig = ctx.signals   # classes caught+converted in Program.__new__ plus FortranSyntaxError
    f = m.need_func("fparser.two.Fortran2003", "Program.__new__")
    # the try body must contain the call that does the work
    ok_body = False
    for n in A.body_nodes(f.node):
        if isinstance(n, ast.Try):
            for x in n.body:
                for c in ast.walk(x):
                    if isinstance(c, ast.Call) and (A.dotted(c.func) or "").endswith("__new__"):
                        ok_body = True
    r.instances += 1
    r.ob(ok_body, "Program.__new__: converting handlers surround the Base.__new__ call; converted classes: %s" % sorted(sig))
    if not ok_body:
        r.fail("Program.__new__|try-body", "the handlers of Program.__new__ no longer surround the call that does the parsing", m.loc(f))
    # all FparserException subclasses explicitly raised anywhere in the parser world
    raised = {}
    for (path, q), g in sorted(m.funcs.items()):
        if not in_world(g):
            continue
        for n in A.raises(g.node):
            if n.exc is None:
                continue
            e = n.exc.func if isinstance(n.exc, ast.Call) else n.exc
            d = (A.dotted(e) or "").split(".")[-1]
            if d in m.exceptions and "FparserException" in m.exceptions[d]:
                raised.setdefault(d, []).append((g, n))
    for cls_name, sites in sorted(raised.items()):
        r.instances += 1
        if cls_name == "InternalError":
            # an internal-error class by design: its sites are examined one by one by C06.R3
            r.ob(True, "InternalError: %d raise sites, examined by C06.R3" % len(sites))
            continue
        ok = any(m.is_exc_sub(cls_name, s) for s in sig)
        r.ob(ok, "%s: %d raise sites, converted at the boundary: %s" % (cls_name, len(sites), ok))
        if not ok:
            g, n = sites[0]
            r.fail("unconverted|%s" % cls_name, "%s is raised (%d sites, e.g. %s) but Program.__new__ does not convert it into "
                   "FortranSyntaxError" % (cls_name, len(sites), g.qualname), m.loc(g, n))
    for need in ("NoMatchError", "InternalSyntaxError"):
        if need in raised and need not in sig:
            pass
    return r


def input_params(m, ctx):
    """For every `match` function of a rule class: the set of parameters that carry (part of) the input text.
    A one-parameter match's parameter is input; engine matches receive it where some caller passes an input-derived value."""
    matches = {}
    for k, c in m.classes.items():
        if not (m.issub(k, ctx.base)):
            continue
        f = m.method(k, "match")
        if f is not None:
            matches[id(f)] = f
    inp = {}
    for fid, f in matches.items():
        ps = A.param_names(f.node)
        if len(ps) == 1:
            inp[fid] = {ps[0]}
        else:
            inp[fid] = set()
    changed = True
    while changed:
        changed = False
        for fid, f in matches.items():
            if not inp[fid]:
                continue
            d = defuse.deps(f.node)
            tainted = set()
            for p in inp[fid]:
                pass
            # names derived from input params
            derived = set(inp[fid])
            grew = True
            while grew:
                grew = False
                for name, srcs in d.items():
                    if name not in derived and srcs & derived:
                        derived.add(name)
                        grew = True
            for call in A.calls(f.node):
                for t in ctx.cg.resolve(f, call):
                    if t.kind == "func" and id(t.func) in matches and t.func is not f:
                        params = A.param_names(t.func.node)
                        b = A.bind(call, params)
                        if not b:
                            continue
                        for p, node in b.items():
                            if A.names_in(node) & derived and p not in inp[id(t.func)]:
                                # class arguments are not input
                                inp[id(t.func)].add(p)
                                changed = True
    return matches, inp


TYPE_TESTS = ("isinstance", "hasattr", "type", "callable", "issubclass")


def guard_of(f, node):
    """(tests with polarity) guarding a node: enclosing ifs, handlers, loops."""
    P = A.parents(f.node)
    g = []
    x = node
    while x in P and P[x] is not f.node:
        p = P[x]
        if isinstance(p, ast.If):
            if x in p.body:
                g.append(("T", p.test))
            elif x in p.orelse:
                g.append(("F", p.test))
        elif isinstance(p, ast.ExceptHandler):
            g.append(("H", p.type))
        x = p
    return g


def is_type_test(test):
    """The test only inspects types / identity with None."""
    for n in ast.walk(test):
        if isinstance(n, ast.Call):
            d = A.dotted(n.func) or ""
            if d not in TYPE_TESTS and d != "all":
                return False
        if isinstance(n, ast.Compare):
            for op, c in zip(n.ops, n.comparators):
                if not (isinstance(op, (ast.Is, ast.IsNot)) and isinstance(c, ast.Constant) and c.value is None):
                    return False
        if isinstance(n, (ast.Subscript,)):
            pass
    return True


CONVERTED = {"FortranSyntaxError", "NoMatchError", "InternalSyntaxError", "StopIteration"}
PRINTERS = ("tostr", "tofortran", "torepr", "__str__", "__repr__", "tostr_a")


_CONTRACT_CACHE = {}
PROBE_CHARS = "x*(),1:%/[=&.'"


def length_contract(m, f, tests):
    """A matcher raises under `len(<its string parameter>) <= N` and nothing else: a *precondition on its callers*.  Decided by
    interpretation: every function of the grammar that names the class is a matcher whose own text reaches the callee; each is run
    (statement world of rules/two_roundtrip.py, the callee's real matcher included) on probe texts made of the caller's own
    upper-case keyword constants followed by one character, in the layouts a declaration can have.  Returns (True, note) when no
    probe ends in anything but a match or NoMatchError, (False, reason) otherwise, (None, reason) when the form is not this one."""
    params = A.param_names(f.node)
    if not params:
        return None, "no parameter"
    p0 = params[0]
    bound = None
    for t in tests:
        ok = isinstance(t, ast.Compare) and len(t.ops) == 1 and isinstance(t.ops[0], (ast.LtE, ast.Lt)) and isinstance(t.left, ast.Call) \
            and A.dotted(t.left.func) == "len" and len(t.left.args) == 1 and isinstance(t.left.args[0], ast.Name) and t.left.args[0].id == p0 \
            and isinstance(A.const(t.comparators[0], None), int)
        if not ok:
            return None, "not a length test on the parameter"
        n_ = A.const(t.comparators[0])
        bound = max(bound or 0, n_ if isinstance(t.ops[0], ast.LtE) else n_ - 1)
    if bound is None or bound > 2 or f.cls_node is None:
        return None, "no bound"
    cname = f.qualname.split(".")[0]
    key = (id(m), cname, bound)
    if key in _CONTRACT_CACHE:
        return _CONTRACT_CACHE[key]
    callers = []
    for (path, q), g in sorted(m.funcs.items()):
        if not in_world(g) or g is f or not g.module.startswith("fparser.two"):
            continue
        if any(isinstance(x, ast.Name) and x.id == cname and isinstance(x.ctx, ast.Load) for x in ast.walk(g.node)):
            callers.append(g)
    res = None
    if not callers:
        res = (True, "no function names %s" % cname)
    for g in callers:
        if g.qualname.split(".")[-1] != "match" or g.cls_node is None:
            res = (False, "%s names %s outside a matcher: what text it hands over is not decided" % (g.qualname, cname))
            break
    if res is None:
        from rules import two_roundtrip as TR
        from sa import pureeval as PE
        probes_run = 0
        try:
            for std in ("f2003", "f2008"):
                w = TR.World(m, std)
                for g in callers:
                    gk = m.key(g.qualname.split(".")[0], g.module) or w.classes.get(g.qualname.split(".")[0])
                    if gk is None:
                        res = (False, "%s: class not found" % g.qualname)
                        break
                    words = sorted({x.value for x in ast.walk(g.node) if isinstance(x, ast.Constant) and isinstance(x.value, str)
                                    and x.value.isalpha() and x.value.isupper() and len(x.value) > 2})
                    if not words:
                        res = (False, "%s: no keyword constant to build probe texts from" % g.qualname)
                        break
                    for kw in words:
                        for c in PROBE_CHARS:
                            short = c
                            for probe in (kw + " " + short, kw.lower() + short, " " + kw + "  " + short + " ", kw + " " + short + ", kind :: k",
                                          kw.lower() + short + " , len :: k"):
                                probes_run += 1
                                w._acc.clear()
                                try:
                                    w.full_parse(gk, probe)
                                except PE.PyRaise as err:
                                    if err.exc_type != "NoMatchError":
                                        res = (False, "%s(%r) ends in %s (%s)" % (g.qualname.split(".")[0], probe, err.exc_type, (err.msg or "")[:60]))
                                        break
                            if res is not None:
                                break
                        if res is not None:
                            break
                    if res is not None:
                        break
                if res is not None:
                    break
        except PE.Unsupported as err:
            res = (None, "the callers cannot be interpreted (%s)" % err)
        if res is None:
            res = (True, "%d probe texts through %s: none hands %s a text of %d character(s) or fewer"
                   % (probes_run, ", ".join(g.qualname for g in callers), cname, bound))
    _CONTRACT_CACHE[key] = res
    return res



def r3_foreign_raises(m, ctx):
    r = RuleResult("C06.R3", "explicit raises of non-convertible classes are not triggerable by the content of the parsed text")
    r.floor = 60
    matches, inp = input_params(m, ctx)
    tags = {}
    for (path, q), f in sorted(m.funcs.items()):
        if not in_world(f):
            continue
        sites = []
        for n in A.raises(f.node):
            if n.exc is None:
                continue
            e = n.exc.func if isinstance(n.exc, ast.Call) else n.exc
            d = (A.dotted(e) or "?").split(".")[-1]
            if d in CONVERTED:
                continue
            sites.append((n, d))
        if not sites:
            continue
        dd = defuse.deps(f.node)
        derived = set(inp.get(id(f), ()))
        grew = True
        while grew:
            grew = False
            for name, srcs in dd.items():
                if name not in derived and srcs & derived:
                    derived.add(name)
                    grew = True
        fname = f.qualname.split(".")[-1]
        for n, exc in sites:
            r.instances += 1
            g = guard_of(f, n)
            gtxt = " & ".join("%s:%s" % (p, A.text(t)[:40]) for p, t in g)
            tag = None
            tests = [t for p, t in g if p in ("T", "F")]
            in_handler = any(p == "H" for p, t in g)
            if id(f) in matches:
                # a matcher
                content_tests = [t for t in tests if (A.names_in(t) & derived) and not is_type_test(t)]
                if content_tests:
                    # D3: falsiness of a rule-class constructor result
                    t0 = content_tests[0]
                    if all(_is_ctor_result(m, ctx, f, t) for t in content_tests):
                        tag = "D3 constructor results are objects or raise"
                    elif length_contract(m, f, content_tests)[0]:
                        tag = "D8 a length precondition every caller keeps (%s)" % length_contract(m, f, content_tests)[1]
                    else:
                        tag = None
                        r.ob(False)
                        r.fail("%s|%s|%s" % (f.qualname, exc, A.text(t0)[:50]),
                               "%s raises %s under `%s`, a test on the content of the text being parsed; %s is not converted "
                               "into FortranSyntaxError, so some input makes it escape" % (f.qualname, exc, A.text(t0)[:60], exc),
                               m.loc(f, n))
                        continue
                elif tests and all(is_type_test(t) for t in tests):
                    tag = "D1 pure type/identity guard"
                elif in_handler:
                    tag = "D7 raised while handling an implicit exception of a mis-typed argument"
                elif tests:
                    tag = "D5 guard mentions no input-derived value (configuration/literal argument)"
                else:
                    tag = None
            elif fname in PRINTERS:
                tag = "D2 printer guard on node state (dead by match/printer shape agreement, see C01.R2)"
                proof = prove_printer_guard_dead(m, ctx, f, tests)
                if proof is True:
                    tags["D2-proved"] = tags.get("D2-proved", 0) + 1
                elif proof is False:
                    r.ob(False)
                    r.fail("%s|%s|live-guard" % (f.qualname, exc), "%s raises %s under `%s`, and some matcher of a class printed by it can "
                           "produce a node for which that guard is true" % (f.qualname, exc, A.text(tests[0])[:50] if tests else "?"), m.loc(f, n))
                    continue
            elif tests and all(is_type_test(t) for t in tests):
                tag = "D1 pure type/identity guard"
            elif any("_checking_enabled" in A.text(t) for t in tests):
                tag = "D5 configuration flag off by default"
            elif f.module.endswith("symbol_table"):
                tag = "D6 symbol-table protocol (pairing proved by C09.R1; lookups caught by their callers)"
            elif f.qualname in ("ParserFactory.create", "FortranFormat.from_mode", "FortranFormat.__eq__", "FortranFormat.__init__",
                                "FortranFileReader.__init__", "get_source_info"):
                tag = "D1 API-contract guard on a caller-supplied argument"
            elif f.qualname == "Line.__init__":
                tag = "D4 caught by the reader's handler (content loss is C02.R4's finding)"
            elif f.qualname == "Base.__new__" and exc == "AssertionError":
                tag = "D1 type guard on the match result"
            if tag:
                r.ob(True, "%s: raise %s [%s] -- %s" % (f.qualname, exc, gtxt[:60], tag))
                tags[tag.split()[0]] = tags.get(tag.split()[0], 0) + 1
            else:
                r.undet("%s: raise %s [%s]" % (f.qualname, exc, gtxt[:80]))
    r.notes.append("discharge tags: %s" % sorted(tags.items()))
    return r


_SHAPES = {}


def prove_printer_guard_dead(m, ctx, f, tests):
    """True: every class printed by f returns only shapes for which all guards are false; False: some determinate shape makes
    a length guard true; None: not decidable (element truthiness of input text, open shapes)."""
    from sa import shapes as SH
    from sa.callgraph import CallGraph
    if id(m) not in _SHAPES:
        _SHAPES[id(m)] = SH.Shapes(m, ctx.cg)
    S = _SHAPES[id(m)]
    users = [k for k in m.classes if m.issub(k, ctx.base) and any(m.method(k, nm) is f for nm in PRINTERS)]
    if not users or len(tests) != 1:
        return None
    t = tests[0]
    verdict = True
    for k in users:
        mf = m.method(k, "match")
        if mf is None:
            continue
        ss = S.of_func(mf)
        if not ss.shapes:
            verdict = None
            continue
        ar = ss.arities()
        txt = A.text(t).replace(" ", "")
        import re as _re
        mlen = _re.fullmatch(r"(not)?len\(self\.items\)(!=|==)(\d+)", txt)
        mitem = _re.fullmatch(r"notself\.items\[(\d+)\]", txt)
        if mlen:
            neg, op, n = mlen.group(1), mlen.group(2), int(mlen.group(3))
            truth_for = lambda a: ((a != n) if op == "!=" else (a == n)) != bool(neg)
            if any(truth_for(a) for a in ar):
                return False if not ss.open else None
            if ss.open:
                verdict = None
        elif mitem:
            i = int(mitem.group(1))
            from rules.shapes_rules import flat_kinds
            kinds = set()
            for sh in ss.shapes:
                if i < len(sh):
                    kinds |= flat_kinds(sh[i])
            if not kinds or not all(isinstance(x, tuple) and x[0] in ("node", "pnode") or (isinstance(x, tuple) and x[0] == "lit" and x[1]) for x in kinds):
                verdict = None
        else:
            verdict = None
    return verdict


def _is_ctor_result(m, ctx, f, test):
    """test is `not X` / `X` / `X is None` where X was assigned from a rule-class constructor call."""
    names = A.names_in(test)
    if len(names) != 1:
        return False
    name = next(iter(names))
    vals = [n.value for n in A.body_nodes(f.node) if isinstance(n, ast.Assign)
            and any(isinstance(t, ast.Name) and t.id == name for t in n.targets)]
    if not vals:
        return False
    for v in vals:
        if not (isinstance(v, ast.Call) and isinstance(v.func, ast.Name)):
            return False
        k = m.class_of_name(f, v.func.id)
        if not (k and m.issub(k, ctx.base)):
            return False
    return True


def r4_codec(m):
    r = RuleResult("C06.R4", "source files are opened with the logging decode-error handler, which is registered at import")
    r.floor = 2
    n_open = 0
    for modname in ("fparser.common.readfortran", "fparser.common.sourceinfo"):
        path = m.modfile.get(modname)
        if not path:
            r.error("module %s vanished" % modname)
            continue
        for (p, q), f in sorted(m.funcs.items()):
            if p != path:
                continue
            for c in A.calls(f.node):
                if (A.dotted(c.func) or "") in ("open", "io.open", "codecs.open"):
                    n_open += 1
                    r.instances += 1
                    kw = {k.arg: k.value for k in c.keywords}
                    mode = A.const(c.args[1]) if len(c.args) > 1 else A.const(kw.get("mode"), "r")
                    if mode and "b" in str(mode):
                        r.ob(True, "%s: binary open" % q)
                        continue
                    ok = A.const(kw.get("errors")) == "fparser-logging"
                    r.ob(ok, "%s: %s" % (q, A.text(c)[:80]))
                    if not ok:
                        r.fail("%s|open" % q, "%s opens user source without errors='fparser-logging' (`%s`): undecodable bytes "
                               "raise UnicodeDecodeError" % (q, A.text(c)[:70]), m.loc(f, c))
    if n_open < 2:
        r.error("fewer than 2 open() calls found in the reader modules (anchor vanished)")
    # registration
    r.instances += 1
    init = m.modfile.get("fparser")
    tree = m.files[init][1]
    reg = None
    for n in ast.walk(tree):
        if isinstance(n, ast.Call) and (A.dotted(n.func) or "").endswith("register_error") and n.args \
                and A.const(n.args[0]) == "fparser-logging":
            reg = n
    ok = reg is not None and m.snap.get("codec_handler_registered")
    r.ob(bool(ok), "fparser/__init__.py registers 'fparser-logging': %s (live registry: %s)" % (reg is not None, m.snap.get("codec_handler_registered")))
    if not ok:
        r.fail("register_error", "the 'fparser-logging' decode-error handler is not registered at import of fparser", m.rel(init))
    else:
        # handler returns (str, err.end)
        hname = A.dotted(reg.args[1]) if len(reg.args) > 1 else None
        h = m.module_func("fparser", hname) if hname else None
        r.instances += 1
        if h is None:
            r.undet("handler function %s not found" % hname)
        else:
            rets = A.returns(h.node)
            good = bool(rets) and all(isinstance(x.value, ast.Tuple) and len(x.value.elts) == 2 and
                                      isinstance(x.value.elts[0], (ast.Constant, ast.JoinedStr)) and
                                      A.text(x.value.elts[1]).endswith(".end") for x in rets)
            r.ob(good, "handler %s returns (replacement str, err.end)" % hname)
            if not good:
                r.fail("handler-return", "the decode-error handler %s does not return (str, err.end) on every path" % hname, m.loc(h))
    return r


def r5_protocol(m, ctx, blocks):
    r = RuleResult("C06.R5", "every method the block engine calls on start/intermediate/END objects under an instance's flags exists on every class they can be")
    r.floor = 35
    for inst in blocks:
        if not inst.args:
            continue
        client = cb.ScopeClient(ctx, ctx.engine, inst)
        import sa.flow as F
        env = cb.inst_env(ctx, inst)
        env["$scope"] = F.const("closed")
        env["$table"] = F.const("none")
        env = {k: v for k, v in env.items() if k in client.track}
        fl = F.Flow(m, ctx.engine, client)
        fl.run(F.State(env))
        r.instances += 1
        probs = [(k, msg, node) for k, msg, node in client.findings if k.startswith("proto")]
        seen = set()
        r.ob(not probs, "%s: %d protocol calls checked" % (inst.tag, client.proto_checked))
        for k, msg, node in probs:
            if k in seen:
                continue
            seen.add(k)
            r.fail("%s|%s" % (inst.tag, k), "%s: %s" % (inst.tag, msg), m.loc(ctx.engine, node))
    return r


EXIT_PATH_INSTANCES = {
    # block instances whose opening and END classes both answer get_name(): the engine's final name comparison applies to them and, on a
    # mismatch, calls reader.error() -> sys.exit (known finding F3, `subroutine a` / `end subroutine b`); confirmed by reading
    "Block_Data", "Function_Body", "Function_Subprogram", "Main_Program", "Module", "Subroutine_Body", "Subroutine_Subprogram", "Submodule(08)",
}


def r22_exit_path_instances(m, blocks):
    r = RuleResult("C06.R22", "the engine's final start/END name comparison -- whose mismatch branch ends the process (known finding F3) -- is "
                              "enabled (both classes answer get_name()) for the eight program-unit blocks only, where the names are plain "
                              "names; no other block is routed into it")
    r.floor = 8
    for inst in blocks:
        if not inst.args:
            continue
        sc, ec = inst.args.get("startcls"), inst.args.get("endcls")
        if sc is None or ec is None or sc.kind != "class" or ec.kind != "class":
            continue
        if not (m.has_attr(sc.v, "get_name") and m.has_attr(ec.v, "get_name")):
            continue
        r.instances += 1
        ok = inst.tag in EXIT_PATH_INSTANCES
        r.ob(ok, "%s: %s / %s" % (inst.tag, sc.short(), ec.short()))
        if not ok:
            r.fail("%s|exit-path" % inst.tag, "%s: both %s and %s now answer get_name(), so BlockBase.match compares their names as text at the "
                   "end and, when they differ (for a generic-spec already by a blank: `operator(.x.)` / `operator (.x.)`), calls "
                   "reader.error(), which terminates the process" % (inst.tag, sc.short(), ec.short()), m.loc(inst.func, inst.call))
    return r


def run(m, tier):
    ctx = cb.get_ctx(m)
    blocks = tables.engine_instances(m, "BlockBase")
    from rules import C09
    r6 = C09.r8_table_keys(m)
    r6.rule = "C06.R6"
    r6.title = "symbol-table clean-up on the failure path cannot miss a table because of letter case (shared with C09.R8)"
    for f in r6.findings:
        f.rule = "C06.R6"
    results = [r1_terminators(m, ctx), r2_boundary(m, ctx), r3_foreign_raises(m, ctx), r4_codec(m), r5_protocol(m, ctx, blocks), r6]
    r9 = C09.r1_scope_pairing(m, blocks)
    r9.rule = "C06.R9"
    r9.title = "scope clean-up on the failure path is well ordered (leave, then remove), so it cannot raise SymbolTableError over the syntax error (shared with C09.R1)"
    for f in r9.findings:
        f.rule = "C06.R9"
    results.append(r9)
    from rules import order_rules, format_rules
    results.append(order_rules.index_guard_rule(m, "C06.R7"))
    results.append(order_rules.nullable_deref_rule(m, "C06.R10", [ctx.engine]))
    results.append(format_rules.format_arity_rule(m, "C06.R8"))
    from rules import optional_rules
    results.append(optional_rules.optional_rule(m, "C06.R11"))
    from rules import guard_rules
    results.append(guard_rules.param_index_rule(m, "C06.R12"))
    results.append(guard_rules.assert_on_input_rule(m, "C06.R13"))
    results.append(order_rules.reader_none_rule(m, "C06.R14"))
    results.append(order_rules.inverse_map_lookup_rule(m, "C06.R15"))
    results.append(guard_rules.type_switch_rule(m, "C06.R16"))
    results.append(guard_rules.int_operand_rule(m, "C06.R17"))
    results.append(guard_rules.match_object_rule(m, "C06.R18"))
    results.append(optional_rules.accessor_index_rule(m, "C06.R19"))
    results.append(order_rules.definite_none_rule(m, "C06.R21"))
    results.append(r22_exit_path_instances(m, blocks))
    from rules import reader_rules
    results.append(reader_rules.rule_item_ctor_agreement(m, "C06.R23"))
    from rules import C08
    from sa.report import retag
    results.append(retag(C08.r4_opener_index(m), "C06.R20", "the block engine calls the get_start_*() protocol on content[start_idx], never on a "
                         "comment/include/directive collected before the opening statement (AttributeError otherwise; shared with C08.R4)"))
    from rules import order_rules as _or24
    results.append(_or24.dispatch_terminates_rule(m, "C06.R24"))
    from rules import prog_rules
    results.append(prog_rules.garbage_rule(m, "C06.R25", tier))
    expl = ("Decides the structural clauses of C06: (R1) who-may-call -- no call path from the parse/print/read entry points to a "
            "process-terminating call (resolved call graph incl. grammar dispatch); (R2) every fparser exception class raised as a "
            "signal is converted at Program.__new__; (R3) every explicit raise of a non-convertible class is discharged by a guard "
            "classification, and a matcher raise guarded by the content of the parsed text is a violation; (R4) source files are "
            "opened with the registered decode-error handler; (R5) per call site of the block engine, every get_*() protocol method "
            "it will call exists on every class the receiver can be. Does NOT decide termination, the time bound, or implicit "
            "exceptions (IndexError etc.).")
    return results, expl
