"""C11 -- comments are kept exactly once and in place, or ignored without effect (structural clauses)."""
import ast

from sa import astutil as A
from sa import flow as F
from sa import tables
from sa.model import AnalysisError
from sa.report import RuleResult
from rules import common_block as cb
from rules import reader_rules as rr

F03 = "fparser.two.Fortran2003"
RF = "fparser.common.readfortran"


def r1_always_tried(m, ctx, blocks):
    r = RuleResult("C11.R1", "comment, include, directive and preprocessor classes are tried in every block (per call site) and "
                             "around every program unit")
    r.floor = 36
    for inst in blocks:
        if inst.args:
            cb.run_classlist(ctx, inst, r)
    # BlockBase.match: preceding comments are collected before the start statement
    eng = ctx.engine
    r.instances += 1
    ok = False
    for n in A.body_nodes(eng.node):
        if isinstance(n, ast.If) and A.text(n.test) == "startcls is not None":
            idx_add = idx_start = None
            for i, s in enumerate(n.body):
                for c in ast.walk(s):
                    if isinstance(c, ast.Call):
                        t = A.text(c.func)
                        if t.endswith("add_comments_includes_directives") and idx_add is None:
                            idx_add = i
                        if t == "startcls" and idx_start is None:
                            idx_start = i
            ok = idx_add is not None and idx_start is not None and idx_add < idx_start
    r.ob(ok, "BlockBase.match: add_comments_includes_directives(content, reader) runs before startcls(reader)")
    if not ok:
        r.fail("BlockBase.match|pre-comments", "BlockBase.match no longer collects comments/includes/directives before trying the opening statement", m.loc(eng))
    # Program.match: before the loop and after every unit
    pm = m.need_func(F03, "Program.match")
    r.instances += 1
    before = in_loop_after = False
    for i, s in enumerate(pm.node.body):
        if isinstance(s, ast.Expr) and A.text(s.value).startswith("add_comments_includes_directives("):
            before = True
        for lp in ast.walk(s):
            if isinstance(lp, ast.While):
                pu = ad = None
                for j, b in enumerate(lp.body):
                    for c in ast.walk(b):
                        if isinstance(c, ast.Call) and A.text(c.func) == "Program_Unit" and pu is None:
                            pu = j
                        if isinstance(c, ast.Call) and A.text(c.func) == "add_comments_includes_directives" and pu is not None and ad is None:
                            ad = j
                in_loop_after = pu is not None and ad is not None and ad > pu
    r.ob(before and in_loop_after, "Program.match: comments collected before the first unit and after every unit")
    if not (before and in_loop_after):
        r.fail("Program.match|comments", "Program.match no longer collects comments/includes/directives before the first and after every program unit", m.loc(pm))
    # add_comments_includes_directives: both matchers in every round
    ad = m.need_func(F03, "add_comments_includes_directives")
    r.instances += 1
    rounds = []
    pre = []
    for s in A.strip_docstring(ad.node.body):
        if isinstance(s, ast.While):
            rounds.append(("before the loop", pre))
            rounds.append(("inside the loop", s.body))
        else:
            pre.append(s)
    if len(rounds) != 2:
        r.error("add_comments_includes_directives: loop shape not recognised")
    else:
        for label, stmts in rounds:
            names = {A.text(c.func).split(".")[-1] for s in stmts for c in ast.walk(s) if isinstance(c, ast.Call)}
            need = {"match_comment_or_include", "match_cpp_directive"}
            ok = need <= names
            r.ob(ok, "add_comments_includes_directives: %s tries %s" % (label, sorted(need & names)))
            if not ok:
                r.fail("add_comments_includes_directives|%s|%s" % (label, ",".join(sorted(need - names))),
                       "add_comments_includes_directives does not try %s %s: a run of comment/directive lines stops being collected "
                       "at the first line only that matcher accepts" % (sorted(need - names), label), m.loc(ad))
    mc = m.need_func(F03, "match_comment_or_include")
    for pd, label in ((F.TRUTHY, "process_directives on"), (F.FALSY, "process_directives off")):
        r.instances += 1
        cl = TriedClient(m, mc)
        fl = TriedFlow(m, mc, cl)
        out = fl.run(F.State({"@process_directives": pd, "$tried": frozenset()}))
        need = {"Comment", "Include_Stmt"} | ({"Directive"} if pd == F.TRUTHY else set())
        bad = None
        n = 0
        for st, node in out.ret:
            n += 1
            rv = st.env.get("$ret", F.NONE)
            t, fz = F.Flow.truth_vals(rv)
            tried = {a[1] for a in st.get("$tried") if a[0] == "tag"}
            if fz and not need <= tried:
                bad = (node, sorted(need - tried))
            if pd == F.FALSY and "Directive" in tried:
                bad = (node, ["(Directive tried although process_directives is off)"])
        r.ob(bad is None, "match_comment_or_include[%s]: 'nothing found' is only reported after trying %s (%d return states)" % (label, sorted(need), n))
        if bad:
            r.fail("match_comment_or_include|%s|%s" % (label, ",".join(bad[1])),
                   "match_comment_or_include (%s) can report that the next line is no comment/include without having tried %s"
                   % (label, bad[1]), m.loc(mc, bad[0]) if bad[0] is not None else m.loc(mc))
    return r


class TriedClient(F.Client):
    """Which rule classes were tried on the reader before a function reports 'nothing found'."""
    lazy_expr = True
    track = {"obj", "$tried", "@process_directives", "$ret"}

    def __init__(self, m, f):
        self.m = m
        self.f = f
        self.attr_vars = {"reader.process_directives": "@process_directives"}
        # every local of the (small) function is tracked, whatever it is called
        self.track = set(type(self).track) | {n.id for n in ast.walk(f.node) if isinstance(n, ast.Name) and isinstance(n.ctx, ast.Store)}

    def call_value(self, call, st):
        if isinstance(call.func, ast.Name) and self.m.class_of_name(self.f, call.func.id):
            return frozenset([("c", None), ("truthy",)])
        return F.TOP

    def call_effect(self, call, st):
        if isinstance(call.func, ast.Name) and self.m.class_of_name(self.f, call.func.id) and call.args \
                and A.text(call.args[0]) == "reader":
            return (st.set("$tried", st.get("$tried") | frozenset([("tag", call.func.id)]) if st.get("$tried") != F.TOP
                           else frozenset([("tag", call.func.id)])),)
        return (st,)


class TriedFlow(cb.ListFlow):
    pass


class ItemClient(F.Client):
    """Typestate of one reader item: $item in {none, held, released, stored, via}."""

    def __init__(self, m, f, itemvar):
        self.m = m
        self.f = f
        self.v = itemvar
        self.via = None
        self.track = {itemvar, "$item", "obj", "res"} | {n.id for n in ast.walk(f.node) if isinstance(n, ast.Name) and isinstance(n.ctx, ast.Store)}

    def call_value(self, call, st):
        t = A.text(call.func)
        if isinstance(call.func, ast.Attribute) and call.func.attr in ("get_item", "next") and isinstance(call.func.value, ast.Name) \
                and call.func.value.id != "self":
            return frozenset([("c", None), ("truthy",)])
        return F.TOP

    def call_effect(self, call, st):
        t = A.text(call.func)
        args = [A.text(a) for a in call.args]
        if isinstance(call.func, ast.Attribute) and call.func.attr == "put_item" and isinstance(call.func.value, ast.Name) and args == [self.v]:
            return (st.set("$item", F.const("released")),)
        if isinstance(call.func, ast.Name) and self.v in args and self.m.class_of_name(self.f, call.func.id):
            return (st.set("$item", F.const("via")),)
        return (st,)

    def stmt_effect(self, s, st):
        if isinstance(s, ast.Assign):
            if isinstance(s.value, ast.Call) and A.text(s.value.func) in ("reader.get_item", "reader.next") \
                    and any(isinstance(t, ast.Name) and t.id == self.v for t in s.targets):
                return st.set("$item", F.const("held"))
            if any(isinstance(t, ast.Attribute) for t in s.targets) and A.text(s.value) == self.v:
                return st.set("$item", F.const("stored"))
            if isinstance(s.value, ast.Call) and st.get("$item") == F.const("via") and isinstance(s.targets[0], ast.Name):
                self.via = s.targets[0].id
        return st


def r2_items(m, ctx):
    r = RuleResult("C11.R2i", "every item taken from the reader is stored in the returned node or given back, on every path")
    r.floor = 5
    sites = []
    for (path, q), f in sorted(m.funcs.items()):
        if not f.module.startswith("fparser.two"):
            continue
        for n in A.body_nodes(f.node):
            if isinstance(n, ast.Assign) and isinstance(n.value, ast.Call) and isinstance(n.value.func, ast.Attribute) \
                    and n.value.func.attr in ("get_item", "next") and isinstance(n.value.func.value, ast.Name) \
                    and n.value.func.value.id != "self" and isinstance(n.targets[0], ast.Name):
                sites.append((f, n.targets[0].id))
    for f, var in sites:
        r.instances += 1
        cl = ItemClient(m, f, var)
        fl = F.Flow(m, f, cl)
        out = fl.run(F.State({"$item": F.const("none")}))
        bad = None
        n = 0
        for st, node in out.ret:
            n += 1
            s = st.get("$item")
            iv = st.get(var)
            if s == F.const("held") and iv != F.NONE and ("c", None) not in iv:
                bad = (node, "is neither stored nor given back")
            if s == F.const("via") and node is not None and node.value is not None:
                # stored through a constructor whose result may be empty
                if isinstance(node.value, ast.Name):
                    t, fz = F.Flow.truth_vals(st.get(node.value.id))
                    if fz:
                        bad = (node, "was handed to a constructor that produced nothing, and is not given back")
        r.ob(bad is None, "%s: item `%s`, %d return states" % (f.qualname, var, n))
        if bad:
            r.fail("%s|%s" % (f.qualname, var), "%s: at `%s` the item taken from the reader %s: the line is lost from the stream"
                   % (f.qualname, A.text(bad[0])[:40] if bad[0] is not None else "end of function", bad[1]),
                   m.loc(f, bad[0]) if bad[0] is not None else m.loc(f))
    return r


def r2_nodes(m, ctx, blocks):
    r = RuleResult("C11.R2ii", "every reader-level matcher keeps or restores, in reverse order, all nodes it obtained when it reports no match")
    r.floor = 40
    for inst in blocks:
        if inst.args:
            cb.run_consume(ctx, ctx.engine, inst, r, inst.tag)
    # the other reader-level matchers with their own loops
    base_block = m.key("BlockBase", "fparser.two.utils")
    own = []
    for k, c in sorted(m.classes.items()):
        if m.issub(k, base_block) and "match" in c["own"] and k != base_block:
            f = m.method(k, "match")
            loops = [n for n in A.body_nodes(f.node) if isinstance(n, (ast.While, ast.For))]
            ctor = any(isinstance(n, ast.Assign) and isinstance(n.value, ast.Call) and n.value.args and A.text(n.value.args[0]) == "reader"
                       and isinstance(n.value.func, ast.Name) for n in A.body_nodes(f.node))
            if loops and ctor:
                own.append((k, f))
    # ... and module-level helpers of the grammar modules that build nodes from a reader in a loop (a matcher may delegate to one)
    helpers = {}
    for (p_, q), f in sorted(m.funcs.items()):
        pp = p_.replace("\\", "/")
        if "/two/" not in pp or "/tests/" in pp or "." in q or "reader" not in A.param_names(f.node):
            continue
        loops = [n for n in A.body_nodes(f.node) if isinstance(n, (ast.While, ast.For))]
        ctor = any(isinstance(n, ast.Assign) and isinstance(n.value, ast.Call) and n.value.args and A.text(n.value.args[0]) == "reader"
                   and isinstance(n.value.func, ast.Name) for n in A.body_nodes(f.node))
        returns_none = any(isinstance(n, ast.Return) and (n.value is None or A.const(n.value, 0) is None) for n in A.body_nodes(f.node))
        if loops and ctor and returns_none and any(isinstance(c, ast.Call) and isinstance(c.func, ast.Attribute) and c.func.attr == "restore_reader"
                                                   for c in ast.walk(f.node)):
            helpers[q] = f
    names = sorted(c.split(":")[1] for c, f in own)
    r.notes.append("reader-level matchers with their own loop: %s; helpers: %s" % (names, sorted(helpers)))
    for need in ("Program", "Component_Part", "Outer_Shared_Do_Construct", "Inner_Shared_Do_Construct"):
        if need not in names:
            k_ = m.key(need, F03)
            f_ = m.method(k_, "match") if k_ else None
            delegated = f_ is not None and any(isinstance(c.func, ast.Name) and c.func.id in helpers for c in A.calls(f_.node))
            if not delegated:
                r.error("%s.match is no longer a reader-level matcher with its own loop (anchor changed)" % need)
    for q, f in sorted(helpers.items()):
        cb.run_consume(ctx, f, None, r, f.qualname)
    for k, f in own:
        cb.run_consume(ctx, f, None, r, f.qualname)
    return r


def r4_directive_sibling(m):
    r = RuleResult("C11.R4", "Directive and Comment nodes differ only in their class (init/tostr are the same code)")
    r.floor = 2
    kd, kc = m.key("Directive", F03), m.key("Comment", F03)
    for meth in ("init", "tostr"):
        fd, fc = m.method(kd, meth), m.method(kc, meth)
        r.instances += 1
        if fd is None or fc is None:
            r.error("Directive/Comment.%s vanished" % meth)
            continue

        def norm(f):
            body = A.strip_docstring(f.node.body)
            return [ast.dump(s) for s in body]
        ok = norm(fd) == norm(fc)
        r.ob(ok, "Directive.%s == Comment.%s (statement-wise AST equality, docstrings/annotations ignored)" % (meth, meth))
        if not ok:
            r.fail("Directive-vs-Comment|%s" % meth, "Directive.%s and Comment.%s are no longer the same code: turning on directive processing "
                   "changes more than the node type" % (meth, meth), m.loc(fd))
    return r


def r7_inline_flag(m):
    r = RuleResult("C11.R7", "a comment is marked inline exactly when code precedes it on its line: the trailing-comment splitter computes the "
                             "flag at every site, whole-line comment sites never set it (an inline comment is never a directive)")
    r.floor = 6
    rb = m.key("FortranReaderBase", RF)
    cd = m.classdef(rb)
    for meth in [n for n in cd.body if isinstance(n, ast.FunctionDef)]:
        f = m.method(rb, meth.name)
        for c in A.calls(meth):
            if not (isinstance(c.func, ast.Attribute) and c.func.attr == "comment_item"):
                continue
            r.instances += 1
            kw = {k.arg: k.value for k in c.keywords}
            flag = kw.get("inline_comment") or (c.args[3] if len(c.args) > 3 else None)
            if meth.name == "handle_inline_comment":
                ok = flag is not None and not isinstance(flag, ast.Constant)
                r.ob(ok, "handle_inline_comment: comment_item(..., inline_comment=%s)" % (A.text(flag) if flag is not None else "<default False>"))
                if not ok:
                    r.fail("handle_inline_comment|inline-flag|%s" % A.text(c.args[0])[:20], "handle_inline_comment builds the comment `%s` without computing "
                           "whether code precedes it (inline_comment %s): a trailing comment reached through this path is treated as a "
                           "whole-line comment and, with process_directives, becomes a Directive"
                           % (A.text(c.args[0])[:30], "is the constant " + A.text(flag) if flag is not None else "defaults to False"), m.loc(f, c))
            else:
                ok = flag is None or (isinstance(flag, ast.Constant) and flag.value is False)
                r.ob(ok, "%s: whole-line comment_item(%s)" % (meth.name, A.text(c.args[0])[:30] if c.args else ""))
                if not ok:
                    r.fail("%s|inline-flag|%s" % (meth.name, A.text(c.args[0])[:20] if c.args else ""), "%s marks the whole-line comment `%s` as inline "
                           "(inline_comment=%s): a directive line there stays a Comment under process_directives"
                           % (meth.name, A.text(c.args[0])[:30] if c.args else "", A.text(flag)), m.loc(f, c))
    return r


def run(m, tier):
    ctx = cb.get_ctx(m)
    blocks = tables.engine_instances(m, "BlockBase")
    results = [r1_always_tried(m, ctx, blocks), r2_items(m, ctx), r2_nodes(m, ctx, blocks),
               rr.rule_ignore_filter(m, "C11.R3"), r4_directive_sibling(m), rr.rule_quote_state(m, "C11.R5"),
               rr.rule_queue(m, "C11.R6"), r7_inline_flag(m)]
    from rules import order_rules
    results.append(order_rules.option_forwarding_rule(m, "C11.R8"))
    from rules import regex_rules
    r9 = regex_rules.anchor_rule(m, "C11.R9")
    r9.title = "the directive-prefix patterns (and every other pattern) anchor all alternatives alike: a comment that merely mentions a sentinel is not a directive (shared with C08.R7)"
    results.append(r9)
    results.append(rr.rule_inline_table(m, "C11.R10"))
    results.append(r11_strict_order(m, blocks))
    results.append(order_rules.lifo_restore_rule(m, "C11.R12"))
    from rules import order_rules as _or
    results.append(_or.comment_option_owner_rule(m, "C11.R15"))
    from rules import two_roundtrip
    results.append(two_roundtrip.block_printer_rule(m, "C11.R14"))
    from rules import reader_interp
    results.append(reader_interp.comments_rule(m, "C11.R13", tier))
    from rules import prog_rules
    results.append(prog_rules.comments_rule(m, "C11.R16", tier))
    from rules import order_rules as _or_gb
    results.append(_or_gb.giveback_complete_rule(m, "C11.R17"))
    expl = ("Decides structural clauses of C11: per call site of the block engine the class list tried at every position contains the "
            "comment, include, preprocessor (and, exactly under process_directives, directive) classes; comments are collected before "
            "each opening statement and around every program unit, with both collectors in every round; every reader item and every "
            "node obtained from the reader is kept or given back on every path (typestate), and a no-match restores everything in "
            "reverse; the ignore filter sits on the single exit of the item loop; Directive and Comment share their code; a comment "
            "ends character context; the item queue keeps comments behind their statement; the inline flag is computed at every trailing-comment site and never set for whole-line comments. Does NOT decide exact placement for every position.")
    return results, expl


def r11_strict_order(m, blocks, rid="C11.R11"):
    """BlockBase.match appends Comment / Include / Directive / cpp after the listed classes.  With strict_order=True the class index is
    never reset, so once one of those has matched at this level none of the listed classes is tried again: the flag is only safe where
    every listed class is itself a part (a block without END class) that takes the comments of its own stretch."""
    r = RuleResult(rid, "a block that enforces the order of its parts (strict_order=True) lists only container parts that absorb their own "
                        "comments/includes/directives: otherwise a comment between two statements would end the matching of the listed classes")
    r.floor = 1
    # a "part": a block without END class, which goes on for as long as one of its classes (comments included) matches
    containers = {i.concrete for i in blocks if i.args and i.args.get("endcls") is not None and i.args["endcls"].kind == "none"}
    for inst in blocks:
        if not inst.args or inst.flag("strict_order") is not True:
            continue
        r.instances += 1
        subs = inst.args.get("subclasses")
        if subs is None or subs.kind not in ("list", "tuple"):
            r.undet("%s: the class list of a strict_order block is not a literal list" % inst.tag)
            continue
        bad = []
        for v in subs.v:
            if v.kind != "class":
                bad.append(repr(v))
                continue
            # the class, or (for a rule with alternatives only) every alternative, must be a container
            k = v.v
            if k in containers:
                continue
            bad.append(k.split(":")[1])
        r.ob(not bad, "%s: strict_order over %s, all containers" % (inst.tag, subs.short()))
        if bad:
            r.fail("%s|strict-order|%s" % (inst.tag, bad[0]), "%s.match enforces the order of %s, but %s is not a comment-absorbing container: "
                   "after a comment (or include/directive/cpp line) has matched at this level no further %s can match, so valid source "
                   "is rejected once its comments are kept and parses differently from the comment-free text"
                   % (inst.tag, subs.short(), bad[0], bad[0]), m.loc(inst.func, inst.call))
    return r
