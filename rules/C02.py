"""C02 -- regenerated source preserves the program's content token for token (structural clauses)."""
import ast

from sa import astutil as A
from sa import defuse
from sa import flow as F
from sa import tables
from sa.model import AnalysisError
from sa.report import RuleResult
from rules import common_block as cb
from rules import reader_rules as rr
from rules import shapes_rules
from rules import engine_tables

F03 = "fparser.two.Fortran2003"
UTILS = "fparser.two.utils"
FOLDS = {"upper", "lower", "title", "capitalize", "swapcase", "casefold"}


def r1_leaves_keep_text(m):
    r = RuleResult("C02.R1", "names, character literals, labels and comments keep their spelling: no case folding or rewriting on the way from "
                             "the input to the stored text")
    r.floor = 5
    targets = [(F03, "Name", "match"), (F03, "Char_Literal_Constant", "match"), (F03, "Label", "match"), (UTILS, "StringBase", "match"),
               (F03, "Comment", "init"), (F03, "Directive", "init"), (F03, "Include_Filename", "match")]
    for mod, cname, meth in targets:
        if not m.has_class(cname, mod):
            r.error("%s.%s vanished" % (mod, cname))
            continue
        k = m.key(cname, mod)
        f = m.method(k, meth)
        r.instances += 1
        if f is None:
            r.error("%s.%s vanished" % (cname, meth))
            continue
        # names that reach the result: returned tuple elements / values stored into self.items / self.string
        d = defuse.deps(f.node)
        sinks = set()
        for n in A.body_nodes(f.node):
            if isinstance(n, ast.Return) and n.value is not None:
                sinks |= A.names_in(n.value)
                sink_exprs = [n.value]
            if isinstance(n, ast.Assign) and any(isinstance(t, ast.Attribute) and t.attr in ("items", "string") for t in n.targets):
                sinks |= A.names_in(n.value)
        reach = set()
        for s in sinks:
            reach |= defuse.closure(f.node, s, d)
        bad = None
        for n in A.body_nodes(f.node):
            if isinstance(n, ast.Call) and isinstance(n.func, ast.Attribute) and n.func.attr in FOLDS:
                # is this folding on the flow to the result?  (directly in a return / stored value, or assigned to a reaching name)
                P = None
                cur = n
                parents = A.parents(f.node)
                on_flow = False
                while cur in parents:
                    p = parents[cur]
                    if isinstance(p, ast.Return):
                        on_flow = True
                    if isinstance(p, ast.Assign):
                        tn = set()
                        for t in p.targets:
                            tn |= set(A.assigned_names(t))
                            if isinstance(t, ast.Attribute) and t.attr in ("items", "string"):
                                on_flow = True
                        if tn & reach:
                            on_flow = True
                    if isinstance(p, (ast.If, ast.While, ast.Compare, ast.Assert)) and cur is getattr(p, "test", cur) or isinstance(p, ast.Compare):
                        on_flow = False
                        break
                    cur = p
                if on_flow:
                    bad = n
        r.ob(bad is None, "%s.%s: no case folding on the flow to the stored text" % (cname, meth))
        if bad is not None:
            r.fail("%s.%s|fold|%s" % (cname, meth, bad.func.attr), "%s.%s applies .%s() to text that ends up in the node: the spelling of the "
                   "source is not reproduced character for character" % (cname, meth, bad.func.attr), m.loc(f, bad))
    return r


class TaintClient(F.Client):
    """May-taint of locals by the *mapped* line of string_replace_map; sanitised by calling the returned map."""

    def __init__(self, m, f, base):
        self.m = m
        self.f = f
        self.base = base
        self.track = None
        self.mapvars = set()
        self.linevars = set()
        self.hits = []
        self.sites = 0
        # comprehension scoping: names bound by a comprehension are tainted iff what they iterate over is
        self.comp_env = {}
        self.enclosing = {}
        for n in ast.walk(f.node):
            if isinstance(n, (ast.ListComp, ast.GeneratorExp, ast.SetComp)):
                for x in ast.walk(n.elt):
                    if isinstance(x, ast.Call):
                        self.enclosing.setdefault(id(x), []).append(n)

    def tainted_expr(self, node, st):
        """Does the value of expr derive from a tainted variable without passing through the map?"""
        if node is None:
            return False
        if isinstance(node, ast.Call):
            fn = node.func
            if isinstance(fn, ast.Name) and fn.id in self.mapvars:
                return False          # repmap(x)
            if isinstance(fn, ast.Attribute) and fn.attr == "apply_map":
                return False
            if isinstance(fn, ast.Name) and fn.id in ("len", "int", "bool", "isinstance"):
                return False
            if isinstance(fn, ast.Name) and self.is_ctor(fn):
                return False          # a node, not text
            parts = list(node.args) + [k.value for k in node.keywords]
            if isinstance(fn, ast.Attribute):
                parts.append(fn.value)
            return any(self.tainted_expr(p, st) for p in parts)
        if isinstance(node, ast.Name):
            if node.id in self.comp_env:
                return self.comp_env[node.id]
            return st.get("$t:" + node.id) == F.TRUE
        if isinstance(node, (ast.ListComp, ast.GeneratorExp, ast.SetComp)):
            saved = dict(self.comp_env)
            try:
                self.bind_comp(node, st)
                return self.tainted_expr(node.elt, st)
            finally:
                self.comp_env = saved
        if isinstance(node, ast.Constant):
            return False
        if isinstance(node, ast.Compare):
            return False
        return any(self.tainted_expr(c, st) for c in ast.iter_child_nodes(node) if isinstance(c, ast.expr))

    def is_ctor(self, fn):
        if not isinstance(fn, ast.Name):
            return False
        if fn.id in A.param_names(self.f.node):
            return fn.id.endswith("cls") or fn.id in ("cls", "subcls")
        k = self.m.class_of_name(self.f, fn.id)
        return bool(k and self.m.issub(k, self.base))

    def bind_comp(self, comp, st):
        for g in comp.generators:
            t = self.tainted_expr(g.iter, st)
            for nm in A.assigned_names(g.target):
                self.comp_env[nm] = t

    def call_effect(self, call, st):
        if self.is_ctor(call.func):
            saved = dict(self.comp_env)
            for comp in self.enclosing.get(id(call), []):
                self.bind_comp(comp, st)
            try:
                tainted_args = [a for a in call.args if self.tainted_expr(a, st)]
            finally:
                self.comp_env = saved
            for a in tainted_args:
                if True:
                    # the equality-to-literal discharge: argument just compared equal to a keyword
                    self.hits.append((call, a))
        return (st,)

    def stmt_effect(self, s, st):
        if isinstance(s, ast.Assign):
            v = s.value
            if isinstance(v, ast.Call) and (A.dotted(v.func) or "").split(".")[-1] == "string_replace_map":
                self.sites += 1
                t = s.targets[0]
                if isinstance(t, (ast.Tuple, ast.List)) and len(t.elts) == 2 and all(isinstance(e, ast.Name) for e in t.elts):
                    self.mapvars.add(t.elts[1].id)
                    return st.set("$t:" + t.elts[0].id, F.TRUE).set("$t:" + t.elts[1].id, F.FALSE)
                return st
            taint = self.tainted_expr(v, st)
            for t in s.targets:
                for nm in A.assigned_names(t):
                    st = st.set("$t:" + nm, F.TRUE if taint else F.FALSE)
            return st
        if isinstance(s, ast.AugAssign) and isinstance(s.target, ast.Name):
            if self.tainted_expr(s.value, st):
                return st.set("$t:" + s.target.id, F.TRUE)
        return st


class TaintFlow(F.Flow):
    def stmt(self, s, states, cur_exc):
        # loop variables take the taint of what they iterate over
        if isinstance(s, ast.For):
            new = set()
            for st in states:
                t = self.c.tainted_expr(s.iter, st)
                for nm in A.assigned_names(s.target):
                    st = st.set("$t:" + nm, F.TRUE if t else F.FALSE)
                new.add(st)
            states = new
        return F.Flow.stmt(self, s, states, cur_exc)


R2_EXCEPTIONS = {
    ("Common_Stmt.match", "Common_Block_Name"): "the text between the slashes must be a bare name; placeholders only stand for bracketed/quoted "
                                                 "text or numeric literals, which Name rejects",
    ("Case_Stmt.match", "Case_Selector"): "the argument was just compared equal to the keyword DEFAULT",
    ("Function_Stmt.match", "Function_Name"): "the argument is the match of the name pattern at the start of the line; placeholders only "
                                              "occur inside brackets/quotes",
    ("Subroutine_Stmt.match", "Subroutine_Name"): "the argument is the match of the name pattern at the start of the line; placeholders only "
                                                  "occur inside brackets/quotes",
}


def r2_replace_map(m):
    r = RuleResult("C02.R2", "every tokenised (placeholder-bearing) line is passed through its inverse map before a child node is built from it")
    r.floor = 45
    base = m.key("Base", UTILS)
    n_sites = 0
    for (path, q), f in sorted(m.funcs.items()):
        if not f.module.startswith("fparser.two"):
            continue
        if not any(isinstance(c, ast.Call) and (A.dotted(c.func) or "").split(".")[-1] == "string_replace_map" for c in A.calls(f.node)):
            continue
        cl = TaintClient(m, f, base)
        cl.track = None
        fl = TaintFlow(m, f, cl)
        try:
            fl.run(F.State({}))
        except AnalysisError as err:
            r.undet("%s: %s" % (q, err))
            continue
        n_sites += cl.sites
        r.instances += 1
        seen = set()
        bad = []
        for call, arg in cl.hits:
            key = (A.text(call.func), A.text(arg))
            if key in seen:
                continue
            seen.add(key)
            if (q, A.text(call.func)) in R2_EXCEPTIONS:
                continue
            bad.append((call, arg))
        r.ob(not bad, "%s: %d constructor calls fed from the tokenised line, all through the inverse map" % (q, len(seen)) if r.instances % 8 == 1 else None)
        for call, arg in bad[:3]:
            r.fail("%s|%s|%s" % (q, A.text(call.func), A.text(arg)[:30]), "%s builds %s from `%s`, which still carries the placeholders of the "
                   "tokenised line (F2PY_EXPR_TUPLE_n ...): the placeholder, not the source text, ends up in the tree"
                   % (q, A.text(call.func), A.text(arg)[:40]), m.loc(f, call))
    r.notes.append("%d string_replace_map call sites analysed" % n_sites)
    return r


def r3_program_units(m, ctx):
    r = RuleResult("C02.R3", "the program-unit loop returns everything it matched")
    r.floor = 1
    f = m.need_func(F03, "Program.match")
    r.instances += 1
    bad = None
    for n in A.body_nodes(f.node):
        if isinstance(n, ast.ExceptHandler):
            for x in n.body:
                for y in ast.walk(x):
                    if isinstance(y, ast.Return) and y.value is not None and "content" not in A.names_in(y.value):
                        # what is returned instead?
                        defs = [z.value for z in ast.walk(n) if isinstance(z, ast.Assign) and isinstance(y.value, ast.Name)
                                and A.text(z.targets[0]) == y.value.id]
                        if not any("content" in A.names_in(d) for d in defs):
                            bad = (y, A.text(n.type) if n.type else "*")
    r.ob(bad is None, "Program.match: every returning path returns the collected content")
    if bad is not None:
        r.fail("Program.match|fallback-discards", "Program.match: in the `except %s` fallback `%s` returns the result of the Main_Program0 match alone and "
               "discards the program units (and comments) already collected in `content`" % (bad[1], A.text(bad[0])), m.loc(f, bad[0]))
    return r


def r4_reader_errors(m):
    r = RuleResult("C02.R4", "no reader error is turned into end-of-input")
    r.floor = 1
    f = rr.reader_func(m, "next")
    r.instances += 1
    bad = None
    for n in A.body_nodes(f.node):
        if isinstance(n, ast.Try):
            for h in n.handlers:
                names = [A.text(h.type)] if h.type is not None and not isinstance(h.type, ast.Tuple) else ([A.text(e) for e in h.type.elts] if h.type else ["BaseException"])
                broad = any(x in ("Exception", "BaseException") for x in names)
                ends = any(isinstance(x, ast.Raise) and x.exc is not None and "StopIteration" in A.text(x.exc) for y in h.body for x in ast.walk(y)) or \
                    any(isinstance(x, ast.Return) and (x.value is None or A.const(x.value, 1) is None) for y in h.body for x in ast.walk(y))
                if broad and ends:
                    bad = h
    r.ob(bad is None, "FortranReaderBase.next: no broad handler converts errors into StopIteration")
    if bad is not None:
        r.fail("next|except-Exception->StopIteration", "FortranReaderBase.next catches `%s` and raises StopIteration: any error while building "
               "an item (e.g. FortranReaderError for an empty ';' part) silently ends the statement stream and the statement is dropped"
               % (A.text(bad.type) if bad.type else "everything"), m.loc(f, bad))
    return r


class LabelNameClient(F.Client):
    track = {"label", "name", "isfix"}


def r5_labels_names(m, ctx, blocks):
    r = RuleResult("C02.R5", "every class that can be built from a reader line prints its statement label and construct name")
    r.floor = 100
    stmt = m.key("StmtBase", UTILS)
    block = m.key("BlockBase", UTILS)
    exempt = set(ctx.always.values()) | set(ctx.cpp)
    line_level = set()
    for inst in blocks:
        if not inst.args:
            continue
        for p in ("startcls", "endcls"):
            v = inst.args.get(p)
            if v is not None and v.kind == "class":
                line_level |= m.closure_all(v.v)
        sub = inst.args.get("subclasses")
        if sub is not None and sub.kind in ("list", "tuple"):
            for e in sub.v:
                if e.kind == "class":
                    line_level |= m.closure_all(e.v)
    stmt_tf = m.method(stmt, "tofortran")
    for k in sorted(line_level):
        if m.issub(k, block) or k in exempt:
            continue
        r.instances += 1
        tf = m.method(k, "tofortran")
        ok = tf is stmt_tf
        r.ob(ok, "%s prints through StmtBase.tofortran" % k.split(":")[1] if r.instances % 30 == 1 else None)
        if not ok:
            r.fail("%s|tofortran" % k.split(":")[1], "%s can be built from a reader line (with a label/construct name) but prints through %s, "
                   "which drops the label and the construct name" % (k.split(":")[1], tf.qualname if tf else "nothing"), m.loc(tf) if tf else None)
    # StmtBase.tofortran itself: on every path label, name and the statement text are in the returned string
    r.instances += 1
    if stmt_tf is None:
        r.error("StmtBase.tofortran vanished")
        return r
    # decided on a table, by interpretation (no local name of the printer is relied on): statements with / without label and
    # construct name, free and fixed form, with and without indentation
    from sa import pureeval as PE

    class _Stmt(PE.Obj):
        def __str__(self):
            return "STMT_TEXT"
    ev = PE.Evaluator({})
    bad = None
    n = 0
    try:
        for label in (None, 10, 12345):
            for name in (None, "outer"):
                for isfix in (None, False, True):
                    for tab in ("", "      "):
                        for has_item in ((True,) if (label or name) else (True, False)):
                            me = _Stmt({"item": PE.Obj({"label": label, "name": name}) if has_item else None})
                            n += 1
                            out = ev.run_function(stmt_tf.node, [me], {"tab": tab, "isfix": isfix})
                            what = None
                            if not isinstance(out, str) or not out.endswith("STMT_TEXT"):
                                what = "does not end with the statement text"
                            elif label is not None and str(label) not in out[:-len("STMT_TEXT")]:
                                what = "omits the statement label"
                            elif name is not None and (name + ":") not in out[:-len("STMT_TEXT")].replace(" ", ""):
                                what = "omits the construct name"
                            elif label is not None and name is not None and out.index(str(label)) > out.index(name):
                                what = "prints the construct name in front of the label"
                            if what and bad is None:
                                bad = (what, "label %r, construct name %r, isfix=%r, tab=%r -> %r" % (label, name, isfix, tab, out))
    except PE.Unsupported as err:
        r.error("StmtBase.tofortran cannot be interpreted statically (%s)" % err)
        return r
    except PE.PyRaise as err:
        bad = ("raises %s" % err.exc_type, "on a statement with label/name")
    r.ob(bad is None and n > 0, "StmtBase.tofortran: %d cases (label / construct name / fixed form / indentation): label, name and text printed" % n)
    if bad is not None:
        r.fail("StmtBase.tofortran|%s" % bad[0][:25], "StmtBase.tofortran %s: %s" % (bad[0], bad[1]), m.loc(stmt_tf))
    return r


def r6_inverse_map(m):
    r = RuleResult("C02.R6", "the inverse of the replace map restores one occurrence per placeholder found, in order (placeholder names are prefixes of each other)")
    r.floor = 1
    k = m.key("StringReplaceDict", "fparser.common.splitline")
    f = m.method(k, "__call__")
    r.instances += 1
    if f is None:
        r.error("StringReplaceDict.__call__ vanished")
        return r
    loops = [n for n in A.body_nodes(f.node) if isinstance(n, ast.For)]
    reps = [c for c in A.calls(f.node) if isinstance(c.func, ast.Attribute) and c.func.attr == "replace"]
    def occurrences(e):
        """the findall() list itself or an order- and multiplicity-preserving view of it"""
        if isinstance(e, ast.Call) and "findall" in A.text(e.func):
            return True
        if isinstance(e, ast.Call) and A.dotted(e.func) in ("list", "tuple", "iter") and len(e.args) == 1:
            return occurrences(e.args[0])
        if isinstance(e, (ast.GeneratorExp, ast.ListComp)) and len(e.generators) == 1 and not e.generators[0].ifs \
                and isinstance(e.elt, ast.Name) and isinstance(e.generators[0].target, ast.Name) and e.elt.id == e.generators[0].target.id:
            return occurrences(e.generators[0].iter)
        if isinstance(e, ast.Subscript) and isinstance(e.slice, ast.Slice) and e.slice.lower is None and e.slice.upper is None and e.slice.step is None:
            return occurrences(e.value)
        return False
    iter_ok = len(loops) == 1 and occurrences(loops[0].iter)
    def count_arg(c):
        # `line.replace(a, b, 1)` or the unbound form `str.replace(line, a, b, 1)`
        args = c.args[1:] if (isinstance(c.func.value, ast.Name) and c.func.value.id == "str") else c.args
        return A.const(args[2]) if len(args) >= 3 else None
    bounded = bool(reps) and all(count_arg(c) == 1 for c in reps)
    # prefix property of the key formats (a key without terminator is a prefix of the key with a longer index)
    srm = m.need_func("fparser.common.splitline", "string_replace_map")
    fmts = [n.func.value.value for n in A.calls(srm.node) if isinstance(n.func, ast.Attribute) and n.func.attr == "format"
            and isinstance(n.func.value, ast.Constant) and isinstance(n.func.value.value, str)]
    prefixy = [x for x in fmts if x.endswith("{0}") or x.endswith("{}")]
    ok = (iter_ok and bounded) or not prefixy
    # the same discipline where the map is built: keys nested in a map entry are expanded occurrence by occurrence
    r.instances += 1
    # (the loop lives in string_replace_map itself or in a helper / a method of the map class in the same module; the inverse
    #  map's own loop, decided above, is not it)
    sl_path = m.modfile.get("fparser.common.splitline")
    nest = []
    for (path_, q_), fi in sorted(m.funcs.items()):
        if path_ != sl_path or fi is f:
            continue
        for lp in A.body_nodes(fi.node):
            if isinstance(lp, ast.For) and isinstance(lp.target, ast.Name) and \
                    any(isinstance(c, ast.Call) and isinstance(c.func, ast.Attribute) and c.func.attr == "replace" and len(c.args) >= 2
                        and isinstance(c.args[1], ast.Subscript) for s_ in lp.body for c in ast.walk(s_)) \
                    and not any(isinstance(x, ast.For) for s_ in lp.body for x in ast.walk(s_)):
                nest.append((fi, lp))
    if len(nest) != 1:
        r.error("string_replace_map: the loop expanding keys nested in a map entry was not found (anchor changed)")
    else:
        srm_, lp = nest[0]
        src_ = lp.iter
        if isinstance(src_, ast.Name):
            defs = [n.value for n in A.body_nodes(srm_.node) if isinstance(n, ast.Assign) and any(A.text(t) == src_.id for t in n.targets)]
        else:
            defs = [src_]

        def occurrence_list(v):
            return isinstance(v, ast.Call) and "findall" in A.text(v.func) and \
                not any(isinstance(c, ast.Call) and A.dotted(c.func) in ("set", "frozenset", "sorted", "dict.fromkeys") for c in ast.walk(v))
        multi = bool(defs) and all(occurrence_list(v) for v in defs)
        reps2 = [c for s_ in lp.body for c in ast.walk(s_) if isinstance(c, ast.Call) and isinstance(c.func, ast.Attribute) and c.func.attr == "replace"]
        once = bool(reps2) and all(len(c.args) >= 3 and A.const(c.args[2]) == 1 for c in reps2)
        ok2 = multi and once
        r.ob(ok2, "string_replace_map: nested keys expanded per occurrence: iterates the findall() list: %s; replace count 1: %s" % (multi, once))
        if not ok2:
            r.fail("string_replace_map|nested-expansion", "string_replace_map expands the keys nested in a map entry %s: a key occurring twice in one "
                   "parenthesised group (`g(1.0d-3, 1.0d-3, 5.0e0)`) is then expanded once only / all at once, and the placeholder left "
                   "behind is re-bound to a different literal one level down" % (
                       "over the distinct keys rather than the occurrences" if not multi else "without bounding the replacement to one occurrence"),
                   m.loc(srm_, lp))
    r.ob(ok, "StringReplaceDict.__call__: iterates the findall() occurrences: %s; bounded replace: %s; prefix-prone key formats: %s" % (iter_ok, bounded, prefixy))
    if not ok:
        r.fail("StringReplaceDict.__call__|unbounded", "StringReplaceDict.__call__ %s while the key format %s makes one placeholder a prefix of another "
               "(…_1 / …_10): restoring the shorter one corrupts the longer one" % (
                   "replaces every occurrence of a key at once" if not bounded else "does not visit the occurrences in order", prefixy), m.loc(f))
    return r


def r7_restore_order(m):
    r = RuleResult("C02.R7", "nodes are given back to the reader in reverse order of reading")
    r.floor = 3
    for (path, q), f in sorted(m.funcs.items()):
        if not f.module.startswith("fparser.two"):
            continue
        for n in A.body_nodes(f.node):
            if isinstance(n, ast.For):
                tgt = A.text(n.target)
                if any(isinstance(c, ast.Call) and isinstance(c.func, ast.Attribute) and c.func.attr == "restore_reader" and A.text(c.func.value) == tgt
                       for s in n.body for c in ast.walk(s)):
                    r.instances += 1
                    ok = isinstance(n.iter, ast.Call) and A.dotted(n.iter.func) == "reversed"
                    r.ob(ok, "%s: `for %s in %s`" % (q, tgt, A.text(n.iter)[:40]))
                    if not ok:
                        r.fail("%s|forward-restore" % q, "%s gives nodes back to the reader in reading order (`for %s in %s`): the reader's queue "
                               "is a stack for give-backs, so the statements come out reversed" % (q, tgt, A.text(n.iter)[:40]), m.loc(f, n))
    return r


def run(m, tier):
    from rules import guard_rules, optional_rules, two_roundtrip
    ctx = cb.get_ctx(m)
    blocks = tables.engine_instances(m, "BlockBase")
    shared = shapes_rules.c01_rules(m)[1:]
    for rr_ in shared:
        rr_.rule = rr_.rule.replace("C01.", "C02.S")
        for f in rr_.findings:
            f.rule = rr_.rule
    from rules import C11
    cons = C11.r2_nodes(m, ctx, blocks)
    cons.rule = "C02.S4"
    for f in cons.findings:
        f.rule = "C02.S4"
    results = [r1_leaves_keep_text(m), r2_replace_map(m), r3_program_units(m, ctx), r4_reader_errors(m), r5_labels_names(m, ctx, blocks),
               r6_inverse_map(m), r7_restore_order(m), rr.rule_splitquote(m, "C02.R8"), engine_tables.string_rules(m, "C02.R9"), rr.rule_literal_folding(m, "C02.R10"), rr.rule_semicolon(m, "C02.R11"), guard_rules.delimiter_offset_rule(m, "C02.R12"), guard_rules.keyword_prefix_rule(m, "C02.R13"), rr.rule_inline_table(m, "C02.R14"), guard_rules.optional_keyword_rule(m, "C02.R15"), guard_rules.alt_delimiter_rule(m, "C02.R16", "Fortran2003"), optional_rules.printed_rule(m, "C02.R17"), guard_rules.length_contradiction_rule(m, "C02.R18"), rr.rule_continuation(m, "C02.R19"), engine_tables.list_stmt_rule(m, "C02.R20"), guard_rules.index_provenance_rule(m, "C02.R21"), two_roundtrip.roundtrip_rule(m, "C02.R22", floor=290, tokens=True), rr.replace_map_table_rule(m, "C02.R23"), two_roundtrip.block_printer_rule(m, "C02.R24"), two_roundtrip.full_roundtrip_rule(m, "C02.R25", tokens=True)] + shared + [cons]
    from rules import prog_rules
    results.append(prog_rules.roundtrip_rule(m, "C02.R26", tier, tokens=True))
    from rules import reader_interp
    results.append(reader_interp.free_rule(m, "C02.R27", tier))
    results.append(engine_tables.separator_rule(m, "C02.R28"))
    expl = ("Decides structural clauses of C02 -- no place where content is dropped, duplicated or case-folded: literal-bearing leaves "
            "store the input text without case folding; in all functions that tokenise a line, no child node is built from text that "
            "still carries placeholders (path-sensitive may-taint with the map call as sanitiser); Program.match returns what it "
            "collected (1 known finding); no reader error becomes end-of-input (1 known finding); every line-level class prints label and "
            "construct name through StmtBase.tofortran, which includes label, name and text on every path; the inverse map is bounded "
            "and ordered; give-backs are reversed; splitquote never folds literals; matcher/printer arity and element coverage (shared "
            "with C01); consumed nodes are kept or restored (shared with C11). Does NOT decide token-sequence equality for all programs.")
    return results, expl
