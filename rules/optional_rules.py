"""Optional tuple elements in printers: an element that the matcher can leave None reaches the output (or is dereferenced) only on
paths on which the printer has established that it is not None.  Decided per matcher shape: the printer is interpreted abstractly
once for every None-pattern the matcher can return (path-sensitive, so correlated optionals -- "items[0] is None exactly when
items[1] is not" -- are handled)."""
import ast
import copy

from sa import astutil as A
from sa import flow as F
from sa import model as M
from sa.report import RuleResult
from rules import delim_rules as D

UTILS = "fparser.two.utils"
NOTNONE = frozenset([("truthy",), ("c", "")])


class ItemNames(ast.NodeTransformer):
    """self.items[k] -> __item_k ;  `a, b = self.items` -> `a, b = (__item_0, __item_1)` (arity n)."""
    def __init__(self, n):
        self.n = n
        self.dynamic = False

    def visit_Subscript(self, node):
        if A.text(node.value) not in ("self.items", "self.children"):
            self.generic_visit(node)
            return node
        if isinstance(node.ctx, ast.Load):
            k = None
            if isinstance(node.slice, ast.Constant) and isinstance(node.slice.value, int):
                k = node.slice.value
            elif isinstance(node.slice, ast.UnaryOp) and isinstance(node.slice.op, ast.USub) and isinstance(node.slice.operand, ast.Constant):
                k = self.n - node.slice.operand.value
            if k is not None and 0 <= k < self.n:
                return ast.copy_location(ast.Name(id="__item_%d" % k, ctx=ast.Load()), node)
            self.dynamic = True
        return node

    def visit_Attribute(self, node):
        self.generic_visit(node)
        if A.text(node) in ("self.items", "self.children") and isinstance(node.ctx, ast.Load):
            return ast.copy_location(ast.Tuple(elts=[ast.Name(id="__item_%d" % k, ctx=ast.Load()) for k in range(self.n)], ctx=ast.Load()), node)
        return node


class OptClient(F.Client):
    def __init__(self, names):
        self.track = set(names)
        self.uses = []       # (node, kind) with the item possibly None

    def call_raises(self, call, st):
        return ()

    def on_stmt(self, stmt, st):
        roots = [stmt.value] if isinstance(stmt, (ast.Return, ast.Assign, ast.Expr, ast.AugAssign)) and getattr(stmt, "value", None) is not None else []
        if isinstance(stmt, ast.Raise):
            return
        for root in roots:
            P = A.parents(root)
            for n in ast.walk(root):
                if not (isinstance(n, ast.Name) and isinstance(n.ctx, ast.Load) and n.id in self.track):
                    continue
                val = st.get(n.id)
                if ("c", None) not in val and ("top",) not in val:
                    continue
                if ("top",) in val and not n.id.startswith("__item_"):
                    continue
                # position of the use inside the expression
                x, kind = n, "printed"
                test_pos = False
                while x in P:
                    p_ = P[x]
                    if isinstance(p_, ast.Compare) or (isinstance(p_, ast.UnaryOp) and isinstance(p_.op, ast.Not)):
                        test_pos = True
                    if isinstance(p_, ast.IfExp) and x is p_.test:
                        test_pos = True
                    if isinstance(p_, ast.BoolOp):
                        test_pos = True
                    if isinstance(p_, ast.Attribute) and p_.value is x and x is n:
                        kind = "dereferenced"
                    if isinstance(p_, ast.Subscript) and p_.value is x and x is n:
                        kind = "dereferenced"
                    x = p_
                if test_pos:
                    continue
                if isinstance(stmt, ast.Assign) and root is stmt.value and P.get(n) is None and isinstance(stmt.targets[0], (ast.Name, ast.Tuple)):
                    continue    # plain alias `x = __item_k`: the alias is tracked instead
                if isinstance(stmt, ast.Assign) and isinstance(stmt.value, ast.Tuple) and n in stmt.value.elts:
                    continue
                # guards inside the expression (conditional expressions)
                facts = D.facts_at(root, n, dict(P, **{root: None}) if False else P)
                if proves_not_none(facts, n.id):
                    continue
                self.uses.append((n, kind, stmt))


def proves_not_none(facts, name):
    def ent(t, pol):
        if isinstance(t, ast.UnaryOp) and isinstance(t.op, ast.Not):
            return ent(t.operand, not pol)
        if isinstance(t, ast.BoolOp):
            parts = [ent(v, pol) for v in t.values]
            conj = (isinstance(t.op, ast.And) and pol) or (isinstance(t.op, ast.Or) and not pol)
            return any(parts) if conj else all(parts)
        if isinstance(t, ast.Compare) and len(t.ops) == 1 and A.const(t.comparators[0], 1) is None and A.text(t.left) == name:
            return (isinstance(t.ops[0], ast.IsNot) and pol) or (isinstance(t.ops[0], ast.Is) and not pol)
        if isinstance(t, ast.Name) and t.id == name:
            return pol
        return False
    return any(ent(t, pol) for t, pol in facts)


EXCEPTIONS = {
    "Data_Edit_Desc|__item_1|printed": "the pattern (c, None, v-list, None) is returned only for c == 'DT'; the I/B/O/Z/A/L branch that prints "
                                       "items[1] together with items[2] is reached only with the patterns built for those letters, where "
                                       "items[2] is not None only together with W(...) in items[1] (value correlation on items[0])",
}


def optional_rule(m, rid, exceptions=None):
    from sa import shapes as SH
    from sa.callgraph import CallGraph
    r = RuleResult(rid, "an element the matcher can leave None is printed or dereferenced by the node's printer only on paths that established it "
                        "is not None (per None-pattern the matcher can return)")
    r.floor = 100
    exceptions = EXCEPTIONS if exceptions is None else exceptions
    cg = CallGraph(m)
    S = SH.Shapes(m, cg)
    base, block = m.key("Base", UTILS), m.key("BlockBase", UTILS)
    n_open = 0
    for k in sorted(m.classes):
        c = m.classes[k]
        if not m.issub(k, base) or m.issub(k, block):
            continue
        mf, pf = m.method(k, "match"), m.method(k, "tostr")
        if mf is None or pf is None:
            continue
        if not (m.method_owner(k, "init") or "").endswith(":Base"):
            continue
        ss = S.of_func(mf)
        def may_none(e):
            return e == "none" or (isinstance(e, tuple) and e and e[0] == "alt" and any(may_none(x) for x in e[1]))

        def may_value(e):
            return e != "none" and not (isinstance(e, tuple) and e and e[0] == "alt" and not any(may_value(x) for x in e[1]))

        def strip_none(e):
            if isinstance(e, tuple) and e and e[0] == "alt":
                rest = frozenset(strip_none(x) for x in e[1] if may_value(x))
                return next(iter(rest)) if len(rest) == 1 else ("alt", rest)
            return e
        import itertools
        pats = {}
        for sh in ss.shapes:
            if not any(may_none(e) for e in sh):
                continue
            choices = []
            for e in sh:
                c_ = []
                if may_none(e):
                    c_.append(True)
                if may_value(e):
                    c_.append(False)
                choices.append(c_)
            n_comb = 1
            for c_ in choices:
                n_comb *= len(c_)
            if n_comb > 64:
                r.error("%s: more than 64 None-patterns for one return shape" % c["name"])
                continue
            for pat in itertools.product(*choices):
                if any(pat):
                    pats.setdefault(tuple(pat), []).append(tuple(strip_none(e) for e in sh))
        if not pats:
            continue
        r.instances += 1
        if ss.open:
            n_open += 1
        bad = {}
        methods = [("tostr", pf)]
        seen_m = {"tostr"}
        for kk in c["mro"]:
            for name in m.classes.get(kk, {}).get("own", {}):
                if name.startswith("get_") and name not in seen_m:
                    g = m.method(k, name)
                    if g is not None and any(A.text(x) == "self.items" for x in ast.walk(g.node)):
                        methods.append((name, g))
                        seen_m.add(name)
        for mname, gf in methods:
          for pat in sorted(pats):
            n = len(pat)
            tr = ItemNames(n)
            node = tr.visit(copy.deepcopy(gf.node))
            ast.fix_missing_locations(node)
            names = ["__item_%d" % i for i in range(n)]
            aliases = set()
            for x in ast.walk(node):
                if isinstance(x, ast.Assign):
                    for t in x.targets:
                        aliases |= set(A.assigned_names(t))
            cl = OptClient(names + sorted(aliases))
            fi = M.FuncInfo(gf.file, gf.qualname, node, gf.cls_node, gf.module)
            fl = F.Flow(m, fi, cl)
            def is_node(e):
                return e == "seq" or isinstance(e, tuple) and e and (e[0] in ("node", "pnode") or (e[0] == "lit" and e[1] not in ("", "''")) or
                                                       (e[0] == "alt" and all(is_node(x) for x in e[1])))
            env = {}
            for i in range(n):
                if pat[i]:
                    env[names[i]] = F.NONE
                else:
                    # a node object (or a non-empty literal) is always truthy; input text may be empty
                    env[names[i]] = F.TRUTHY if all(is_node(sh[i]) for sh in pats[pat]) else NOTNONE
            try:
                fl.run(F.State(env))
            except Exception as err:      # the method uses a statement form the engine does not know
                r.error("%s.%s: cannot interpret the method (%s)" % (c["name"], mname, err))
                break
            for use, kind, stmt in cl.uses:
                if mname != "tostr" and kind != "dereferenced":
                    continue        # an accessor may hand None on; only a dereference fails
                key = "%s|%s|%s" % (c["name"], use.id, kind) if mname == "tostr" else "%s.%s|%s|%s" % (c["name"], mname, use.id, kind)
                bad.setdefault(key, (use, kind, stmt, pat, mname, gf))
        for key in list(bad):
            if key in exceptions:
                r.notes.append("%s exempt: %s" % (key, exceptions[key]))
                del bad[key]
        r.ob(not bad, "%s: %d None-patterns %s" % (c["name"], len(pats), sorted(pats)) if r.instances % 12 == 0 else None)
        for key, (use, kind, stmt, pat, mname, gf) in sorted(bad.items()):
            idx = use.id.replace("__item_", "items[") + "]" if use.id.startswith("__item_") else use.id
            r.fail("%s|%s|optional-%s|%s" % (c["name"], mname, kind, idx), "%s.%s: when the matcher returns the None-pattern %s, `%s` is %s at `%s` although it is "
                   "None there: %s" % (c["name"], mname, tuple("None" if b else "x" for b in pat), idx, kind, A.text(stmt)[:60],
                                      "AttributeError/TypeError escapes from str(tree)" if kind == "dereferenced" else
                                      "the text 'None' appears in the regenerated source"), m.loc(gf, use))
    r.notes.append("classes whose matcher has an undetermined return besides the determined ones: %d" % n_open)
    return r


# =================================================================================================
# the dual: an element that holds content in a given pattern is printed on every printer path taken for that pattern
# =================================================================================================
class UsedClient(F.Client):
    def __init__(self, names, alias, lit_only=()):
        self.track = set(names) | {"$u%d" % i for i in range(len(names))} | set(alias)
        self.alias = alias            # local name -> item index
        self.n = len(names)
        self.lit_only = set(lit_only)  # elements that are a literal or None: testing them and printing a constant is "printing" them
        self.exits = []               # (unused index set, return stmt)

    def call_raises(self, call, st):
        return ()

    def _value_uses(self, root):
        """item indices used in value position inside the expression root."""
        out = set()
        P = A.parents(root)
        for n in ast.walk(root):
            if not (isinstance(n, ast.Name) and isinstance(n.ctx, ast.Load)):
                continue
            k = None
            if n.id.startswith("__item_"):
                k = int(n.id[7:])
            elif n.id in self.alias:
                k = self.alias[n.id]
            if k is None:
                continue
            x, test_pos = n, False
            while x in P:
                p_ = P[x]
                if isinstance(p_, ast.Compare) or (isinstance(p_, ast.UnaryOp) and isinstance(p_.op, ast.Not)) or \
                        (isinstance(p_, ast.IfExp) and x is p_.test):
                    test_pos = True
                if isinstance(p_, ast.Call) and A.dotted(p_.func) in ("isinstance", "len", "type"):
                    test_pos = True
                x = p_
            if not test_pos:
                out.add(k)
        return out

    def stmt_effect(self, s, st):
        v = getattr(s, "value", None)
        # `a, b = self.items` / `x = self.items[1]` only give the elements local names
        if isinstance(s, ast.Assign) and (isinstance(v, ast.Name) or
                                          (isinstance(v, (ast.Tuple, ast.List)) and all(isinstance(e, ast.Name) for e in v.elts))):
            return st
        if isinstance(v, ast.AST):
            for k in self._value_uses(v):
                st = st.set("$u%d" % k, F.TRUE)
        return st

    def on_test(self, test, st):
        """literal-or-None elements: the branch taken after testing them prints the constant"""
        return st

    def on_stmt(self, stmt, st):
        if isinstance(stmt, ast.Return) and stmt.value is not None:
            used = {i for i in range(self.n) if st.get("$u%d" % i) == F.TRUE} | self._value_uses(stmt.value)
            # a delegation to another printer on `self` prints everything that printer prints
            if any(isinstance(c, ast.Call) and isinstance(c.func, ast.Attribute) and c.func.attr in ("tostr", "tofortran")
                   for c in ast.walk(stmt.value)):
                used = set(range(self.n))
            self.exits.append((frozenset(set(range(self.n)) - used), stmt))


class UsedFlow(F.Flow):
    """When the WHOLE test of a branch is the truthiness of a literal-or-None element, the branch taken when it is truthy prints
    the corresponding constant: the element counts as printed there.  (A test that is only one operand of and/or does not.)"""
    _depth = 0

    def split(self, test, st, out=None):
        top = self._depth == 0
        self._depth += 1
        try:
            ts, fs = F.Flow.split(self, test, st, out)
        finally:
            self._depth -= 1
        if top and isinstance(test, ast.Name):
            k = int(test.id[7:]) if test.id.startswith("__item_") else self.c.alias.get(test.id)
            if k is not None and k in self.c.lit_only:
                ts = {s_.set("$u%d" % k, F.TRUE) for s_ in ts}
        return ts, fs


def printed_rule(m, rid, exceptions=None):
    from sa import shapes as SH
    from sa.callgraph import CallGraph
    from rules import shapes_rules
    r = RuleResult(rid, "for every None-pattern a matcher can return, each element that holds content in that pattern is printed on every "
                        "printer path taken for it (an optional ',' or clause is not lost on one branch)")
    r.floor = 100
    exceptions = dict(shapes_rules.UNPRINTED_OK) if exceptions is None else exceptions
    cg = CallGraph(m)
    S = SH.Shapes(m, cg)
    base, block = m.key("Base", UTILS), m.key("BlockBase", UTILS)
    for k in sorted(m.classes):
        c = m.classes[k]
        if not m.issub(k, base) or m.issub(k, block):
            continue
        mf, pf = m.method(k, "match"), m.method(k, "tostr")
        if mf is None or pf is None or not (m.method_owner(k, "init") or "").endswith(":Base"):
            continue
        ss = S.of_func(mf)
        if not ss.shapes or ss.open:
            continue

        def may_none(e):
            return e == "none" or (isinstance(e, tuple) and e and e[0] == "alt" and any(may_none(x) for x in e[1]))

        def may_value(e):
            return e != "none" and not (isinstance(e, tuple) and e and e[0] == "alt" and not any(may_value(x) for x in e[1]))
        arities = {len(sh) for sh in ss.shapes}
        if len(arities) != 1:
            continue
        n = arities.pop()
        # which indices carry information: anything but a literal that is the same in every shape
        def lits(e):
            if isinstance(e, tuple) and e and e[0] == "lit":
                return {e[1]}
            if isinstance(e, tuple) and e and e[0] == "alt":
                out = set()
                for x in e[1]:
                    lx = lits(x)
                    if lx is None:
                        return None
                    out |= lx
                return out
            if e == "none":
                return {None}
            return None
        carrying = set()
        for i in range(n):
            vals = set()
            nonlit = False
            for sh in ss.shapes:
                lv = lits(sh[i])
                if lv is None:
                    nonlit = True
                else:
                    vals |= lv
            if nonlit or len(vals) > 1:
                carrying.add(i)
        lit_only = set()
        for i in range(n):
            if all(lits(sh[i]) is not None for sh in ss.shapes):
                lit_only.add(i)
        import itertools
        pats = set()
        for sh in ss.shapes:
            choices = [[b for b in ((True,) if may_none(e) else ()) + ((False,) if may_value(e) else ())] for e in sh]
            tot = 1
            for ch in choices:
                tot *= max(1, len(ch))
            if tot > 64:
                continue
            pats |= set(itertools.product(*choices))
        if not pats:
            continue
        r.instances += 1
        bad = {}
        for pat in sorted(pats):
            tr = ItemNames(n)
            node = tr.visit(copy.deepcopy(pf.node))
            ast.fix_missing_locations(node)
            if tr.dynamic:
                bad = {}
                break
            names = ["__item_%d" % i for i in range(n)]
            alias = {}
            for x in ast.walk(node):
                if isinstance(x, ast.Assign) and isinstance(x.targets[0], (ast.Tuple, ast.List)) and isinstance(x.value, ast.Tuple) \
                        and len(x.targets[0].elts) == len(x.value.elts):
                    for t, v in zip(x.targets[0].elts, x.value.elts):
                        if isinstance(t, ast.Name) and isinstance(v, ast.Name) and v.id.startswith("__item_"):
                            alias[t.id] = int(v.id[7:])
                if isinstance(x, ast.Assign) and len(x.targets) == 1 and isinstance(x.targets[0], ast.Name) and isinstance(x.value, ast.Name) \
                        and x.value.id.startswith("__item_"):
                    alias[x.targets[0].id] = int(x.value.id[7:])
            # whole-tuple idioms print everything
            whole = any(isinstance(x, ast.Tuple) and len(x.elts) == n and all(isinstance(e, ast.Name) and e.id == "__item_%d" % i
                                                                             for i, e in enumerate(x.elts))
                        and not isinstance(getattr(x, "ctx", None), ast.Store) for x in ast.walk(node)
                        if not any(isinstance(p_, ast.Assign) and p_.value is x and isinstance(p_.targets[0], (ast.Tuple, ast.List))
                                   for p_ in ast.walk(node)))
            cl = UsedClient(names, alias, lit_only)
            fi = M.FuncInfo(pf.file, pf.qualname, node, pf.cls_node, pf.module)
            always = set()
            for x in ast.walk(node):
                it = None
                if isinstance(x, (ast.For, ast.comprehension)):
                    it = x.iter
                elif isinstance(x, ast.Compare) and len(x.ops) == 1 and isinstance(x.ops[0], (ast.Eq, ast.In)) and \
                        isinstance(A.const(x.comparators[0], None), (str, list, tuple)) or \
                        (isinstance(x, ast.Compare) and isinstance(x.comparators[0], (ast.List, ast.Tuple))):
                    it = x.left
                if it is not None:
                    for y in ast.walk(it):
                        if isinstance(y, ast.Name):
                            kk = int(y.id[7:]) if y.id.startswith("__item_") else alias.get(y.id)
                            if kk is not None:
                                always.add(kk)
            # (an element that is an empty string needs no printing, so "holds content" is modelled as truthy)
            env = {names[i]: (F.NONE if pat[i] else F.TRUTHY) for i in range(n)}
            for i in range(n):
                env["$u%d" % i] = F.FALSE
            try:
                UsedFlow(m, fi, cl).run(F.State(env))
            except Exception as err:
                r.error("%s.tostr: cannot interpret the printer (%s)" % (c["name"], err))
                break
            if whole:
                continue
            for unused, stmt in cl.exits:
                for i in sorted(unused):
                    if pat[i] or i not in carrying or (c["name"], i) in exceptions or i in always:
                        continue
                    bad.setdefault(i, (pat, stmt))
        r.ob(not bad, "%s: %d patterns, every content element printed on every path" % (c["name"], len(pats)) if r.instances % 15 == 0 else None)
        for i, (pat, stmt) in sorted(bad.items()):
            r.fail("%s|unprinted-on-path|%d" % (c["name"], i), "%s.tostr: for the pattern %s the printer reaches `%s` without having printed items[%d], "
                   "which holds content in that pattern: that part of the statement is missing from the regenerated source"
                   % (c["name"], tuple("None" if b else "x" for b in pat), A.text(stmt)[:60], i), m.loc(pf, stmt))
    return r


# =================================================================================================
# constant indices into self.items outside the printer stay within the arity the matcher returns
# =================================================================================================
def accessor_index_rule(m, rid):
    from sa import shapes as SH
    from sa.callgraph import CallGraph
    r = RuleResult(rid, "every constant index into self.items / self.children in the methods of a node class (name and label accessors, "
                        "symbol-table hooks) lies within the smallest arity its matcher returns")
    r.floor = 120
    S = SH.Shapes(m, CallGraph(m))
    base, block = m.key("Base", UTILS), m.key("BlockBase", UTILS)
    for k in sorted(m.classes):
        c = m.classes[k]
        if not m.issub(k, base) or m.issub(k, block):
            continue
        mf = m.method(k, "match")
        if mf is None or not (m.method_owner(k, "init") or "").endswith(":Base"):
            continue
        ss = S.of_func(mf)
        ar = ss.arities()
        if not ar or ss.open:
            continue
        amin = min(ar)
        seen = set()
        for kk in c["mro"]:
            for name in m.classes.get(kk, {}).get("own", {}):
                if name in ("match", "tostr", "init", "__new__") or name in seen:
                    continue
                seen.add(name)
                g = m.method(k, name)
                if g is None:
                    continue
                for n in A.body_nodes(g.node):
                    if isinstance(n, ast.Subscript) and A.text(n.value) in ("self.items", "self.children") \
                            and isinstance(n.slice, ast.Constant) and isinstance(n.slice.value, int):
                        r.instances += 1
                        idx = n.slice.value
                        ok = idx < amin if idx >= 0 else -idx <= amin
                        r.ob(ok, "%s.%s: `%s` within arity %s" % (c["name"], name, A.text(n), sorted(ar)) if r.instances % 25 == 0 else None)
                        if not ok:
                            r.fail("%s.%s|index|%d" % (c["name"], name, idx), "%s.%s reads `%s` but %s.match can return a tuple of only %d element(s): "
                                   "IndexError when the accessor is used on such a node" % (c["name"], name, A.text(n), c["name"], amin), m.loc(g, n))
    return r
