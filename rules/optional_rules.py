"""Optional tuple elements in printers: an element that the matcher can leave None reaches the output (or is dereferenced) only on
paths on which the printer has established that it is not None.  Decided per matcher shape: the printer is interpreted abstractly
once for every None-pattern the matcher can return (path-sensitive, so correlated optionals -- "items[0] is None exactly when
items[1] is not" -- are handled)."""
import ast
import copy

from sa import astutil as A
from sa import flow as F
from sa import model as M
from sa.report import RuleResult
from rules import delim_rules as D

UTILS = "fparser.two.utils"
NOTNONE = frozenset([("truthy",), ("c", "")])


class ItemNames(ast.NodeTransformer):
    """self.items[k] -> __item_k ;  `a, b = self.items` -> `a, b = (__item_0, __item_1)` (arity n)."""
    def __init__(self, n):
        self.n = n
        self.dynamic = False

    def visit_Subscript(self, node):
        if A.text(node.value) != "self.items":
            self.generic_visit(node)
            return node
        if isinstance(node.ctx, ast.Load):
            k = None
            if isinstance(node.slice, ast.Constant) and isinstance(node.slice.value, int):
                k = node.slice.value
            elif isinstance(node.slice, ast.UnaryOp) and isinstance(node.slice.op, ast.USub) and isinstance(node.slice.operand, ast.Constant):
                k = self.n - node.slice.operand.value
            if k is not None and 0 <= k < self.n:
                return ast.copy_location(ast.Name(id="__item_%d" % k, ctx=ast.Load()), node)
            self.dynamic = True
        return node

    def visit_Attribute(self, node):
        self.generic_visit(node)
        if A.text(node) == "self.items" and isinstance(node.ctx, ast.Load):
            return ast.copy_location(ast.Tuple(elts=[ast.Name(id="__item_%d" % k, ctx=ast.Load()) for k in range(self.n)], ctx=ast.Load()), node)
        return node


class OptClient(F.Client):
    def __init__(self, names):
        self.track = set(names)
        self.uses = []       # (node, kind) with the item possibly None

    def call_raises(self, call, st):
        return ()

    def on_stmt(self, stmt, st):
        roots = [stmt.value] if isinstance(stmt, (ast.Return, ast.Assign, ast.Expr, ast.AugAssign)) and getattr(stmt, "value", None) is not None else []
        if isinstance(stmt, ast.Raise):
            return
        for root in roots:
            P = A.parents(root)
            for n in ast.walk(root):
                if not (isinstance(n, ast.Name) and isinstance(n.ctx, ast.Load) and n.id in self.track):
                    continue
                val = st.get(n.id)
                if ("c", None) not in val and ("top",) not in val:
                    continue
                if ("top",) in val and not n.id.startswith("__item_"):
                    continue
                # position of the use inside the expression
                x, kind = n, "printed"
                test_pos = False
                while x in P:
                    p_ = P[x]
                    if isinstance(p_, ast.Compare) or (isinstance(p_, ast.UnaryOp) and isinstance(p_.op, ast.Not)):
                        test_pos = True
                    if isinstance(p_, ast.IfExp) and x is p_.test:
                        test_pos = True
                    if isinstance(p_, ast.BoolOp):
                        test_pos = True
                    if isinstance(p_, ast.Attribute) and p_.value is x and x is n:
                        kind = "dereferenced"
                    if isinstance(p_, ast.Subscript) and p_.value is x and x is n:
                        kind = "dereferenced"
                    x = p_
                if test_pos:
                    continue
                if isinstance(stmt, ast.Assign) and root is stmt.value and P.get(n) is None and isinstance(stmt.targets[0], (ast.Name, ast.Tuple)):
                    continue    # plain alias `x = __item_k`: the alias is tracked instead
                if isinstance(stmt, ast.Assign) and isinstance(stmt.value, ast.Tuple) and n in stmt.value.elts:
                    continue
                # guards inside the expression (conditional expressions)
                facts = D.facts_at(root, n, dict(P, **{root: None}) if False else P)
                if proves_not_none(facts, n.id):
                    continue
                self.uses.append((n, kind, stmt))


def proves_not_none(facts, name):
    def ent(t, pol):
        if isinstance(t, ast.UnaryOp) and isinstance(t.op, ast.Not):
            return ent(t.operand, not pol)
        if isinstance(t, ast.BoolOp):
            parts = [ent(v, pol) for v in t.values]
            conj = (isinstance(t.op, ast.And) and pol) or (isinstance(t.op, ast.Or) and not pol)
            return any(parts) if conj else all(parts)
        if isinstance(t, ast.Compare) and len(t.ops) == 1 and A.const(t.comparators[0], 1) is None and A.text(t.left) == name:
            return (isinstance(t.ops[0], ast.IsNot) and pol) or (isinstance(t.ops[0], ast.Is) and not pol)
        if isinstance(t, ast.Name) and t.id == name:
            return pol
        return False
    return any(ent(t, pol) for t, pol in facts)


EXCEPTIONS = {
    "Data_Edit_Desc|__item_1|printed": "the pattern (c, None, v-list, None) is returned only for c == 'DT'; the I/B/O/Z/A/L branch that prints "
                                       "items[1] together with items[2] is reached only with the patterns built for those letters, where "
                                       "items[2] is not None only together with W(...) in items[1] (value correlation on items[0])",
}


def optional_rule(m, rid, exceptions=None):
    from sa import shapes as SH
    from sa.callgraph import CallGraph
    r = RuleResult(rid, "an element the matcher can leave None is printed or dereferenced by the node's printer only on paths that established it "
                        "is not None (per None-pattern the matcher can return)")
    r.floor = 100
    exceptions = EXCEPTIONS if exceptions is None else exceptions
    cg = CallGraph(m)
    S = SH.Shapes(m, cg)
    base, block = m.key("Base", UTILS), m.key("BlockBase", UTILS)
    n_open = 0
    for k in sorted(m.classes):
        c = m.classes[k]
        if not m.issub(k, base) or m.issub(k, block):
            continue
        mf, pf = m.method(k, "match"), m.method(k, "tostr")
        if mf is None or pf is None:
            continue
        if not (m.method_owner(k, "init") or "").endswith(":Base"):
            continue
        ss = S.of_func(mf)
        def may_none(e):
            return e == "none" or (isinstance(e, tuple) and e and e[0] == "alt" and any(may_none(x) for x in e[1]))

        def may_value(e):
            return e != "none" and not (isinstance(e, tuple) and e and e[0] == "alt" and not any(may_value(x) for x in e[1]))

        def strip_none(e):
            if isinstance(e, tuple) and e and e[0] == "alt":
                rest = frozenset(strip_none(x) for x in e[1] if may_value(x))
                return next(iter(rest)) if len(rest) == 1 else ("alt", rest)
            return e
        import itertools
        pats = {}
        for sh in ss.shapes:
            if not any(may_none(e) for e in sh):
                continue
            choices = []
            for e in sh:
                c_ = []
                if may_none(e):
                    c_.append(True)
                if may_value(e):
                    c_.append(False)
                choices.append(c_)
            n_comb = 1
            for c_ in choices:
                n_comb *= len(c_)
            if n_comb > 64:
                r.error("%s: more than 64 None-patterns for one return shape" % c["name"])
                continue
            for pat in itertools.product(*choices):
                if any(pat):
                    pats.setdefault(tuple(pat), []).append(tuple(strip_none(e) for e in sh))
        if not pats:
            continue
        r.instances += 1
        if ss.open:
            n_open += 1
        bad = {}
        methods = [("tostr", pf)]
        seen_m = {"tostr"}
        for kk in c["mro"]:
            for name in m.classes.get(kk, {}).get("own", {}):
                if name.startswith("get_") and name not in seen_m:
                    g = m.method(k, name)
                    if g is not None and any(A.text(x) == "self.items" for x in ast.walk(g.node)):
                        methods.append((name, g))
                        seen_m.add(name)
        for mname, gf in methods:
          for pat in sorted(pats):
            n = len(pat)
            tr = ItemNames(n)
            node = tr.visit(copy.deepcopy(gf.node))
            ast.fix_missing_locations(node)
            names = ["__item_%d" % i for i in range(n)]
            aliases = set()
            for x in ast.walk(node):
                if isinstance(x, ast.Assign):
                    for t in x.targets:
                        aliases |= set(A.assigned_names(t))
            cl = OptClient(names + sorted(aliases))
            fi = M.FuncInfo(gf.file, gf.qualname, node, gf.cls_node, gf.module)
            fl = F.Flow(m, fi, cl)
            def is_node(e):
                return e == "seq" or isinstance(e, tuple) and e and (e[0] in ("node", "pnode") or (e[0] == "lit" and e[1] not in ("", "''")) or
                                                       (e[0] == "alt" and all(is_node(x) for x in e[1])))
            env = {}
            for i in range(n):
                if pat[i]:
                    env[names[i]] = F.NONE
                else:
                    # a node object (or a non-empty literal) is always truthy; input text may be empty
                    env[names[i]] = F.TRUTHY if all(is_node(sh[i]) for sh in pats[pat]) else NOTNONE
            try:
                fl.run(F.State(env))
            except Exception as err:      # the method uses a statement form the engine does not know
                r.error("%s.%s: cannot interpret the method (%s)" % (c["name"], mname, err))
                break
            for use, kind, stmt in cl.uses:
                if mname != "tostr" and kind != "dereferenced":
                    continue        # an accessor may hand None on; only a dereference fails
                key = "%s|%s|%s" % (c["name"], use.id, kind) if mname == "tostr" else "%s.%s|%s|%s" % (c["name"], mname, use.id, kind)
                bad.setdefault(key, (use, kind, stmt, pat, mname, gf))
        for key in list(bad):
            if key in exceptions:
                r.notes.append("%s exempt: %s" % (key, exceptions[key]))
                del bad[key]
        r.ob(not bad, "%s: %d None-patterns %s" % (c["name"], len(pats), sorted(pats)) if r.instances % 12 == 0 else None)
        for key, (use, kind, stmt, pat, mname, gf) in sorted(bad.items()):
            idx = use.id.replace("__item_", "items[") + "]" if use.id.startswith("__item_") else use.id
            r.fail("%s|%s|optional-%s|%s" % (c["name"], mname, kind, idx), "%s.%s: when the matcher returns the None-pattern %s, `%s` is %s at `%s` although it is "
                   "None there: %s" % (c["name"], mname, tuple("None" if b else "x" for b in pat), idx, kind, A.text(stmt)[:60],
                                      "AttributeError/TypeError escapes from str(tree)" if kind == "dereferenced" else
                                      "the text 'None' appears in the regenerated source"), m.loc(gf, use))
    r.notes.append("classes whose matcher has an undetermined return besides the determined ones: %d" % n_open)
    return r
