"""Small Fortran sources for the whole-program rules (rules/prog_rules.py): valid programs that together use every block construct,
labels, construct names, comments, directives and symbol-table relevant declarations; `INVALID` are built from them by the rules."""

VALID = {
    "main": """program Main
  ! leading comment
  implicit none
  integer :: Idx, j
  real :: Arr(10)
  j = 0
  outer: do Idx = 1, 10
    if (Idx > 5) then
      j = j + Idx ! trailing
    else if (Idx == 2) then
      cycle outer
    else
      j = j - 1
    end if
  end do outer
  Arr(1) = sin(1.0) + real(j)
10 continue
end program Main
""",
    "module": """module Mod_A
  use Other_Mod, only: Helper, Val => Orig
  implicit none
  private
  integer, parameter :: Nn = 3
  type :: Point
    real :: x, y
  end type Point
  interface Swap
    module procedure Swap_I
  end interface Swap
contains
  subroutine Swap_I(a, b)
    integer, intent(inout) :: a, b
    integer :: Tmp
    Tmp = a
    a = b
    b = Tmp
  end subroutine Swap_I
  function Twice(x) result(y)
    real, intent(in) :: x
    real :: y
    y = 2.0 * x
  end function Twice
end module Mod_A
""",
    "select": """subroutine Case_It(k, Msg)
  integer :: k
  character(len=*) :: Msg
  sel: select case (k)
  case (1)
    Msg = "don't & stop!"
  case (2:3)
    Msg = 'two; three'
  case default
    Msg = ''
  end select sel
  where (k > 0)
    k = 1
  elsewhere
    k = 0
  end where
30 return
end subroutine Case_It
""",
    "loops": """program Loops
  integer :: i, j, a(3, 3)
  do 20 i = 1, 3
    do 10 j = 1, 3
      a(i, j) = i * j
10  continue
20 continue
  do i = 1, 3
    a(i, 1) = 0
  end do
  forall (i = 1:3)
    a(i, i) = 1
  end forall
  associate (z => a(1, 1))
    z = 2
  end associate
  do while (i > 0)
    i = i - 1
  end do
end program Loops
""",
    "shadow": """module Shade
  real :: cos(3)
contains
  subroutine First()
    real :: sin(2), x
    x = sin(1) + cos(2) + tan(0.5)
  end subroutine First
  subroutine Second()
    real :: y
    y = sin(1.0) + cos(1) + abs(-1.0)
  end subroutine Second
end module Shade
""",
    "function": """integer function Fact(n) result(r)
  integer, intent(in) :: n
  integer :: i
  r = 1
  do i = 2, n
    r = r * i
  end do
end function Fact
subroutine Show(x)
  real :: x
  write (*, '(a, f8.3)') 'x = ', x
  print *, "done; really"
end subroutine Show
""",
    "comments": """! file header
program Cmt
  ! before declarations
  integer :: i ! counts
  ! between
  i = 1 &
    ! inside a continuation
    + 2
  if (i > 1) then
    ! inside if
    i = 0
  end if
  ! last
end program Cmt
! trailer
""",
}

VALID.update({
    "io": """subroutine Io_Things(Lun, Fname)
  integer :: Lun, Ios, Kk
  character(len=*) :: Fname
  real :: Buf(4)
  namelist /Grp/ Ios, Kk
  open (unit=Lun, file=Fname, status='old', iostat=Ios)
  read (Lun, 100, end=20, err=30) Buf
100 format (4(f8.3, 1x))
  write (*, '(a, i3)') "ios = ", Ios
  inquire (unit=Lun, opened=Ok)
  rewind Lun
  backspace (Lun)
  read (Lun, nml=Grp)
20 close (Lun)
30 print *, 'done: ', Buf(1:2)
end subroutine Io_Things
""",
    "types": """module Shapes
  implicit none
  type, abstract :: Shape
    real :: Area = 0.0
  contains
    procedure(Area_If), deferred :: Get_Area
  end type Shape
  type, extends(Shape) :: Circle
    real :: Radius
  contains
    procedure :: Get_Area => Circle_Area
  end type Circle
  abstract interface
    function Area_If(This) result(a)
      import :: Shape
      class(Shape), intent(in) :: This
      real :: a
    end function Area_If
  end interface
  enum, bind(c)
    enumerator :: Red = 1, Green
  end enum
contains
  function Circle_Area(This) result(a)
    class(Circle), intent(in) :: This
    real :: a
    a = 3.14 * This%Radius ** 2
  end function Circle_Area
end module Shapes
""",
    "misc": """subroutine Misc(p, q, n)
  real, pointer :: p(:)
  real, target :: q(n)
  integer :: n, k
  real, allocatable :: w(:)
  common /Blk/ k
  data k /3/
  allocate (w(n), stat=k)
  p => q
  if (k) 10, 20, 30
10 go to (20, 30), n
20 where (q > 0.0) q = 1.0
  forall (k = 1:n) w(k) = q(k)
30 nullify (p)
  deallocate (w)
  select type (x => p)
  class default
    k = 0
  end select
  if (n > 1) stop 'too many'
end subroutine Misc
""",
})

VALID.update({
    # a program unit whose opening statement carries a name but opens no scoping region
    "blockdata": """block data Init_C
  integer :: k
  real :: v(3)
  common /Blk/ k, v
  data k /3/
end block data Init_C
""",
})

VALID.update({
    # a module, an external subroutine and a main program without PROGRAM statement in one file
    "anon": """module Consts
  real :: Pi = 3.14
end module Consts
subroutine Helper(x)
  real :: x
  x = x + 1.0
end subroutine Helper
integer :: Count
real :: Val
Count = 2
Val = sin(1.0) * Count
if (Count > 1) then
  call Helper(Val)
end if
end
""",
    # a main program whose body is nothing but preprocessor lines; nested labelled DO loops with an unresolved INCLUDE in between
    "cppbody": """program Only_Cpp
#include "decls.h"
#ifdef WITH_BODY
#include "body.h"
#endif
end program Only_Cpp
subroutine Nest(a, n)
  integer :: n, i, j
  real :: a(n, n)
  do 20 i = 1, n
    include 'not_found.inc'
    do 10 j = 1, n
      a(i, j) = 0.0
10  continue
20 continue
end subroutine Nest
""",
})

VALID.update({
    # attribute-specification statements, ENTRY and a statement function; type-bound procedures, parameterised and
    # sequence types, an abstract interface; shared and action-term DO terminations, EXIT, GO TO, masked ELSEWHERE, file positioning
    "attrs": """subroutine Attrs(a, b, c, n, opt)
  integer n, k, m
  real a, b, c, w, z, f, x
  real, save :: total
  allocatable w
  asynchronous z
  dimension a(n), b(n), w(:)
  equivalence (k, m)
  external Ext_Fun
  intent(in) n
  intent(inout) a, b
  intrinsic sin
  optional opt
  parameter (Two = 2.0)
  pointer Ptr
  save z
  target c
  value n
  volatile k
  logical opt
  f(x) = x * Two
  total = f(a(1)) + sin(b(1))
  return
  entry Attrs_Again(a, n)
  total = 0.0
end subroutine Attrs
""",
    "oop": """module Shapes_Oop
  type, abstract :: Shape
    private
    integer :: id = 0
    procedure(Area_If), pointer, nopass :: fp => null()
  contains
    private
    procedure(Area_If), deferred, public :: area
    procedure, public :: describe => Shape_Describe
    generic, public :: show => describe
  end type Shape
  type :: Pair(kd, ln)
    integer, kind :: kd = 4
    integer, len :: ln
    sequence
    real(kd) :: v(ln)
  end type Pair
  type, extends(Shape) :: Disc
    real :: r
  contains
    procedure :: area => Disc_Area
    final :: Disc_Done
  end type Disc
  abstract interface
    function Area_If(this) result(s)
      import :: Shape
      class(Shape), intent(in) :: this
      real :: s
    end function Area_If
  end interface
  procedure(Area_If), pointer :: Current => null()
  protected :: Current
  bind(c, name='count_c') :: Count
  integer :: Count
contains
  function Disc_Area(this) result(s)
    class(Disc), intent(in) :: this
    real :: s
    s = 3.14 * this%r ** 2
  end function Disc_Area
  subroutine Shape_Describe(this)
    class(Shape), intent(in) :: this
    print *, 'shape', this%id
  end subroutine Shape_Describe
  subroutine Disc_Done(this)
    type(Disc) :: this
    this%r = 0.0
  end subroutine Disc_Done
end module Shapes_Oop
""",
    "legacy": """subroutine Legacy(a, b, n, m)
  integer :: n, m, i, j
  real :: a(n, m), b(n)
  do 20 i = 1, n
    do 20 j = 1, m
      a(i, j) = 0.0
20 continue
  do 30 i = 1, n
30 b(i) = real(i)
  outer: do i = 1, n
    if (b(i) < 0.0) exit outer
    if (b(i) > 9.0) go to 40
  end do outer
40 where (b > 1.0)
    b = 1.0
  elsewhere (b < 0.0)
    b = 0.0
  elsewhere
    b = 0.5
  end where
  endfile (7)
  flush (7)
  wait (unit=7)
end subroutine Legacy
""",
})

VALID.update({
    # expressions of every level, constructors, sections and substrings, BOZ / complex / logical constants, defined operators,
    # IMPLICIT, NAMELIST, DATA and I/O implied DO, keyword and alternate-return arguments, FORMAT
    "exprs": """module Expr_Mod
  use Ops_Mod, only: operator(.cross.), assignment(=), Wide => Narrow
  implicit real(kind=8) (a-h, o-z), integer (i-n)
  type Vec
    real :: c(3)
    character(len=8) :: tag
  end type Vec
  integer, parameter :: Mask = b'1010', Hx = z'FF', Oc = o'17'
  complex :: Zc = (1.0, -2.5e-3)
  logical :: Flag = .true.
  character(len=*), parameter :: Greet = 'say "hi"'
  character*(10) Old_Style
  real :: Grid(10, 10), Row(10)
  integer :: Idx(3) = (/ 3, 1, 2 /)
  namelist /Setup/ Grid, Flag
  data (Row(i), i = 1, 10, 2) /5 * 0.0/
contains
  subroutine Work(v, w, *)
    type(Vec), intent(inout) :: v
    type(Vec) :: w
    v = Vec((/ (real(i), i = 1, 3) /), tag='abc')
    w%c = v%c(Idx) + Grid(1:3, 2) * 2.0 ** (-1)
    w%tag(2:4) = Greet(1:3) // 'x'
    Row(:) = Grid(:, 1)
    Row(2:10:2) = -Row(1:9:2)
    Flag = .not. Flag .and. (Row(1) >= 0.0 .or. Row(2) /= 1.0) .eqv. .false.
    w = v .cross. w
    print '(3f8.2)', (Row(i), i = 1, 3)
    write (*, fmt=100) size(Row, dim=1), kind(1.0d0), Zc
100 format (i4, 1x, i2, 2(f6.2, ','))
    call Helper(Row, n=3, *200)
    if (Flag) return 1
200 continue
  end subroutine Work
end module Expr_Mod
""",
})

VALID_2008 = {
    "block": """program Blk
  integer :: i
  i = 1
  block
    integer :: sin
    sin = 2
    i = sin
  end block
  critical
    i = i + 1
  end critical
  error stop
end program Blk
""",
    "deepsub": """submodule (Parent) Deep
contains
  module subroutine Outer_Proc(v, b)
    real :: v(3), b(3), w
    w = Inner(v)
  contains
    function Inner(u) result(t)
      real :: u(3), t
      t = dot_product(u, b, 0.5)
    end function Inner
  end subroutine Outer_Proc
end submodule Deep
""",
    "blockdo": """subroutine Scale(a, n)
  integer :: n, i
  real :: a(n)
  do 10 i = 1, n
    block
      real :: t
      t = a(i)
      a(i) = 2 * t
    end block
10 a(i) = a(i) + 1
end subroutine Scale
""",
    "coarray": """module Co_Mod
  real, codimension[*] :: Total
  integer, codimension[2, *] :: Counts(4)
  real, allocatable, codimension[:] :: Work(:)
  real, contiguous, pointer :: Ptr(:)
  type Cell
    integer, allocatable, codimension[:] :: q
  end type Cell
contains
  subroutine Gather(n)
    integer, intent(in) :: n
    integer :: i, u
    allocate (Work(n), mold=Ptr)
    do concurrent (i = 1:n)
      Work(i) = real(i)
    end do
    if (this_image() == 1) then
      Total = sum(Work)
      open (newunit=u, file='out.txt')
      close (u)
    end if
    if (n < 0) error stop 'negative'
  end subroutine Gather
end module Co_Mod
""",
    "submodule": """submodule (Parent) Child
contains
  subroutine S()
    integer :: a
    a = 1
  end subroutine S
end submodule Child
""",
}
