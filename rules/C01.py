"""C01 -- regenerated source re-parses to the same tree (structural clauses: matcher/printer shape agreement)."""
from rules import shapes_rules


def run(m, tier):
    results = shapes_rules.c01_rules(m)
    from rules import engine_tables
    results.append(engine_tables.word_cls_rule(m, "C01.R9"))
    results.append(engine_tables.separator_rule(m, "C01.R15"))
    results.append(engine_tables.keyword_value_rule(m, "C01.R16"))
    results.append(engine_tables.sequence_rule(m, "C01.R17"))
    results.append(engine_tables.list_stmt_rule(m, "C01.R20"))
    from rules import taint_rules
    results.append(taint_rules.dead_pieces_rule(m, "C01.R4"))
    from rules import order_rules, C08
    results.append(order_rules.shadow_before_raise(m, "C01.R10"))
    r4 = C08.r4_opener_index(m)
    r4.rule = "C01.R11"
    for f in r4.findings:
        f.rule = "C01.R11"
    results.append(r4)
    from rules import guard_rules
    results.append(guard_rules.delimiter_offset_rule(m, "C01.R13"))
    results.append(guard_rules.keyword_prefix_rule(m, "C01.R14"))
    results.append(guard_rules.index_provenance_rule(m, "C01.R21"))
    from rules import two_roundtrip
    results.append(two_roundtrip.roundtrip_rule(m, "C01.R22", floor=290))
    r27 = two_roundtrip.roundtrip_rule(m, "C01.R27", samples=two_roundtrip.SAMPLES_2008, floor=24, std="f2008")
    r27.title = "the same for Fortran 2008-only forms, interpreted with the classes of the 2008 grammar: " + r27.title
    results.append(r27)
    from rules import reader_rules as _rr
    results.append(_rr.replace_map_table_rule(m, "C01.R23"))
    results.append(two_roundtrip.full_roundtrip_rule(m, "C01.R28"))
    r29 = two_roundtrip.full_roundtrip_rule(m, "C01.R29", std="f2008", samples=two_roundtrip.SAMPLES_2008, floor=22)
    results.append(r29)
    results.append(two_roundtrip.block_printer_rule(m, "C01.R24"))
    results.append(_rr.rule_semicolon(m, "C01.R25"))
    from rules import C17
    r26 = C17.r16_list_elements(m)
    r26.rule = "C01.R26"
    for f_ in r26.findings:
        f_.rule = "C01.R26"
    results.append(r26)
    from rules import optional_rules
    results.append(optional_rules.optional_rule(m, "C01.R12"))
    results.append(optional_rules.printed_rule(m, "C01.R18"))
    from rules import reader_rules
    results.append(reader_rules.rule_continuation(m, "C01.R19"))
    from rules import C02
    for fn, rid in ((C02.r2_replace_map, "C01.R5"), (C02.r6_inverse_map, "C01.R6"), (C02.r7_restore_order, "C01.R7")):
        rr_ = fn(m)
        rr_.rule = rid
        for f in rr_.findings:
            f.rule = rid
        results.append(rr_)
    from sa.report import retag
    from sa import tables as _tables
    from rules import common_block as _cb, reader_interp
    results.append(retag(C02.r5_labels_names(m, _cb.get_ctx(m), _tables.engine_instances(m, "BlockBase")), "C01.R30",
                         "every class that can be built from a reader line prints its statement label and construct name: the "
                         "regenerated text re-parses to items with the same label and name (shared with C02.R5)"))
    results.append(reader_rules.rule_inline_table(m, "C01.R31"))
    results.append(reader_interp.free_rule(m, "C01.R32", tier))
    from rules import prog_rules
    results.append(prog_rules.roundtrip_rule(m, "C01.R33", tier))
    expl = ("Decides structural necessary conditions of the round trip: every rule class that can build a node resolves a printer; the "
            "tuple arities each match can return (abstract interpretation of all return sites, following delegation to the generic "
            "engines with the call site's class arguments bound) are accepted by the resolved init and agree with the constant indices, "
            "%-format conversion counts, unpack counts and length guards of the resolved printer; every element that can hold a node "
            "or input text is read by the printer; no child is built from placeholder-bearing text, the inverse replace map is bounded "
            "and ordered, give-backs to the reader are reversed (shared with C02); an element the matcher can leave None is printed or dereferenced only on printer paths that established it is not None (per None-pattern). Does NOT decide equality of trees/text after re-parsing.")
    return results, expl
