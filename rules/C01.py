"""C01 -- regenerated source re-parses to the same tree (structural clauses: matcher/printer shape agreement)."""
from rules import shapes_rules


def run(m, tier):
    results = shapes_rules.c01_rules(m)
    expl = ("Decides structural necessary conditions of the round trip: every rule class that can build a node resolves a printer; the "
            "tuple arities each match can return (abstract interpretation of all return sites, following delegation to the generic "
            "engines with the call site's class arguments bound) are accepted by the resolved init and agree with the constant indices, "
            "%-format conversion counts, unpack counts and length guards of the resolved printer; every element that can hold a node "
            "or input text is read by the printer. Does NOT decide equality of trees/text after re-parsing.")
    return results, expl
