"""C07 -- a syntax error is reported at the offending statement's line (narrow structural clauses)."""
import ast

from sa import astutil as A
from sa.report import RuleResult
from rules import reader_rules as rr


def r1_number_text(m):
    r = RuleResult("C07.R1", "wherever an error message quotes a source line, it is the line whose number is printed (same reader, index linecount - 1)")
    r.floor = 2
    sites = 0
    for (path, q), f in sorted(m.funcs.items()):
        if not f.module.startswith("fparser.two"):
            continue
        subs = [n for n in A.body_nodes(f.node) if isinstance(n, ast.Subscript) and isinstance(n.value, ast.Attribute) and n.value.attr == "source_lines"
                and isinstance(n.ctx, ast.Load)]
        for sub in subs:
            if isinstance(sub.slice, ast.Slice):
                continue
            sites += 1
            r.instances += 1
            recv = A.text(sub.value.value)
            # a local that holds the reader's line counter stands for it (`lineno = reader.linecount` ... `source_lines[lineno - 1]`)
            counter_locals = {}
            for n_ in A.body_nodes(f.node):
                if isinstance(n_, ast.Assign) and len(n_.targets) == 1 and isinstance(n_.targets[0], ast.Name) \
                        and isinstance(n_.value, ast.Attribute) and n_.value.attr == "linecount":
                    counter_locals.setdefault(n_.targets[0].id, set()).add(A.text(n_.value))
            slice_ = sub.slice
            idx = A.text(slice_)
            if isinstance(slice_, ast.BinOp) and isinstance(slice_.left, ast.Name) and len(counter_locals.get(slice_.left.id, ())) == 1:
                idx = "%s - %s" % (next(iter(counter_locals[slice_.left.id])), A.text(slice_.right))
            ok = idx == "%s.linecount - 1" % recv
            # the printed number is the same reader's linecount
            nums = {A.text(n.value) for n in A.body_nodes(f.node) if isinstance(n, ast.Attribute) and n.attr == "linecount"}
            ok = ok and nums == {recv}
            # the quoted text reaches the message untransformed
            P = A.parents(f.node)
            par = P.get(sub)
            direct = isinstance(par, ast.FormattedValue) or (isinstance(par, ast.Call) and isinstance(par.func, ast.Attribute) and par.func.attr == "format")
            if isinstance(par, ast.Assign) and isinstance(par.targets[0], ast.Name):
                v = par.targets[0].id
                assigns = [x for x in A.body_nodes(f.node) if isinstance(x, (ast.Assign, ast.AugAssign)) and
                           v in (A.assigned_names(x.targets[0]) if isinstance(x, ast.Assign) else A.assigned_names(x.target))]
                comp_bound = set()
                for g in A.body_nodes(f.node):
                    if isinstance(g, (ast.GeneratorExp, ast.ListComp, ast.SetComp, ast.DictComp)) and \
                            any(v in A.assigned_names(c.target) for c in g.generators):
                        comp_bound |= {id(x) for x in ast.walk(g)}
                uses = [x for x in A.body_nodes(f.node) if isinstance(x, ast.Name) and x.id == v and isinstance(x.ctx, ast.Load)
                        and id(x) not in comp_bound]
                direct = len(assigns) == 1 and bool(uses) and all(isinstance(P.get(u), ast.FormattedValue) or
                                                                  (isinstance(P.get(u), ast.Call) and A.text(P.get(u).func).endswith(".format")) for u in uses)
            if ok and not direct:
                ok = False
                r.ob(False)
                r.fail("%s|transformed" % f.qualname, "%s does not put `%s.source_lines[%s]` into the message as it is (it is sliced, split or "
                       "otherwise rewritten first): the quoted text is not that line's text" % (f.qualname, recv, idx), m.loc(f, sub))
                continue
            r.ob(ok, "%s: quotes %s.source_lines[%s], prints %s" % (f.qualname, recv, idx, sorted(nums)))
            if not ok:
                r.fail("%s|%s" % (f.qualname, idx), "%s quotes `%s.source_lines[%s]` while printing the line number of %s: the quoted text "
                       "is not the line whose number is reported" % (f.qualname, recv, idx, sorted(nums)), m.loc(f, sub))
    if sites < 2:
        r.error("fewer than 2 message-construction sites quoting source_lines found")
    return r


def r2_reader_supplied(m):
    r = RuleResult("C07.R2", "every FortranSyntaxError is raised with the function's reader, so the location branch is taken")
    r.floor = 6
    for (path, q), f in sorted(m.funcs.items()):
        if not f.module.startswith("fparser.two"):
            continue
        params = set(A.param_names(f.node))
        for n in A.raises(f.node):
            if n.exc is None or not isinstance(n.exc, ast.Call):
                continue
            if (A.dotted(n.exc.func) or "").split(".")[-1] != "FortranSyntaxError":
                continue
            r.instances += 1
            a0 = n.exc.args[0] if n.exc.args else None
            ok = isinstance(a0, ast.Name) and a0.id in params
            r.ob(ok, "%s: raise FortranSyntaxError(%s, ...)" % (f.qualname, A.text(a0)))
            if not ok:
                r.fail("%s|%s" % (f.qualname, A.text(a0)[:30]), "%s raises FortranSyntaxError with `%s` instead of the reader it was given: "
                       "the message says 'at unknown location'" % (f.qualname, A.text(a0)[:40]), m.loc(f, n))
    # the exception itself: location branch keyed on isinstance(reader, FortranReaderBase)
    k = m.key("FortranSyntaxError", "fparser.two.utils")
    init = m.method(k, "__init__")
    r.instances += 1
    ok = init is not None and any(isinstance(n, ast.If) and "isinstance(reader, FortranReaderBase)" in A.text(n.test) for n in A.body_nodes(init.node))
    r.ob(ok, "FortranSyntaxError.__init__ adds the location when given a reader")
    if not ok:
        r.fail("FortranSyntaxError.__init__", "FortranSyntaxError.__init__ no longer adds 'at line N' when given a reader", m.loc(init) if init else None)
    return r


def r5_physical_lines(m):
    r = RuleResult("C07.R5", "line numbers count newline-terminated physical lines: the string reader iterates a StringIO of the source")
    r.floor = 1
    k = m.key("FortranStringReader", "fparser.common.readfortran")
    f = m.method(k, "__init__")
    r.instances += 1
    if f is None:
        r.error("FortranStringReader.__init__ vanished")
        return r
    sup = [c for c in A.calls(f.node) if isinstance(c.func, ast.Attribute) and c.func.attr == "__init__"]
    ok = False
    what = None
    if sup and sup[0].args:
        a0 = sup[0].args[0]
        what = A.text(a0)
        if isinstance(a0, ast.Name):
            defs = [n.value for n in A.body_nodes(f.node) if isinstance(n, ast.Assign) and A.text(n.targets[0]) == a0.id]
            what = A.text(defs[0]) if len(defs) == 1 else what
        ok = what in ("StringIO(string)", "io.StringIO(string)")
    r.ob(ok, "FortranStringReader reads from %s" % what)
    if not ok:
        r.fail("FortranStringReader|source", "FortranStringReader iterates `%s` instead of StringIO(string): characters other than newline "
               "(form feed, vertical tab, U+2028 ...) would be counted as line breaks and shift every reported line number" % what, m.loc(f))
    return r


def run(m, tier):
    results = [r1_number_text(m), r2_reader_supplied(m), rr.rule_linecount(m, "C07.R3"), rr.rule_span(m, "C07.R4"), r5_physical_lines(m)]
    from rules import C09, order_rules
    r6 = C09.r8_table_keys(m)
    r6.rule = "C07.R6"
    r6.title = "the failure-path clean-up cannot raise SymbolTableError in place of the syntax error because of letter case (shared with C09.R8)"
    for f in r6.findings:
        f.rule = "C07.R6"
    results.append(r6)
    results.append(order_rules.index_guard_rule(m, "C07.R7"))
    r8 = rr.rule_semicolon(m, "C07.R8")
    r8.title = "no ';'-separated source line is dropped on the way to the parser (an erroneous statement on it would go unreported): " + r8.title
    results.append(r8)
    from rules import regex_rules
    r9 = regex_rules.label_name_rules(m, "C07.R9")
    r9.title = "label / construct-name extraction takes exactly one label (blanks are significant in free form): digit-only garbage is not swallowed as a label-only line"
    results.append(r9)
    results.append(order_rules.definite_none_rule(m, "C07.R10"))
    r11 = rr.rule_continuation(m, "C07.R11")
    r11.title = "the statement -- and so the line an error is reported at -- ends where the continuation ends: " + r11.title
    results.append(r11)
    from rules import reader_interp
    results.append(reader_interp.errline_rule(m, "C07.R12", tier))
    from rules import prog_rules
    results.append(prog_rules.errline_rule(m, "C07.R13", tier))
    expl = ("Decides narrow structural clauses of C07: wherever a message quotes a source line it is source_lines[linecount - 1] of the "
            "same reader whose linecount is printed; every FortranSyntaxError is raised with the function's reader parameter; the "
            "physical line counter is moved by exactly one per line taken/given back on every path and item spans are tied to it "
            "(shared with C12); the clean-up run while a syntax error propagates looks tables up case-blind and raising str.index look-ups are guarded, so the error that arrives is the syntax error. Does NOT decide how far look-ahead had advanced the counter at the moment of failure for every nest.")
    return results, expl
