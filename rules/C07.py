"""C07 -- a syntax error is reported at the offending statement's line (narrow structural clauses)."""
import ast

from sa import astutil as A
from sa.report import RuleResult
from rules import reader_rules as rr


def r1_number_text(m):
    r = RuleResult("C07.R1", "wherever an error message quotes a source line, it is the line whose number is printed (same reader, index linecount - 1)")
    r.floor = 2
    sites = 0
    for (path, q), f in sorted(m.funcs.items()):
        if not f.module.startswith("fparser.two"):
            continue
        subs = [n for n in A.body_nodes(f.node) if isinstance(n, ast.Subscript) and isinstance(n.value, ast.Attribute) and n.value.attr == "source_lines"
                and isinstance(n.ctx, ast.Load)]
        for sub in subs:
            if isinstance(sub.slice, ast.Slice):
                continue
            sites += 1
            r.instances += 1
            recv = A.text(sub.value.value)
            idx = A.text(sub.slice)
            ok = idx == "%s.linecount - 1" % recv
            # the printed number is the same reader's linecount
            nums = {A.text(n.value) for n in A.body_nodes(f.node) if isinstance(n, ast.Attribute) and n.attr == "linecount"}
            ok = ok and nums == {recv}
            r.ob(ok, "%s: quotes %s.source_lines[%s], prints %s" % (f.qualname, recv, idx, sorted(nums)))
            if not ok:
                r.fail("%s|%s" % (f.qualname, idx), "%s quotes `%s.source_lines[%s]` while printing the line number of %s: the quoted text "
                       "is not the line whose number is reported" % (f.qualname, recv, idx, sorted(nums)), m.loc(f, sub))
    if sites < 2:
        r.error("fewer than 2 message-construction sites quoting source_lines found")
    return r


def r2_reader_supplied(m):
    r = RuleResult("C07.R2", "every FortranSyntaxError is raised with the function's reader, so the location branch is taken")
    r.floor = 6
    for (path, q), f in sorted(m.funcs.items()):
        if not f.module.startswith("fparser.two"):
            continue
        params = set(A.param_names(f.node))
        for n in A.raises(f.node):
            if n.exc is None or not isinstance(n.exc, ast.Call):
                continue
            if (A.dotted(n.exc.func) or "").split(".")[-1] != "FortranSyntaxError":
                continue
            r.instances += 1
            a0 = n.exc.args[0] if n.exc.args else None
            ok = isinstance(a0, ast.Name) and a0.id in params
            r.ob(ok, "%s: raise FortranSyntaxError(%s, ...)" % (f.qualname, A.text(a0)))
            if not ok:
                r.fail("%s|%s" % (f.qualname, A.text(a0)[:30]), "%s raises FortranSyntaxError with `%s` instead of the reader it was given: "
                       "the message says 'at unknown location'" % (f.qualname, A.text(a0)[:40]), m.loc(f, n))
    # the exception itself: location branch keyed on isinstance(reader, FortranReaderBase)
    k = m.key("FortranSyntaxError", "fparser.two.utils")
    init = m.method(k, "__init__")
    r.instances += 1
    ok = init is not None and any(isinstance(n, ast.If) and "isinstance(reader, FortranReaderBase)" in A.text(n.test) for n in A.body_nodes(init.node))
    r.ob(ok, "FortranSyntaxError.__init__ adds the location when given a reader")
    if not ok:
        r.fail("FortranSyntaxError.__init__", "FortranSyntaxError.__init__ no longer adds 'at line N' when given a reader", m.loc(init) if init else None)
    return r


def run(m, tier):
    results = [r1_number_text(m), r2_reader_supplied(m), rr.rule_linecount(m, "C07.R3"), rr.rule_span(m, "C07.R4")]
    expl = ("Decides narrow structural clauses of C07: wherever a message quotes a source line it is source_lines[linecount - 1] of the "
            "same reader whose linecount is printed; every FortranSyntaxError is raised with the function's reader parameter; the "
            "physical line counter is moved by exactly one per line taken/given back on every path and item spans are tied to it "
            "(shared with C12). Does NOT decide how far look-ahead had advanced the counter at the moment of failure for every nest.")
    return results, expl
