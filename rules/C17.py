"""C17 -- the Fortran 2008 parser accepts everything the Fortran 2003 parser accepts (grammar-assembly clauses)."""
import ast
import builtins

from sa import astutil as A
from sa import flow as F
from sa.callgraph import CallGraph
from sa.model import AnalysisError
from sa.report import RuleResult
from rules import common_block as cb

F03 = "fparser.two.Fortran2003"
F08 = "fparser.two.Fortran2008"
UTILS = "fparser.two.utils"

# 2008-only constructs named by the property -> class that represents them in the 2008 grammar
ONLY_2008 = {
    "submodules": "Submodule", "CODIMENSION declarations": "Codimension_Attr_Spec", "BLOCK construct": "Block_Construct",
    "CRITICAL construct": "Critical_Construct", "DO CONCURRENT": "Loop_Control", "ERROR STOP": "Error_Stop_Stmt",
    "CONTIGUOUS": "Attr_Spec", "ALLOCATE with MOLD=": "Alloc_Opt", "OPEN with NEWUNIT=": "Connect_Spec",
}
# keywords that must occur only in 2008 code
KEYWORDS_2008 = ["CONTIGUOUS", "MOLD", "NEWUNIT", "CONCURRENT", "SUBMODULE", "CODIMENSION", "CRITICAL"]


def names_of(m, keys):
    return [k.split(":")[1] for k in keys]


def closure_names(m, std, rule, seen=None):
    """Names of classes reachable from rule in std through registry alternatives (alt edges) and through rule classes
    constructed by name inside match bodies / generated list elements (use edges)."""
    if seen is None:
        seen = set()
    todo = [rule]
    base = m.key("Base", UTILS)
    sc = m.snap["std_classes"][std]
    while todo:
        n = todo.pop()
        if n in seen:
            continue
        seen.add(n)
        for k in m.alternatives(std, n):
            todo.append(k.split(":")[1])
        k = sc.get(n)
        if k is None:
            continue
        c = m.classes[k]
        if c["generated"]:
            todo += list(c["subclass_names"] or [])
            continue
        f = m.method(k, "match")
        if f is not None:
            for call in A.calls(f.node):
                if isinstance(call.func, ast.Name):
                    kk = m.class_of_name(f, call.func.id)
                    if kk and m.issub(kk, base):
                        todo.append(kk.split(":")[1])
                for a in call.args:
                    if isinstance(a, ast.Name):
                        kk = m.class_of_name(f, a.id)
                        if kk and m.issub(kk, base):
                            todo.append(kk.split(":")[1])
    return seen


def r1_inclusion(m):
    r = RuleResult("C17.R1", "every alternative of every rule of the 2003 grammar is still reachable from the same rule in the 2008 grammar, in the same order")
    r.floor = 500
    reg3, reg8 = m.snap["registry"]["f2003"], m.snap["registry"]["f2008"]
    for rule in sorted(reg3):
        r.instances += 1
        if rule not in reg8:
            r.ob(False)
            r.fail("rule-lost|%s" % rule, "rule %s of the 2003 grammar does not exist in the 2008 grammar" % rule, None)
            continue
        a3 = names_of(m, reg3[rule])
        a8 = names_of(m, reg8[rule])
        reach8 = None
        lost = []
        for n in a3:
            if n in a8:
                continue
            if reach8 is None:
                reach8 = closure_names(m, "f2008", rule)
            if n not in reach8:
                lost.append(n)
        common3 = [n for n in a3 if n in a8]
        common8 = [n for n in a8 if n in a3]
        ok = not lost and common3 == common8
        r.ob(ok, "%s: %d alternatives, all kept%s" % (rule, len(a3), "" if a3 == a8 else " (2008 adds %s)" % [n for n in a8 if n not in a3]) if len(a3) > 2 and a3 != a8 else None)
        if lost:
            r.fail("alt-lost|%s|%s" % (rule, ",".join(lost)), "in the 2008 grammar rule %s no longer reaches its 2003 alternative(s) %s: sources using "
                   "them are accepted by the 2003 parser and rejected by the 2008 parser" % (rule, lost), None)
        elif common3 != common8:
            r.fail("alt-order|%s" % rule, "rule %s tries its common alternatives in a different order in 2008 (%s) than in 2003 (%s): an "
                   "ambiguous text can parse to a different tree" % (rule, common8, common3), None)
    # every class name of the 2003 standard exists in the 2008 standard
    s3, s8 = m.snap["std_classes"]["f2003"], m.snap["std_classes"]["f2008"]
    for n in sorted(s3):
        if n not in s8:
            r.instances += 1
            r.ob(False)
            r.fail("class-lost|%s" % n, "class %s of the 2003 parser has no counterpart in the 2008 parser" % n, None)
    return r


def r2_engine_identity(m, ctx):
    r = RuleResult("C17.R2", "identity/membership tests of the generic block engine on 2003 classes also name their 2008 overrides")
    r.floor = 1
    eng = ctx.engine
    s3, s8 = m.snap["std_classes"]["f2003"], m.snap["std_classes"]["f2008"]
    di = m.snap["di"]
    for n in A.body_nodes(eng.node):
        if isinstance(n, ast.Compare) and len(n.ops) == 1 and isinstance(n.ops[0], (ast.Is, ast.IsNot, ast.In, ast.NotIn, ast.Eq)):
            right = n.comparators[0]
            elts = right.elts if isinstance(right, (ast.Tuple, ast.List)) else [right]
            keys = []
            for e in elts:
                d = A.dotted(e) or ""
                if d.startswith(("di.", "DynamicImport.")) and d.split(".")[1] in di and di[d.split(".")[1]]["kind"] == "class":
                    keys.append(di[d.split(".")[1]]["key"])
            if not keys:
                continue
            r.instances += 1
            missing = []
            for k in keys:
                nm = k.split(":")[1]
                k8 = s8.get(nm)
                if k8 and k8 != k and k == s3.get(nm) and k8 not in keys:
                    missing.append(nm)
            r.ob(not missing, "`%s` names %s" % (A.text(n)[:70], names_of(m, keys)))
            if missing:
                r.fail("identity|%s" % ",".join(missing), "BlockBase.match tests `%s` by identity; %s has a 2008 override that is not listed, so the "
                       "2008 grammar takes the other branch" % (A.text(n)[:60], missing), m.loc(eng, n))
    # isinstance tests on di classes: the 2008 override must subclass the original
    for n in A.body_nodes(eng.node):
        if isinstance(n, ast.Call) and A.dotted(n.func) == "isinstance" and len(n.args) == 2:
            arg = n.args[1]
            for e in (arg.elts if isinstance(arg, ast.Tuple) else [arg]):
                d = A.dotted(e) or ""
                if d.startswith(("di.", "DynamicImport.")) and d.split(".")[1] in di and di[d.split(".")[1]]["kind"] == "class":
                    k = di[d.split(".")[1]]["key"]
                    nm = k.split(":")[1]
                    k8 = s8.get(nm)
                    if k8 and k8 != k:
                        r.instances += 1
                        ok = m.issub(k8, k)
                        r.ob(ok, "isinstance(.., di.%s): 2008 override subclasses it" % nm)
                        if not ok:
                            r.fail("isinstance|%s" % nm, "BlockBase.match tests isinstance(obj, %s) but the 2008 class of that name does not derive "
                                   "from it" % nm, m.loc(eng, n))
    if r.instances == 0:
        r.error("no identity/isinstance test on DynamicImport classes found in BlockBase.match (anchor vanished)")
    return r


# by-name construction sites of overridden classes that are known to be harmless, with the reason
R3_EXCEPTIONS = {
    ("Outer_Shared_Do_Construct.match", "Label_Do_Stmt"): "a DO CONCURRENT (the only 2008 addition) cannot be a non-block shared-termination DO",
    ("Inner_Shared_Do_Construct.match", "Label_Do_Stmt"): "a DO CONCURRENT (the only 2008 addition) cannot be a non-block shared-termination DO",
}


def r3_overrides_reachable(m, ctx):
    r = RuleResult("C17.R3", "2003 code that builds a 2003 class by name does not bypass its hand-written 2008 override")
    r.floor = 10
    cg = ctx.cg
    s3, s8 = m.snap["std_classes"]["f2003"], m.snap["std_classes"]["f2008"]
    over = {n: (s3[n], s8[n]) for n in s3 if n in s8 and s3[n] != s8[n]}

    def same_semantics(n):
        """generated 2008 twin whose target class is not itself overridden, or 2008 class without own match."""
        k3, k8 = over[n]
        c8 = m.classes[k8]
        if "match" not in c8["own"] and not c8["generated"]:
            return "the 2008 class has no match of its own (extends the alternatives only)"
        if c8["generated"] and m.classes[k3]["generated"]:
            tgt = (c8["subclass_names"] or [None])[0]
            if tgt and tgt not in over:
                return "generated twin over the same element class %s" % tgt
            if tgt and tgt in over and n.endswith(("_Name",)):
                return "generated name class"
            if n.startswith("Scalar_") or n.endswith("_Name"):
                return "generated pure-alternation class (its target is looked up in the registry)"
        if n in (c8["subclass_names"] or []):
            return "the 2008 class registers itself as an alternative of the 2003 one"
        return None

    # functions actually used as matchers/hooks: reachable from match methods
    called = set()
    for k, c in m.classes.items():
        if c["module"].startswith("fparser.two"):
            for nm in ("match", "init", "tostr", "tofortran", "__new__"):
                f = m.method(k, nm)
                if f is not None:
                    called.add(id(f))
    grew = True
    funcs = {id(f): f for f in m.funcs.values()}
    while grew:
        grew = False
        for fid in list(called):
            f = funcs.get(fid)
            if f is None:
                continue
            for c in A.calls(f.node):
                for t in cg.resolve(f, c):
                    if t.kind == "func" and id(t.func) not in called:
                        called.add(id(t.func))
                        funcs[id(t.func)] = t.func
                        grew = True
    for (path, q), f in sorted(m.funcs.items()):
        if f.module not in (F03, UTILS) or id(f) not in called:
            continue
        locs = cg.locals_of(f)
        refs = []
        for n in A.body_nodes(f.node):
            if isinstance(n, ast.Call) and isinstance(n.func, ast.Name) and n.func.id in over and n.func.id not in locs:
                refs.append((n.func.id, n))
            if isinstance(n, (ast.List, ast.Tuple)):
                P = None
                for e in n.elts:
                    if isinstance(e, ast.Name) and e.id in over and e.id not in locs:
                        refs.append((e.id, n))
        seen = set()
        for name, node in refs:
            if m.class_of_name(f, name) != over[name][0] or (name, q) in seen:
                continue
            seen.add((name, q))
            r.instances += 1
            own = cg.owner_class(f)
            encl = m.classes[own]["name"] if own else None
            twin = s8.get(encl) if encl else None
            meth = q.split(".")[-1]
            why = same_semantics(name)
            if why is None and twin and twin != own and meth in m.classes[twin]["own"]:
                why = "the enclosing class's 2008 twin overrides %s" % meth
            if why is None and (q, name) in R3_EXCEPTIONS:
                why = "exception table: " + R3_EXCEPTIONS[(q, name)]
            # list references passed to the engine as class tables are resolved through the registry by Base.__new__ only for
            # alternatives; a direct reference in BlockBase.match arguments is the start/end class itself
            r.ob(why is not None, "%s builds %s by name -- %s" % (q, name, why))
            if why is None:
                r.fail("%s|%s" % (q, name), "%s constructs the 2003 class %s by Python name although the 2008 grammar overrides it with its own "
                       "match: the 2008 form is not accepted at that place" % (q, name), m.loc(f, node))
    return r


def r4_2008_only_unreachable(m):
    r = RuleResult("C17.R4", "no class or keyword of a 2008-only construct is reachable in the 2003 grammar")
    r.floor = 500
    reg3 = m.snap["registry"]["f2003"]
    for rule in sorted(reg3):
        r.instances += 1
        bad = [k for k in reg3[rule] if k.split(":")[0].startswith(F08)]
        r.ob(not bad)
        if bad:
            r.fail("registry|%s|%s" % (rule, names_of(m, bad)[0]), "the 2003 grammar's rule %s has the 2008 class %s among its alternatives" % (rule, names_of(m, bad)), None)
    s3 = m.snap["std_classes"]["f2003"]
    for n, k in sorted(s3.items()):
        if k.split(":")[0].startswith(F08):
            r.instances += 1
            r.ob(False)
            r.fail("std-class|%s" % n, "the 2003 parser resolves the rule name %s to the 2008 class %s" % (n, k), None)
    # by-name references to 2008 classes from 2003 code
    path = m.modfile[F03]
    allowed = {("DynamicImport.import_now", "Label_Do_Stmt_2008"): "held only for an identity test in BlockBase.match"}
    for (p, q), f in sorted(m.funcs.items()):
        if p != path and f.module != UTILS:
            continue
        for n in A.body_nodes(f.node):
            if isinstance(n, ast.Name) and isinstance(n.ctx, ast.Load):
                k = m.class_of_name(f, n.id)
                if k and k.split(":")[0].startswith(F08) and (q, n.id) not in allowed:
                    r.instances += 1
                    r.ob(False)
                    r.fail("byname|%s|%s" % (q, n.id), "2003 code (%s) refers to the 2008 class %s by name: the 2003 parser would accept a "
                           "2008-only form there" % (q, n.id), m.loc(f, n))
    # keywords: string constants in match methods of 2003 classes and 2003 patterns
    for kw in KEYWORDS_2008:
        r.instances += 1
        hits = []
        for (p, q), f in sorted(m.funcs.items()):
            if p != path or q.split(".")[-1] not in ("match", "_match"):
                continue
            for n in A.body_nodes(f.node):
                if isinstance(n, ast.Constant) and isinstance(n.value, str) and n.value.upper() == kw:
                    hits.append((f, n))
        r.ob(not hits, "keyword %s occurs in no 2003 matcher" % kw)
        for f, n in hits[:1]:
            r.fail("keyword|%s|%s" % (kw, f.qualname), "the 2003 matcher %s mentions the 2008-only keyword %s" % (f.qualname, kw), m.loc(f, n))
    return r


def declared_graph_reach(m, std, root="Program"):
    sc = m.snap["std_classes"][std]
    seen = set()
    todo = [root]
    while todo:
        n = todo.pop()
        if n in seen or n not in sc:
            continue
        seen.add(n)
        c = m.classes[sc[n]]
        for x in (c["subclass_names"] or []) + (c["use_names"] or []):
            todo.append(x)
    return seen


def r5_2008_reachable(m):
    r = RuleResult("C17.R5", "each 2008-only construct of the property is reachable from Program in the 2008 grammar (through its 2008 class)")
    r.floor = 9
    reach = declared_graph_reach(m, "f2008")
    s8 = m.snap["std_classes"]["f2008"]
    for what, cname in sorted(ONLY_2008.items()):
        r.instances += 1
        k = s8.get(cname)
        ok = k is not None and k.split(":")[0].startswith(F08) and cname in reach
        r.ob(ok, "%s: %s -> %s, reachable: %s" % (what, cname, k, cname in reach))
        if not ok:
            r.fail("unreachable|%s" % cname, "%s: the rule %s %s in the 2008 grammar" % (
                what, cname, "does not resolve to a 2008 class" if not (k and k.split(":")[0].startswith(F08)) else "is not reachable from Program"), None)
    return r


def r6_globals(m, ctx):
    r = RuleResult("C17.R6", "every class reachable in either grammar resolves all names its matcher uses")
    r.floor = 600
    cg = ctx.cg
    for std in ("f2003", "f2008"):
        reach = declared_graph_reach(m, std)
        sc = m.snap["std_classes"][std]
        for n in sorted(reach):
            k = sc[n]
            c = m.classes[k]
            r.instances += 1
            if c["generated"]:
                linked = any(k in lst for lst in m.snap["registry"][std].values())
                if not linked:
                    r.ob(True)      # only classes linked into the registry can be reached through it
                    continue
                tgt = (c["subclass_names"] or [None])[0]
                mg = m.snap["module_globals"].get(c["module"], {})
                ok = tgt is None or tgt in mg
                r.ob(ok)
                if not ok:
                    r.fail("generated|%s|%s" % (std, n), "the generated class %s (reachable in the %s grammar) names %s, which is not defined in %s: "
                           "NameError when it is matched" % (n, std, tgt, c["module"]), None)
                continue
            f = m.method(k, "match")
            if f is None:
                r.ob(True)
                continue
            locs = cg.locals_of(f)
            bad = None
            for x in A.body_nodes(f.node):
                if isinstance(x, ast.Name) and isinstance(x.ctx, ast.Load) and x.id not in locs:
                    if m.resolve_name_in_func(f, x.id) is None and not hasattr(builtins, x.id):
                        # comprehension / lambda variables
                        if any(isinstance(y, (ast.comprehension,)) and x.id in A.assigned_names(y.target) for y in ast.walk(f.node)):
                            continue
                        if any(isinstance(y, ast.Lambda) and x.id in [a.arg for a in y.args.args] for y in ast.walk(f.node)):
                            continue
                        if any(isinstance(y, (ast.FunctionDef,)) and y is not f.node and (x.id == y.name) for y in ast.walk(f.node)):
                            continue
                        bad = x
            r.ob(bad is None)
            if bad is not None:
                r.fail("unresolved|%s|%s" % (n, bad.id), "%s.match uses the name %s, which is not defined in %s (NameError on that path)"
                       % (n, bad.id, f.module), m.loc(f, bad))
    return r


class DelegClient(F.Client):
    track = {"$delegated", "result"}

    def __init__(self, target):
        self.target = target

    def call_effect(self, call, st):
        if A.text(call.func) == self.target:
            return (st.set("$delegated", F.TRUE),)
        return (st,)


def r9_override_inclusion(m):
    import re
    from sa import regexlang
    r = RuleResult("C17.R9", "a 2008 matcher that overrides a 2003 matcher tries the 2003 form first (or its pattern includes the 2003 pattern)")
    r.floor = 4
    s3, s8 = m.snap["std_classes"]["f2003"], m.snap["std_classes"]["f2008"]
    for n in sorted(s3):
        if not (n in s8 and s3[n] != s8[n]) or m.classes[s8[n]]["generated"]:
            continue
        if "match" not in m.classes[s8[n]]["own"] or not m.has_attr(s3[n], "match"):
            continue
        f8 = m.method(s8[n], "match")
        f3 = m.method(s3[n], "match")
        # (a) delegation to the 2003 match by name
        deleg = None
        for c in A.calls(f8.node):
            t = A.text(c.func)
            if t.endswith(".match") and isinstance(c.func.value, ast.Name):
                k = m.class_of_name(f8, c.func.value.id)
                if k == s3[n]:
                    deleg = t
        if deleg:
            r.instances += 1
            fl = F.Flow(m, f8, DelegClient(deleg))
            out = fl.run(F.State({"$delegated": F.FALSE}))
            bad = None
            for st, node in out.ret:
                if node is None or node.value is None or (isinstance(node.value, ast.Constant) and node.value.value is None):
                    continue
                if st.get("$delegated") != F.TRUE:
                    bad = node
            r.ob(bad is None, "%s (2008) calls %s before any of its own forms can match" % (n, deleg))
            if bad is not None:
                r.fail("%s|not-first" % n, "the 2008 %s.match can return its own match at `%s` before having tried the 2003 form (%s): a text "
                       "valid for both is parsed differently or rejected by the 2008 parser" % (n, A.text(bad)[:50], deleg), m.loc(f8, bad))
            continue
        # (b) same engine with a pattern argument: finite-language inclusion
        def pat_arg(f):
            for c in A.calls(f.node):
                if A.text(c.func).endswith("Base.match"):
                    for a in c.args:
                        d = A.dotted(a) or ""
                        if d.startswith("pattern."):
                            return d.split(".", 1)[1]
            return None
        p3, p8 = pat_arg(f3), pat_arg(f8)
        if p3 and p8 and p3 in m.snap["patterns"] and p8 in m.snap["patterns"]:
            r.instances += 1
            e3, e8 = m.snap["patterns"][p3], m.snap["patterns"][p8]
            lang = regexlang.finite_language(e3["pattern"], e3["flags"])
            if lang is None:
                r.undet("%s: language of pattern %s is not finite/small" % (n, p3))
                continue
            rx8 = re.compile(e8["compiled_pattern"], e8["compiled_flags"])
            miss = sorted(w for w in lang if not rx8.match(w))
            r.ob(not miss, "%s: all %d words of pattern.%s are accepted by pattern.%s" % (n, len(lang), p3, p8))
            if miss:
                r.fail("%s|pattern|%s" % (n, miss[0]), "the 2008 pattern %s (used by %s) does not accept %s, which the 2003 pattern %s accepts"
                       % (p8, n, miss[:4], p3), m.loc(f8))
        else:
            r.instances += 1
            # (c) both hand the text/reader to the same generic engine: the option flags the 2003 matcher sets must be set identically
            def engine_calls(f):
                return [(A.text(c.func), c) for c in A.calls(f.node) if A.text(c.func).endswith("Base.match") and isinstance(c.func, ast.Attribute)]
            e3, e8 = engine_calls(f3), engine_calls(f8)
            diffs = []
            for en, c3 in e3:
                c8s = [c for (en8, c) in e8 if en8 == en]
                if not c8s:
                    continue
                ek = m.key(en.split(".")[0], UTILS)
                ef = m.method(ek, "match") if ek else None
                defaults = {k_: A.text(v_) for k_, v_ in (A.param_defaults(ef.node).items() if ef else ())}
                kw3 = {k_.arg: A.text(k_.value) for k_ in c3.keywords if k_.arg}
                for c8 in c8s:
                    kw8 = {k_.arg: A.text(k_.value) for k_ in c8.keywords if k_.arg}
                    for k_, v_ in sorted(kw3.items()):
                        have = kw8.get(k_, defaults.get(k_))
                        if have != v_:
                            diffs.append((en, k_, v_, have, c8))
            r.ob(not diffs, "%s (2008) re-implements the match%s" % (n, " with the same engine options as the 2003 matcher" if e3 and e8 else
                                                                 " over 2008 list classes (element inclusion is C17.R1)"))
            for en, k_, v_, have, c8 in diffs:
                r.fail("%s|engine-option|%s" % (n, k_), "the 2008 %s.match calls %s with %s=%s where the 2003 matcher passes %s=%s: source "
                       "the 2003 parser accepts through that option (e.g. nested labelled DO loops sharing their terminating statement) "
                       "is handled differently by the 2008 parser" % (n, en, k_, have, k_, v_), m.loc(f8, c8))
    return r


MUTATORS = {"append", "extend", "insert", "remove", "pop", "sort", "reverse", "clear", "update", "setdefault", "popitem", "add", "discard"}


def is_fresh(node):
    """Does evaluating `node` give a new container (so that mutating it cannot be seen through the object it was derived from)?"""
    if isinstance(node, (ast.List, ast.Dict, ast.Set, ast.ListComp, ast.DictComp, ast.SetComp, ast.Tuple, ast.Constant)):
        return True
    if isinstance(node, ast.Subscript) and isinstance(node.slice, ast.Slice):
        return True
    if isinstance(node, ast.BinOp) and isinstance(node.op, (ast.Add, ast.BitOr, ast.Mult)):
        return True
    if isinstance(node, ast.Call):
        d = A.dotted(node.func) or ""
        if d in ("list", "dict", "set", "tuple", "sorted", "copy.copy", "copy.deepcopy", "frozenset"):
            return True
        if isinstance(node.func, ast.Attribute) and node.func.attr in ("copy", "keys", "values", "items", "split", "format", "join"):
            return True
        return False
    if isinstance(node, ast.IfExp):
        return is_fresh(node.body) and is_fresh(node.orelse)
    return False


def r10_no_alias_mutation(m):
    r = RuleResult("C17.R10", "a class body that derives a table from another class's table copies it before changing it (no mutation through "
                              "an alias: the 2003 classes' tables are not altered by importing the 2008 ones)")
    r.floor = 15
    for (path, q), cd in sorted(m.classdefs.items()):
        if "/tests/" in path or "/two/" not in path:
            continue
        alias = {}     # class-body name -> text of the foreign attribute it aliases
        for s_ in cd.body:
            if isinstance(s_, ast.Assign) and len(s_.targets) == 1 and isinstance(s_.targets[0], ast.Name):
                name, val = s_.targets[0].id, s_.value
                foreign = [x for x in ast.walk(val) if isinstance(x, ast.Attribute) and isinstance(x.value, ast.Name) and x.value.id not in ("re", "pattern", "pattern_tools")
                           and x.value.id[:1].isupper()]
                if foreign:
                    r.instances += 1
                    if is_fresh(val):
                        alias.pop(name, None)
                        r.ob(True, "%s.%s = %s (fresh)" % (q, name, A.text(val)[:40]) if r.instances % 5 == 0 else None)
                    elif isinstance(val, ast.Attribute):
                        alias[name] = A.text(val)
                        r.ob(True)
                    else:
                        r.ob(True)
                else:
                    alias.pop(name, None)
            muts = []
            for x in ast.walk(s_):
                if isinstance(x, ast.Call) and isinstance(x.func, ast.Attribute) and x.func.attr in MUTATORS and isinstance(x.func.value, ast.Name) \
                        and x.func.value.id in alias:
                    muts.append((x.func.value.id, x))
                if isinstance(x, ast.AugAssign) and isinstance(x.target, ast.Name) and x.target.id in alias:
                    muts.append((x.target.id, x))
                if isinstance(x, (ast.Assign, ast.Delete)):
                    for t in (x.targets if isinstance(x, (ast.Assign, ast.Delete)) else []):
                        if isinstance(t, ast.Subscript) and isinstance(t.value, ast.Name) and t.value.id in alias:
                            muts.append((t.value.id, x))
            for name, x in muts:
                r.instances += 1
                r.ob(False)
                r.fail("%s|alias-mutation|%s" % (q, name), "class %s: `%s` changes `%s` in place, but that name is the very object `%s` (not a copy): "
                       "the other class's table changes as a side effect of importing this module, e.g. a 2008-only keyword becomes "
                       "acceptable to the 2003 parser" % (q, A.text(x)[:50], name, alias[name]), "%s:%s" % (m.rel(path), x.lineno))
    return r


def r11_intrinsic_inclusion(m):
    r = RuleResult("C17.R11", "every intrinsic function name the 2003 parser recognises is recognised by the 2008 parser with the same arity bounds")
    r.floor = 1
    k3, k8 = m.std_class("f2003", "Intrinsic_Name"), m.std_class("f2008", "Intrinsic_Name")
    if k3 is None or k8 is None:
        r.error("Intrinsic_Name missing in one of the standards")
        return r

    def attr(k, name):
        for kk in m.classes[k]["mro"]:
            ent = m.classes[kk]["own"].get(name)
            if ent is not None:
                return ent
        return {}
    r.instances += 1
    n3, n8 = set(attr(k3, "function_names").get("value") or []), set(attr(k8, "function_names").get("value") or [])
    g3, g8 = attr(k3, "generic_function_names").get("entries"), attr(k8, "generic_function_names").get("entries")
    if not n3 or g3 is None or g8 is None:
        r.error("Intrinsic_Name tables are not plain tables")
        return r
    lost = sorted(n3 - n8)
    r.ob(not lost, "2003 names %d, 2008 names %d" % (len(n3), len(n8)))
    if lost:
        r.fail("Intrinsic_Name|lost-in-2008", "intrinsic names %s of the 2003 parser are not recognised by the 2008 parser" % lost[:6], m.class_loc(k8))
    changed = sorted(a for a in g3 if a in g8 and g3[a] != g8[a])
    r.ob(not changed)
    if changed:
        r.fail("Intrinsic_Name|arity-changed", "arity bounds of %s differ between the 2003 and the 2008 tables" % changed[:6], m.class_loc(k8))
    return r


def run(m, tier):
    ctx = cb.get_ctx(m)
    from rules import C09
    r7 = C09.r7_state_writers(m)
    r7.rule = "C17.R7"
    r7.title = "no matcher writes class-level state that the other standard's classes share (shared with C09.R7)"
    for f in r7.findings:
        f.rule = "C17.R7"
    r8 = C09.r2_factory_resets(m)
    r8.rule = "C17.R8"
    for f in r8.findings:
        f.rule = "C17.R8"
    results = [r1_inclusion(m), r2_engine_identity(m, ctx), r3_overrides_reachable(m, ctx), r4_2008_only_unreachable(m),
               r5_2008_reachable(m), r6_globals(m, ctx), r7, r8, r9_override_inclusion(m), r10_no_alias_mutation(m), r11_intrinsic_inclusion(m)]
    from rules import guard_rules
    r12 = guard_rules.optional_keyword_rule(m, "C17.R12")
    r12.title = "a 2003 matcher that skips an optional keyword records it (its 2008 override does, so otherwise the two parsers print different text for the same statement)"
    results.append(r12)
    results.append(r13_printer_agreement(m))
    results.append(r14_isinstance_overrides(m))
    from rules import two_roundtrip
    results.append(two_roundtrip.standards_rule(m, "C17.R15", floor=230, build_depth=2))
    results.append(r16_list_elements(m))
    from rules import C11 as _C11, order_rules as _or
    from sa import tables as _tables
    results.append(_C11.r11_strict_order(m, _tables.engine_instances(m, "BlockBase"), "C17.R17"))
    results.append(_or.comment_option_owner_rule(m, "C17.R18"))
    from rules import prog_rules
    results.append(prog_rules.standards_rule(m, "C17.R19", tier))
    expl = ("Decides grammar inclusion at the level at which the 2008 grammar is assembled: every rule and alternative of the linked "
            "2003 registry is still reachable, in the same relative order, in the linked 2008 registry (550 rules); identity tests of "
            "the generic engine also name the 2008 overrides; 2003 code that builds an overridden class by Python name is covered by a "
            "hook/own-match/self-registration or an explained exception; no 2008 class or 2008-only keyword is reachable from the 2003 "
            "grammar; each 2008-only construct of the property is reachable from Program in the 2008 grammar; reachable matchers resolve "
            "all their names; the standards share no mutable class-level state (matchers do not write it, class bodies copy a table before extending it) and the factory always relinks. Does NOT decide text "
            "equality of the two parsers' output.")
    return results, expl


# ---------------------------------------------------------------------------------------------------------------
class _Sym:
    """An opaque child value for interpreting printers: prints as its tag, can be indexed and iterated (two elements)."""

    def __init__(self, tag):
        self.tag = tag

    def __str__(self):
        return self.tag

    __repr__ = __str__

    def __getitem__(self, i):
        if isinstance(i, int) and -2 <= i < 2:
            return _Sym("%s[%d]" % (self.tag, i % 2))
        raise IndexError(i)

    def __iter__(self):
        return iter([_Sym(self.tag + "[0]"), _Sym(self.tag + "[1]")])

    def __len__(self):
        return 2


def _concretise(shape):
    """all concrete item tuples of a shape (alternatives expanded; nodes/strings/sequences as symbolic values)"""
    import itertools
    opts = []
    for i, e in enumerate(shape):
        def one(x):
            if x == "none":
                return [None]
            if isinstance(x, tuple) and x and x[0] == "lit":
                return [x[1]]
            if isinstance(x, tuple) and x and x[0] == "alt":
                out = []
                for y in sorted(x[1], key=repr):
                    out += one(y)
                return out
            return [_Sym("<%d>" % i)]
        opts.append(one(e))
    return [tuple(t) for t in itertools.product(*opts)]


def r13_printer_agreement(m):
    """Sibling agreement of printers: where the 2008 class has its own tostr and its matcher returns the 2003 result extended by None
    elements, printing such a result must give what the 2003 printer gives for the unextended one."""
    from sa import shapes as SH, pureeval as PE
    from sa.callgraph import CallGraph
    r = RuleResult("C17.R13", "a 2008 class with its own printer prints every result the 2003 matcher can return exactly as the 2003 printer "
                              "does (both printers interpreted on every concrete None/literal pattern of the 2003 result shapes)")
    r.floor = 4
    S = SH.Shapes(m, CallGraph(m))
    s3, s8 = m.snap["std_classes"]["f2003"], m.snap["std_classes"]["f2008"]
    n_cls = 0
    for n in sorted(s3):
        if not (n in s8 and s3[n] != s8[n]) or m.classes[s8[n]]["generated"]:
            continue
        if "tostr" not in m.classes[s8[n]]["own"]:
            continue
        p3, p8 = m.method(s3[n], "tostr"), m.method(s8[n], "tostr")
        f3, f8 = m.method(s3[n], "match"), m.method(s8[n], "match")
        if None in (p3, p8, f3, f8) or p3 is p8:
            continue
        sh3, sh8 = S.of_func(f3), S.of_func(f8)
        if sh3.open or sh8.open or not sh3.shapes:
            continue
        pairs = []
        for a in sorted(sh3.shapes, key=repr):
            for b in sorted(sh8.shapes, key=repr):
                if len(b) >= len(a) and b[:len(a)] == a and all(x == "none" for x in b[len(a):]):
                    pairs.append((a, b))
        if not pairs:
            continue          # the 2008 result is not an extension of the 2003 one (e.g. Procedure_Stmt, see C17.R12)
        n_cls += 1
        ev = PE.Evaluator({})
        g = ev.g
        # names under which the 2008 module knows the 2003 class
        parent = PE.Obj({"tostr": lambda self_: ev.run_function(p3.node, [self_])})
        for nm in ("%s_2003" % n, n + "2003", "F2003_%s" % n):
            g[nm] = parent
        for node in ast.walk(p8.node):
            if isinstance(node, ast.Call) and isinstance(node.func, ast.Attribute) and node.func.attr == "tostr" and isinstance(node.func.value, ast.Name):
                k_ = m.class_of_name(p8, node.func.value.id)
                if k_ == s3[n]:
                    g[node.func.value.id] = parent
        g.update({"str": str, "map": lambda fn_, xs: [fn_(x) for x in xs]})
        for a, b in pairs:
            for items8 in _concretise(b):
                items3 = items8[:len(a)]
                r.instances += 1
                try:
                    t3 = ev.run_function(p3.node, [PE.Obj({"items": items3})])
                    t8 = ev.run_function(p8.node, [PE.Obj({"items": items8})])
                except PE.Unsupported as err:
                    r.undet("%s: printers cannot be interpreted (%s)" % (n, err))
                    continue
                except PE.PyRaise as err:
                    t3, t8 = "-", "raises %s" % err.exc_type
                ok = t3 == t8
                r.ob(ok, "%s%r: both print %r" % (n, items3, t3) if r.obligations % 3 == 0 else None)
                if not ok:
                    r.fail("%s|printer-disagrees|%s" % (n, "/".join("-" if x is None else str(x) for x in items3)),
                           "%s: for the 2003 result %r the 2003 printer gives %r but the 2008 printer gives %r: the same source regenerates "
                           "to different text under the two standards" % (n, items3, t3, t8), m.loc(p8))
    r.ob(n_cls > 0, "%d classes compared" % n_cls)
    return r


def r14_isinstance_overrides(m):
    """Generalises R2 to all code shared by the two standards: an isinstance test on a 2003 class silently fails under the 2008 grammar
    when the 2008 class of that name (hand-written override or a freshly generated `_List`) does not derive from the 2003 one."""
    r = RuleResult("C17.R14", "every isinstance test in the code both standards share names a class whose 2008 counterpart (if it has one) "
                              "derives from it: otherwise the branch is taken under f2003 and skipped under f2008")
    r.floor = 30
    s3, s8 = m.snap["std_classes"]["f2003"], m.snap["std_classes"]["f2008"]
    for (path, q), f in sorted(m.funcs.items()):
        if not f.module.startswith("fparser.two") or "Fortran2008" in f.module:
            continue
        for c in A.body_nodes(f.node):
            if not (isinstance(c, ast.Call) and A.dotted(c.func) == "isinstance" and len(c.args) == 2):
                continue
            arg = c.args[1]
            for e in (arg.elts if isinstance(arg, ast.Tuple) else [arg]):
                if not isinstance(e, ast.Name):
                    continue
                k = m.class_of_name(f, e.id)
                if k is None:
                    continue
                r.instances += 1
                k8 = s8.get(e.id)
                ok = not (k8 and k8 != k and k == s3.get(e.id) and not m.issub(k8, k))
                r.ob(ok, "%s: isinstance(.., %s)" % (q, e.id) if r.instances % 10 == 0 else None)
                if not ok:
                    r.fail("%s|isinstance|%s" % (q, e.id), "%s tests `%s`, but under the 2008 grammar objects of that rule are instances of %s, "
                           "which does not derive from the 2003 class: the test is true under f2003 and false under f2008, so the two parsers "
                           "treat the same source differently" % (q, A.text(c)[:60], k8), m.loc(f, c))
    return r


def r16_list_elements(m):
    """A generated <X>_List class calls its element class X by Python reference.  Where the 2008 grammar keeps the 2003 list class but
    overrides X with its own matcher, the override is found only through X's alternatives (Base.subclasses[X]): it must register itself."""
    r = RuleResult("C17.R16", "where the 2008 grammar overrides an element class X with its own matcher but keeps the 2003 class X_List, the "
                              "override is registered among the alternatives of X (subclass_names of the 2008 class contains X): otherwise the "
                              "2008 form of X is not tried inside lists")
    r.floor = 3
    s3, s8 = m.snap["std_classes"]["f2003"], m.snap["std_classes"]["f2008"]
    for n in sorted(s3):
        if not (n in s8 and s3[n] != s8[n]) or m.classes[s8[n]]["generated"] or "match" not in m.classes[s8[n]]["own"]:
            continue
        ln = n + "_List"
        if ln not in s3:
            continue
        r.instances += 1
        same_list = s8.get(ln) == s3.get(ln)
        registered = n in (m.classes[s8[n]]["subclass_names"] or []) and s8[n] in (m.snap["registry"]["f2008"].get(n) or [])
        ok = (not same_list) or registered
        r.ob(ok, "%s: %s" % (n, "2008 has its own %s" % ln if not same_list else "the 2008 class is an alternative of the 2003 %s" % n))
        if not ok:
            r.fail("%s|list-element" % n, "the 2008 grammar uses the 2003 class %s, which builds its elements with the 2003 class %s; the 2008 "
                   "override %s is not among the alternatives of %s (it does not list %r in subclass_names), so inside a list only the 2003 "
                   "form is tried and a valid Fortran 2008 list is rejected" % (ln, n, s8[n], n, n), m.class_loc(s8[n]))
    return r
