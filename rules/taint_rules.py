"""E8 taint rules: case-blind keyword comparisons in matchers (C04.R3); dead input pieces (C01.R4)."""
import ast

from sa import astutil as A
from sa import defuse
from sa.report import RuleResult
from rules import shapes_rules

STR_TESTS = {"startswith", "endswith", "find", "rfind", "index", "count", "split", "rsplit", "partition"}
NORM = {"upper", "lower", "casefold"}


def has_alpha(s):
    return isinstance(s, str) and any(ch.isalpha() for ch in s)


def is_normalised(f, node, d_norm, depth=0):
    """The value of node went through upper()/lower() (directly or through a single-assigned local)."""
    for n in ast.walk(node):
        if isinstance(n, ast.Call) and isinstance(n.func, ast.Attribute) and n.func.attr in NORM:
            return True
    for n in ast.walk(node):
        if isinstance(n, ast.Name) and n.id in d_norm:
            return True
    return False


_SHAPES = {}


def _printed_node(m, ctx, f, other):
    """`str(V[i])` / `str(V)` where V is bound once, to the result of a matcher helper whose element i is a node (or None) in every
    shape the shape engine derives: what is compared is the text that node prints, not the input"""
    from sa import shapes as SH
    if not (isinstance(other, ast.Call) and isinstance(other.func, ast.Name) and other.func.id == "str" and len(other.args) == 1):
        return False
    e = other.args[0]
    idx = None
    if isinstance(e, ast.Subscript) and isinstance(A.const(e.slice, None), int):
        idx, e = A.const(e.slice), e.value
    if not isinstance(e, ast.Name):
        return False
    defs = [n.value for n in A.body_nodes(f.node) if isinstance(n, ast.Assign) and len(n.targets) == 1 and isinstance(n.targets[0], ast.Name)
            and n.targets[0].id == e.id]
    if len(defs) != 1 or not isinstance(defs[0], ast.Call) or not isinstance(defs[0].func, ast.Attribute) or not isinstance(defs[0].func.value, ast.Name):
        return False
    k = m.key(defs[0].func.value.id, f.module)
    callee = m.method(k, defs[0].func.attr) if k else None
    if callee is None:
        return False
    if id(m) not in _SHAPES:
        _SHAPES[id(m)] = SH.Shapes(m, ctx.cg)
    ss = _SHAPES[id(m)].of_func(callee)
    if ss.open or not ss.shapes or idx is None:
        return False

    def node_kind(kd):
        if kd == "none":
            return True
        if isinstance(kd, tuple) and kd and kd[0] == "node":
            return True
        if isinstance(kd, tuple) and kd and kd[0] == "alt":
            return all(node_kind(x) for x in kd[1])
        return False
    return all(len(sh) > idx and node_kind(sh[idx]) for sh in ss.shapes)



def c04_rules(m):
    from sa.callgraph import CallGraph
    from rules import C06
    from rules import common_block as cb
    ctx = cb.get_ctx(m)
    r = RuleResult("C04.R3", "every comparison of input text with an alphabetic literal in a matcher is case-blind")
    r.floor = 100
    matches, inp = C06.input_params(m, ctx)
    n_cmp = 0
    for fid, f in sorted(matches.items(), key=lambda x: x[1].qualname):
        if not inp[fid]:
            continue
        d = defuse.deps(f.node)
        derived = set(inp[fid])
        grew = True
        while grew:
            grew = False
            for name, srcs in d.items():
                if name not in derived and srcs & derived:
                    derived.add(name)
                    grew = True
        # names whose every assignment is normalised (or derives from a normalised name)
        norm = set()
        assigns = {}
        for n in A.body_nodes(f.node):
            if isinstance(n, ast.Assign):
                for t in n.targets:
                    for nm in A.assigned_names(t):
                        assigns.setdefault(nm, []).append(n.value)
        appends = {}
        for n in A.body_nodes(f.node):
            if isinstance(n, ast.Call) and isinstance(n.func, ast.Attribute) and n.func.attr in ("append", "extend", "insert", "add") \
                    and isinstance(n.func.value, ast.Name) and n.args:
                appends.setdefault(n.func.value.id, []).append(n.args[-1])
        grew = True
        while grew:
            grew = False
            for nm in set(assigns) | set(appends):
                if nm in norm:
                    continue
                vals = assigns.get(nm, [])
                # references to the name itself are fine by induction (x = x.strip())
                def okv(v):
                    if isinstance(v, (ast.List, ast.Tuple, ast.Set)) and not v.elts:
                        return nm in appends
                    return is_normalised(f, v, norm | {nm}) and (is_normalised(f, v, norm) or nm in A.names_in(v))
                base_ok = [v for v in vals if not (nm in A.names_in(v))]
                if vals and all(okv(v) for v in vals) and (not base_ok or all(is_normalised(f, v, norm) or (isinstance(v, (ast.List, ast.Tuple)) and not v.elts) for v in base_ok)) \
                        and all(is_normalised(f, a, norm) for a in appends.get(nm, [])) and (base_ok or appends.get(nm)):
                    norm.add(nm)
                    grew = True
        # the tokenised line of the reader is lower-cased outside literals only for Line.get_line(); matchers get item.line (original case)
        for n in A.body_nodes(f.node):
            sites = []
            if isinstance(n, ast.Compare) and len(n.ops) == 1 and isinstance(n.ops[0], (ast.Eq, ast.NotEq, ast.In, ast.NotIn)):
                a, b = n.left, n.comparators[0]
                for lit, other in ((a, b), (b, a)):
                    lits = []
                    if isinstance(lit, ast.Constant) and has_alpha(lit.value):
                        lits = [lit.value]
                    elif isinstance(lit, (ast.Tuple, ast.List)) and lit.elts and all(isinstance(e, ast.Constant) for e in lit.elts):
                        lits = [e.value for e in lit.elts if has_alpha(e.value)]
                    if lits:
                        if isinstance(n.ops[0], (ast.In, ast.NotIn)) and lit is a and isinstance(lit, ast.Constant):
                            # "x" in text : substring test of a literal in input
                            sites.append((lits, other))
                        elif isinstance(n.ops[0], (ast.In, ast.NotIn)) and lit is b:
                            sites.append((lits, other))     # text in ("A", "B") / text in "ABC"
                        elif isinstance(n.ops[0], (ast.Eq, ast.NotEq)):
                            sites.append((lits, other))
            elif isinstance(n, ast.Call) and isinstance(n.func, ast.Attribute) and n.func.attr in STR_TESTS and n.args \
                    and isinstance(n.args[0], ast.Constant) and has_alpha(n.args[0].value):
                sites.append(([n.args[0].value], n.func.value))
            for lits, other in sites:
                names = A.names_in(other)
                if not (names & derived):
                    continue
                n_cmp += 1
                r.instances += 1
                ok = is_normalised(f, other, norm)
                if not ok and isinstance(other, ast.Name):
                    # flow-sensitive refinement: the nearest assignment textually before the comparison normalises the value
                    prev = [x for x in A.body_nodes(f.node) if isinstance(x, ast.Assign) and other.id in
                            [nm for t in x.targets for nm in A.assigned_names(t)] and x.lineno < n.lineno]
                    if prev:
                        last = max(prev, key=lambda x: x.lineno)
                        ok = is_normalised(f, last.value, norm)
                if not ok and any(isinstance(x, ast.Attribute) and x.attr in ("children", "items") for x in ast.walk(other)):
                    ok = True   # a field of an already-built node: canonicalised by that node's own matcher
                if not ok and _printed_node(m, ctx, f, other):
                    ok = True   # str(<node>): the printed text of a node a matcher built, canonicalised by that node's class
                # single characters used as format/kind letters in numeric/format descriptors are compared after upper() upstream
                r.ob(ok, "%s: `%s`" % (f.qualname, A.text(n)[:60]) if n_cmp % 15 == 1 else None)
                if not ok:
                    r.fail("%s|%s" % (f.qualname, A.text(n)[:40]), "%s compares input text with the literal %r without normalising its case "
                           "(`%s`): the same statement written in another case is not recognised" % (f.qualname, lits[0], A.text(n)[:60]), m.loc(f, n))
    return [r]


def dead_pieces_rule(m, rid):
    """C01.R4: a local that receives a piece of the input text is read afterwards."""
    from rules import C06
    from rules import common_block as cb
    ctx = cb.get_ctx(m)
    r = RuleResult(rid, "no matcher computes a piece of the input text and then drops it (every input-derived local is read)")
    r.floor = 300
    matches, inp = C06.input_params(m, ctx)
    for fid, f in sorted(matches.items(), key=lambda x: x[1].qualname):
        r.instances += 1
        if not inp[fid]:
            r.ob(True)
            continue
        d = defuse.deps(f.node)
        derived = set(inp[fid])
        grew = True
        while grew:
            grew = False
            for name, srcs in d.items():
                if name not in derived and srcs & derived:
                    derived.add(name)
                    grew = True
        loads = {n.id for n in A.body_nodes(f.node) if isinstance(n, ast.Name) and isinstance(n.ctx, ast.Load)}
        # names loaded inside nested functions/lambdas count as well
        for n in ast.walk(f.node):
            if isinstance(n, ast.Name) and isinstance(n.ctx, ast.Load):
                loads.add(n.id)
        dead = []
        for n in A.body_nodes(f.node):
            if isinstance(n, ast.Assign) and not isinstance(n.value, (ast.Compare, ast.BoolOp, ast.Constant)):
                for t in n.targets:
                    for nm in A.assigned_names(t):
                        if nm in derived and nm not in loads and not nm.startswith("_") and nm not in ("dummy", "unused"):
                            dead.append((nm, n))
        r.ob(not dead, "%s" % f.qualname if r.instances % 60 == 1 else None)
        for nm, node in dead[:2]:
            r.fail("%s|dead|%s" % (f.qualname, nm), "%s assigns the input-derived value `%s` to `%s` and never reads it: that piece of the "
                   "source text cannot reach the tree" % (f.qualname, A.text(node.value)[:40], nm), m.loc(f, node))
    return r
