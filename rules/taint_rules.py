"""E8 taint rules (case-blind keyword comparisons etc.), filled in below."""


def c04_rules(m):
    return []
