"""fparser1 (fparser.one): statement-level round trip decided by interpretation.

For a table of sample statement lines, `process_item` of the statement class and its printer (`tostr` for block-opening statements,
`tofortran` otherwise) are interpreted from their ASTs (never imported, never run) on a *model* of the reader item
(`one_taint._item_model`: get_line() hides character literals and parenthesised groups, apply_map() restores them).  Decided per sample:

  (accept)     the class accepts the line (isvalid stays True, no exception);
  (carry-over) every character literal and every parenthesised group of the line re-appears in the printed statement (blank-insensitive
               outside literals): "the expression text of every statement is carried over unchanged";
  (fixpoint)   printing, re-reading the printed line with the same class and printing again gives the same text.

The interpretation is bounded to what sa/pureeval supports plus a small object model (instances with a class, class-level attributes
through the MRO, `self.__class__ = X`); a class that needs more is reported as undetermined, never as a finding.
"""
import ast
import re

from sa import astutil as A
from sa import pureeval as PE
from sa.report import RuleResult
from rules import one_taint

ONE_MODULES = ("fparser.one.statements", "fparser.one.typedecl_statements", "fparser.one.block_statements")
BC = "fparser.common.base_classes"
UT = "fparser.common.utils"


class _LineModel:
    """marker types for `isinstance(item, Line)` / `isinstance(item, Comment)` in interpreted code"""


class _CommentModel:
    pass


class ItemObj(PE.Obj, _LineModel):
    pass


class World:
    def __init__(self, m):
        self.m = m
        self.messages = []
        self.blocks = False            # True: BeginStatement.fill is interpreted too (whole blocks are read from a model queue)
        self.ev = PE.Evaluator({}, max_steps=400000)
        g = self.ev.g
        noop = lambda *a, **k: None
        logger = PE.Obj({"warning": noop, "error": noop, "info": noop, "debug": noop, "critical": noop})
        g["logging"] = PE.Obj({"getLogger": lambda *a, **k: logger})
        g["__name__"] = "fparser.one"
        g["Line"] = _LineModel
        g["Comment"] = _CommentModel
        for mod in ONE_MODULES + (UT, BC):
            for name, val in PE.module_regexes(m, mod).items():
                g.setdefault(name, val)
        for mod in (UT,) + ONE_MODULES + (BC,):
            path = m.modfile.get(mod)
            for (p_, q), f in m.funcs.items():
                if p_ == path and "." not in q and q not in g:
                    g[q] = (lambda fn: (lambda *a, **k: self.ev.run_function(fn.node, list(a), k)))(f)
        # one namespace in import order: base classes, statements, type declarations, then the block statements, whose classes
        # (Where, Forall, Type) replace the like-named statement classes (those stay reachable as WhereStmt, ForallStmt, TypeStmt)
        self.classes = {}
        for mod in (BC,) + ONE_MODULES:
            for k, c in sorted(m.classes.items(), key=lambda kc: kc[1]["lineno"] or 0):
                if c["module"] == mod:
                    self.classes[c["name"]] = k
                    g[c["name"]] = ClassRef(self, k)
            if mod in ONE_MODULES:
                for node in m.files[m.modfile[mod]][1].body:
                    if isinstance(node, ast.Assign) and len(node.targets) == 1 and isinstance(node.targets[0], ast.Name) \
                            and isinstance(node.value, ast.Name) and node.value.id in g and isinstance(g[node.value.id], ClassRef):
                        g[node.targets[0].id] = g[node.value.id]
        # names that mean different classes in different modules (Where, Forall, Type): per module, the binding that module sees
        self.per_module = {}
        order = (BC,) + ONE_MODULES
        seen = {}
        for i_, mod in enumerate(order):
            for k, c in m.classes.items():
                if c["module"] == mod:
                    seen.setdefault(c["name"], {})[mod] = k
        for name, by_mod in seen.items():
            if len(by_mod) > 1:
                for i_, mod in enumerate(order):
                    visible = [by_mod[x] for x in order[:i_ + 1] if x in by_mod]
                    if visible:
                        self.per_module.setdefault(mod, {})[name] = ClassRef(self, visible[-1])
        g["re"] = PE.Obj({"match": re.match, "search": re.search, "compile": re.compile, "sub": re.sub, "split": re.split, "findall": re.findall,
                          "I": re.I, "IGNORECASE": re.I, "escape": re.escape})
        g["map"] = lambda fn_, *xs: [fn_(*t) for t in zip(*xs)]
        import string as _string
        g["string"] = PE.Obj({"ascii_lowercase": _string.ascii_lowercase, "ascii_uppercase": _string.ascii_uppercase,
                              "ascii_letters": _string.ascii_letters, "digits": _string.digits})
        # module-level tables of classes (`action_stmt = [Assignment, ...]`), in source order
        for mod in ONE_MODULES:
            path = m.modfile.get(mod)
            for node in m.files[path][1].body:
                if isinstance(node, ast.Assign) and len(node.targets) == 1 and isinstance(node.targets[0], ast.Name) \
                        and isinstance(node.value, (ast.List, ast.BinOp, ast.Name, ast.Subscript)) and node.targets[0].id not in g:
                    try:
                        g[node.targets[0].id] = self.ev.ev(node.value, {})
                    except (PE.Unsupported, PE.PyRaise):
                        pass
        g["isinstance"] = self._isinstance
        g["hasattr"] = self._hasattr
        g["getattr"] = self._getattr
        g["repr"] = repr
        g["len"] = len
        g["str"] = str
        g["ParseError"] = lambda *a, **k: PE.PyRaise("ParseError", " ".join(map(str, a)))
        g["AnalyzeError"] = lambda *a, **k: PE.PyRaise("AnalyzeError", " ".join(map(str, a)))

    def run_in(self, modname, funcdef, args, kw=None):
        """interpret a function with the global names of ITS module (the few names that differ between the fparser.one modules)"""
        over = self.per_module.get(modname)
        if not over:
            return self.ev.run_function(funcdef, args, kw)
        saved = {n: self.ev.g.get(n) for n in over}
        self.ev.g.update(over)
        try:
            return self.ev.run_function(funcdef, args, kw)
        finally:
            for n, v in saved.items():
                if v is None:
                    self.ev.g.pop(n, None)
                else:
                    self.ev.g[n] = v

    def _isinstance(self, obj, cls):
        cs = cls if isinstance(cls, tuple) else (cls,)
        for c in cs:
            if isinstance(c, ClassRef):
                if isinstance(obj, Inst) and self.m.issub(obj.cls.key, c.key):
                    return True
            elif isinstance(c, type):
                if isinstance(obj, c):
                    return True
            else:
                raise PE.Unsupported("isinstance on %r" % (c,))
        return False

    def _hasattr(self, obj, name):
        if isinstance(obj, PE.Obj):
            try:
                obj.get(self.ev, name)
                return True
            except PE.Unsupported:
                return False
        return hasattr(obj, name)

    def _getattr(self, obj, name, *default):
        if isinstance(obj, PE.Obj):
            try:
                return obj.get(self.ev, name)
            except PE.Unsupported:
                if default:
                    return default[0]
                raise PE.PyRaise("AttributeError", name)
        raise PE.Unsupported("getattr on %s" % type(obj).__name__)

    def class_attr(self, key, name, bind=None):
        """class-level attribute through the MRO: a method (bound to `bind` when given), a regex method, or a literal constant"""
        m = self.m
        for kk in m.classes[key]["mro"]:
            cd = m.classdef(kk) if kk in m.classes else None
            if cd is None:
                continue
            if kk == BC + ":BeginStatement" and name in ("process_item", "fill") and not self.blocks:
                # reading the body of the block from the source is not part of the model: the opening statement alone is decided
                return lambda *a, **k: None
            mod_ = m.classes[kk]["module"]
            for b in cd.body:
                if isinstance(b, (ast.FunctionDef,)) and b.name == name:
                    deco = [A.text(d) for d in b.decorator_list]
                    if "staticmethod" in deco:
                        return lambda *a, **k: self.run_in(mod_, b, list(a), k)
                    if "classmethod" in deco:
                        return lambda *a, **k: self.run_in(mod_, b, [ClassRef(self, key)] + list(a), k)
                    if "property" in deco:
                        if bind is None:
                            raise PE.Unsupported("property %s on a class" % name)
                        return self.run_in(mod_, b, [bind])
                    if bind is not None:
                        return lambda *a, **k: self.run_in(mod_, b, [bind] + list(a), k)
                    return lambda *a, **k: self.run_in(mod_, b, list(a), k)
                if isinstance(b, ast.Assign) and len(b.targets) == 1 and isinstance(b.targets[0], ast.Name) and b.targets[0].id == name:
                    ent = m.classes[kk]["own"].get(name, {})
                    pats = ent.get("patterns")
                    if pats and pats[0].get("kind") in ("re_method", "re"):
                        rx = re.compile(pats[0]["pattern"], pats[0].get("flags", 0))
                        return getattr(rx, pats[0]["method"]) if pats[0].get("kind") == "re_method" else rx
                    if isinstance(b.value, ast.Call) and A.text(b.value.func) == "staticmethod" and b.value.args \
                            and isinstance(b.value.args[0], ast.Lambda):
                        return self.ev._closure(b.value.args[0], {})        # match = staticmethod(lambda s: True)
                    try:
                        return ast.literal_eval(b.value)
                    except Exception:
                        # e.g. `end_stmt_cls = EndModule`, `match = re.compile(...).match` not in the snapshot
                        if isinstance(b.value, ast.Name) and b.value.id in self.classes:
                            return ClassRef(self, self.classes[b.value.id])
                        try:
                            return self.ev.ev(b.value, {})
                        except PE.Unsupported:
                            raise PE.Unsupported("class attribute %s" % name)
        raise PE.Unsupported("attribute %s" % name)


class ClassRef(PE.Obj):
    def __init__(self, world, key):
        PE.Obj.__init__(self, {})
        self.world = world
        self.key = key

    def get(self, ev, name):
        if name == "__name__":
            return self.key.split(":")[1]
        return self.world.class_attr(self.key, name)

    def __call__(self, parent, item=None):
        """construct a statement of this class from an item (what Statement.__init__ does, then process_item)"""
        st = new_inst(self.world, self.key, item, parent)
        st.get(self.world.ev, "process_item")()
        return st

    def __repr__(self):
        return "<class %s>" % self.key.split(":")[1]


class Inst(PE.Obj):
    def __init__(self, world, cls_key, fields):
        PE.Obj.__init__(self, fields)
        self.world = world
        self.cls = ClassRef(world, cls_key)

    def get(self, ev, name):
        if name in self.fields:
            return self.fields[name]
        if name == "__class__":
            return self.cls
        return self.world.class_attr(self.cls.key, name, bind=self)

    def __str__(self):
        return str(print_stmt(self.world, self))

    def set_attr(self, ev, name, value):
        if name == "__class__":
            if not isinstance(value, ClassRef):
                raise PE.Unsupported("__class__ assigned a non-class")
            self.cls = value
        else:
            self.fields[name] = value


FORMAT = {"is_f77": False, "is_free": True, "is_fixed": False, "is_fix": False, "is_strict": False, "is_pyf": False, "mode": "free"}


def make_parent(world, construct_name=None):
    """what a statement needs of its parent block / the parser: nothing is read from the source through it"""
    put = []
    return PE.Obj({"item": None, "reader": PE.Obj({"format": PE.Obj(dict(FORMAT))}), "put_item": lambda it: put.append(it),
                   "get_item": lambda: None, "name": construct_name or "parent", "construct_name": construct_name, "typedecl": None,
                   "isvalid": True, "a": PE.Obj({}), "content": [], "blocktype": "parent", "put": put})


def make_item(world, line, label=None, name=None):
    base_item = one_taint._item_model(PE, line)
    item = ItemObj(base_item.fields)
    item.fields["label"] = label
    item.fields["name"] = name
    item.fields["span"] = (1, 1)
    item.fields["has_map"] = lambda: "F2PY_" in item.fields["get_line"]()
    item.fields["is_f2py_directive"] = False
    item.fields["reader"] = PE.Obj({"format": PE.Obj(dict(FORMAT)), "format_message": lambda kind, msg, *a, **k: (world.messages.append("%s: %s" % (kind, msg)) or "%s: %s" % (kind, msg)),
                                    "set_mode": lambda *a, **k: None, "warnings": []})

    def clone(text):
        new = one_taint._item_model(PE, item.fields["apply_map"](text))
        for k_ in ("line", "get_line", "apply_map"):
            item.fields[k_] = new.fields[k_]
    item.fields["clone"] = clone
    inner_copy = item.fields["copy"]

    def copy(l_=None, apply_map=False, **k_):
        text = item.fields["line"] if l_ is None else l_
        if apply_map or k_.get("apply_map"):
            text = item.fields["apply_map"](text)
        return make_item(world, text, label, name)
    item.fields["copy"] = copy
    return item


def new_inst(world, key, item, parent):
    m = world.m
    fields = {"item": item, "parent": parent, "top": None, "isvalid": True, "ignore": False, "a": PE.Obj({}),
              "reader": item.fields["reader"] if item is not None else parent.get(world.ev, "reader")}
    if not world.blocks:
        fields["get_indent_tab"] = lambda *a, **k: ""          # single statements: indentation and label are not part of the comparison
    st = Inst(world, key, fields)
    fields = st.fields
    fields.setdefault("warning", lambda *a, **k: None)
    fields.setdefault("error", lambda *a, **k: None)
    fields.setdefault("info", lambda *a, **k: None)
    if m.issub(key, m.key("EndStatement", BC)):
        try:
            world.class_attr(key, "blocktype")
        except PE.Unsupported:
            fields["blocktype"] = key.split(":")[1].lower()[3:]
    if m.issub(key, m.key("BeginStatement", BC)):
        fields["content"] = []
        fields["get_item"] = parent.get(world.ev, "get_item") if world.blocks else (lambda: None)
        fields["put_item"] = parent.get(world.ev, "put_item") if world.blocks else (lambda it: None)
        fields["warning"] = lambda *a, **k: None
        fields["error"] = lambda *a, **k: None
        fields["info"] = lambda *a, **k: None
        try:
            world.class_attr(key, "blocktype")
        except PE.Unsupported:
            fields["blocktype"] = key.split(":")[1].lower()
        try:
            world.class_attr(key, "name")
        except PE.Unsupported:
            fields["name"] = "__" + str(st.get(world.ev, "blocktype")).upper() + "__"
        fields["construct_name"] = item.fields.get("name") if item is not None else None
        fields.setdefault("top", None)
    return st


def make_stmt(world, key, line, construct_name=None, label=None, parent=None):
    item = make_item(world, line, label, construct_name)
    if parent is not None:
        pkey = world.m.key(parent[0], "fparser.one.block_statements")
        pst = new_inst(world, pkey, make_item(world, parent[1]), make_parent(world))
        pst.get(world.ev, "process_item")()
        pst.fields.setdefault("typedecl", None)
        return new_inst(world, key, item, pst)
    return new_inst(world, key, item, make_parent(world, construct_name))


def print_stmt(world, st):
    ev = world.ev
    begin = world.m.issub(st.cls.key, world.m.key("BeginStatement", BC))
    for meth in (("tostr",) if begin else ("tofortran", "tostr")):
        try:
            f = st.get(ev, meth)
        except PE.Unsupported:
            continue
        return f() if meth == "tostr" else f(isfix=None)
    raise PE.Unsupported("no printer")


def literals_and_groups(line):
    """the pieces whose text must be carried over: character literals (with their quotes, case kept) and top-level parenthesised groups
    (case-folded, blank-free outside literals)"""
    mapped, restore = one_taint._mini_map(line, lower=True)
    out = []
    for mo in re.finditer(r"(['\"])_F2PY_STRING_CONSTANT_\d+_\1|F2PY_EXPR_TUPLE_\d+", mapped):
        out.append(restore(mo.group(0)))
    return out


def squeeze(text):
    """remove blanks outside character literals"""
    out, q = [], None
    for ch in text:
        if q:
            out.append(ch)
            if ch == q:
                q = None
        elif ch in "'\"":
            q = ch
            out.append(ch)
        elif ch != " ":
            out.append(ch)
    return "".join(out)


# (class, sample line[, construct name]) -- every sample is valid Fortran for that statement class; the samples deliberately carry
# literals with delimiters in them and nested parenthesised expressions
SAMPLES = [
    ("Assignment", "x = y + f(a, 'p=q') * (b - c)"),
    ("Assignment", "a(i, j+1) = 'it''s' // c(k:)"),
    ("PointerAssignment", "p => t(1:n)"),
    ("Assign", "assign 10 to k"),
    ("Call", "call sub(a, f(b, c), 'x,y', key=(d+e))"),
    ("Call", "call sub"),
    ("Goto", "go to 100"),
    ("ComputedGoto", "go to (10, 20, 30), i + f(j)"),
    ("AssignedGoto", "go to k (10, 20)"),
    ("Continue", "continue"),
    ("Return", "return"),
    ("Return", "return 1"),
    ("Stop", "stop 'done'"),
    ("Stop", "stop 2"),
    ("Print", "print '(a,i3)', 'n = ', f(n, 1)"),
    ("Print", "print *, 'a,b', x(i)"),
    ("Read", "read (5, fmt='(a)', end=10) c, (a(i), i=1, n)"),
    ("Read", "read *, a, b(1:2)"),
    ("Write", "write (6, '(1x,a)') 'text: a=b', f(x, y)"),
    ("Write", "write (unit=lun, fmt=*, iostat=ios) g((a+b)*c)"),
    ("Flush", "flush (unit=10, iostat=n)"),
    ("Flush", "flush 10"),
    ("Wait", "wait (unit=10, id=k)"),
    ("Contains", "contains"),
    ("Allocate", "allocate (a(n, 2*(m+1)), b(0:k), stat=ierr)"),
    ("Deallocate", "deallocate (a, b(1)%p, stat=ierr)"),
    ("ModuleProcedure", "module procedure f, g"),
    ("Public", "public :: a, operator(.x.), assignment(=)"),
    ("Private", "private"),
    ("Close", "close (unit=10, status='keep, really')"),
    ("Cycle", "cycle outer"),
    ("Exit", "exit"),
    ("Rewind", "rewind (unit=f(1), err=20)"),
    ("Backspace", "backspace 10"),
    ("Endfile", "endfile (10)"),
    ("Open", "open (unit=10, file='a=b, c.txt', status=trim(s)//'x')"),
    ("Format", "format (1x, 'a(b)', 3(i2, ','), /)", None, None, 10),
    ("Save", "save a, /blk/, b"),
    ("Save", "save"),
    ("Data", "data a, b /1, 2/, c(1:2) /2*0/"),
    ("Nullify", "nullify (p, q%r(1))"),
    ("Use", "use mod, only: a, b => c, operator(.x.)"),
    ("Use", "use, intrinsic :: iso_c_binding"),
    ("Use", "use mod, x => y"),
    ("Parameter", "parameter (n = 3, s = 'a, b', m = f(n, (n+1)))"),
    ("Equivalence", "equivalence (a, b(1)), (c(2, 3), d)"),
    ("Dimension", "dimension a(10, 0:n), b(f(2, 3))"),
    ("Target", "target :: a, b(2, 3)"),
    ("Pointer", "pointer a, b(:, :)"),
    ("Protected", "protected :: a, b"),
    ("Volatile", "volatile a"),
    ("Value", "value :: x"),
    ("ArithmeticIf", "if (a(i) - f(b, c)) 10, 20, 30"),
    ("Intrinsic", "intrinsic :: sin, cos"),
    ("Inquire", "inquire (file='a,b', exist=ex(1))"),
    ("Inquire", "inquire (iolength=n) a, b(1:2)"),
    ("Sequence", "sequence"),
    ("External", "external f, g"),
    ("Namelist", "namelist /g/ a, b"),
    ("Common", "common /c/ a, b(2, 3) // d"),
    ("Optional", "optional :: a, b"),
    ("Intent", "intent (in out) :: a, b"),
    ("Entry", "entry e(a, b) result (r)"),
    ("Import", "import :: a, b"),
    ("Forall", "forall (i = 1:n, j = 1:m, a(i, j) > f(0, 1)) b(i, j) = c(j, i) + 'x'"),
    ("SpecificBinding", "procedure, pass(self), public :: f => g"),
    ("SpecificBinding", "procedure (iface), deferred :: h"),
    ("GenericBinding", "generic, public :: operator(+) => add, plus"),
    ("FinalBinding", "final :: clean, wipe"),
    ("Allocatable", "allocatable :: a(:), b(:, :)"),
    ("Asynchronous", "asynchronous a"),
    ("Bind", "bind (c, name='x_y') :: a, /blk/"),
    ("Else", "else"),
    ("Else", "else outer", "outer"),
    ("ElseIf", "else if (a .and. f(b, (c))) then"),
    ("Case", "case (1, 3:5, f('a,b'))"),
    ("Case", "case default"),
    ("TypeIs", "type is (real(kind=8))"),
    ("ClassIs", "class is (base_t)"),
    ("ClassIs", "class default"),
    ("Where", "where (a(:, 1) > f(0, 1)) b = c + (d)"),
    ("ElseWhere", "elsewhere (a < (0))"),
    ("ElseWhere", "else where"),
    ("Enumerator", "enumerator :: red = 1, blue = f(2, 3)"),
    ("Pause", "pause 'wait'"),
    ("Implicit", "implicit none"),
    ("Implicit", "implicit real (a-h, o-z), integer (i-n)"),
    ("Integer", "integer, dimension(n, 2*(m+1)), intent(in) :: a, b(f(1, 2)) = (/1, 2/)"),
    ("Integer", "integer*8 i, j"),
    ("Integer", "integer(kind=selected_int_kind(9)) :: k"),
    ("Real", "real(8), parameter :: pi = acos(-1.0_8), e(2) = (/1.0, 2.0/)"),
    ("DoublePrecision", "double precision x, y(3)"),
    ("Complex", "complex(kind(1d0)) :: z = (1.0, 2.0)"),
    ("DoubleComplex", "double complex w"),
    ("Character", "character(len=*), parameter :: s = 'a, b(c) = d'"),
    ("Character", "character*(n+1) a, b*(2*(m)), c*8"),
    ("Character", "character(len=f(n, 1), kind=ck) :: t(2)"),
    ("Logical", "logical :: flag = .true."),
    ("Byte", "byte b"),
    ("Type", "type(point) :: p, q(2, f(1, 2))"),
    ("Class", "class(shape), pointer :: s"),
    ("Class", "class(*), allocatable :: u"),
    ("Module", "module m"),
    ("Program", "program main"),
    ("BlockData", "block data bd"),
    ("BlockData", "block data"),
    ("Interface", "interface operator(.x.)"),
    ("Interface", "abstract interface"),
    ("Interface", "interface gen"),
    ("Subroutine", "recursive subroutine s(a, b, *) bind(c, name='s_c')"),
    ("Subroutine", "subroutine t"),
    ("Function", "pure function f(x, y) result(r)"),
    ("Function", "elemental function g(n) result(r)"),
    ("SelectCase", "select case (f(i, 'a,b'))"),
    ("SelectType", "select type (x => y%z(1))"),
    ("Where", "where (a > (0))", None, "block"),
    ("Forall", "forall (i = 1:n, a(i) /= f(0, 1))", None, "block"),
    ("IfThen", "if (a .or. g(b, (c))) then"),
    ("If", "if (a(i, 1) > 0) x = f(y, 'p,q')"),
    ("Do", "do 10 i = 1, f(n, 2), (k)"),
    ("Do", "do while (a(i) < g(1, 2))"),
    ("Do", "do"),
    ("Associate", "associate (x => a(1, 2) + b, y => c)"),
    ("Type", "type, extends(base), public :: derived", None, "block"),
    ("Type", "type :: t(k, l)", None, "block"),
    ("Enum", "enum, bind(c)"),
    # the same constructs with a bare name in the parentheses (a plain name is NOT hidden by the replace map)
    ("Where", "where (mask)", None, "block"),
    ("Where", "where (mask) a = b"),
    ("ElseWhere", "elsewhere (mask)"),
    ("Forall", "forall (i = 1:n)", None, "block"),
    ("SelectCase", "select case (k)"),
    ("SelectType", "select type (x)"),
    ("IfThen", "if (flag) then"),
    ("ElseIf", "else if (flag) then"),
    ("If", "if (flag) return"),
    ("Do", "do while (flag)"),
    ("Do", "do i = 1, n"),
    ("Case", "case (1)"),
    ("Case", "case (k) outer", "outer"),
    ("TypeIs", "type is (point)"),
    ("ClassIs", "class is (point)"),
    ("Associate", "associate (x => y)"),
    ("ArithmeticIf", "if (k) 10, 20, 30"),
    ("ComputedGoto", "go to (10, 20) k"),
    ("Allocate", "allocate (a)"),
    ("Nullify", "nullify (p)"),
    ("Call", "call sub(x)"),
    ("Intent", "intent (in) x"),
    ("Bind", "bind (c) :: a"),
    ("Parameter", "parameter (n = 1)"),
    ("Equivalence", "equivalence (a, b)"),
    ("Dimension", "dimension a(n)"),
    ("Common", "common a, b"),
    ("Data", "data x /1/"),
    ("Entry", "entry e"),
    ("Subroutine", "subroutine s(a)"),
    ("Function", "function f(x)"),
    ("Interface", "interface assignment(=)"),
    ("Use", "use m"),
    ("Character", "character tag*8", None, None, None, ("Function", "function tag(x)")),
    ("Real", "real tag", None, None, None, ("Function", "function f(tag)")),
    ("Integer", "integer n, m", None, None, None, ("Subroutine", "subroutine s(n)")),
]


# documented canonicalisations of fparser1's printers (explicit KIND=/LEN=, parentheses around a unit, optional commas, empty argument list)
CANONICAL = {
    ("ComputedGoto", "go to (10, 20, 30), i + f(j)"): "go to (10, 20, 30) i + f(j)",
    ("Flush", "flush 10"): "flush (10)",
    ("Backspace", "backspace 10"): "backspace (10)",
    ("Data", "data a, b /1, 2/, c(1:2) /2*0/"): "data a, b /1, 2/ c(1:2) /2*0/",
    ("Real", "real(8), parameter :: pi = acos(-1.0_8), e(2) = (/1.0, 2.0/)"): "real(kind=8), parameter :: pi = acos(-1.0_8), e(2) = (/1.0, 2.0/)",
    ("Complex", "complex(kind(1d0)) :: z = (1.0, 2.0)"): "complex(kind=kind(1d0)) :: z = (1.0, 2.0)",
    ("Character", "character*(n+1) a, b*(2*(m)), c*8"): "character(len=n+1) a, b*(2*(m)), c*8",
    ("Subroutine", "subroutine t"): "subroutine t()",
    ("Enum", "enum, bind(c)"): "enum, bind(c)",
}


def roundtrip_rule(m, rid, floor=90):
    r = RuleResult(rid, "fparser1 statement round trip by interpretation: for %d sample lines, process_item and the printer are interpreted on "
                        "a model of the reader item; the class accepts the line, every literal and parenthesised group re-appears in the "
                        "printed text, and printing / re-reading / printing is a fixpoint" % len(SAMPLES))
    r.floor = floor
    world = World(m)
    stmt_key = m.key("Statement", BC)
    for sample in SAMPLES:
        cname, line = sample[0], sample[1]
        cons = sample[2] if len(sample) > 2 else None
        variant = sample[3] if len(sample) > 3 else None
        label = sample[4] if len(sample) > 4 else None
        parent = sample[5] if len(sample) > 5 else None
        key = None
        if variant == "block":
            key = m.key(cname, "fparser.one.block_statements") if m.has_class(cname, "fparser.one.block_statements") else None
        else:
            for mod in ONE_MODULES:
                if m.has_class(cname, mod):
                    key = m.key(cname, mod)
                    break
        if key is None:
            r.error("fparser1 class %s vanished" % cname)
            continue
        world.classes[cname] = key
        r.instances += 1
        ident = "%s|%s" % (cname, line)

        def run(text):
            st = make_stmt(world, key, text, cons, label, parent)
            world.ev.steps = 0
            # the parser offers a line to a class only if the class-level `match` pattern accepts its tokenised form
            pat = one_taint.class_match_pattern(m, key)
            if pat is not None and not re.compile(pat[0], pat[1]).match(st.fields["item"].fields["get_line"]()):
                return None, st
            st.get(world.ev, "process_item")()
            if st.fields.get("isvalid") is not True or st.fields.get("ignore"):
                return None, st
            return print_stmt(world, st), st
        try:
            out1, st1 = run(line)
        except PE.Unsupported as err:
            r.undet("%s: %s" % (ident, err))
            continue
        except PE.PyRaise as err:
            r.ob(False)
            r.fail("%s|raises" % ident, "fparser1 %s: reading %r raises %s (interpreted process_item/printer): the statement is not accepted"
                   % (cname, line, err.exc_type), m.class_loc(key))
            continue
        if out1 is None:
            r.ob(False)
            r.fail("%s|rejected" % ident, "fparser1 %s.process_item marks the valid statement %r as not valid or to be ignored%s: it is missing "
                   "from the regenerated source" % (cname, line, " (inside `%s`)" % parent[1] if parent else ""), m.class_loc(key))
            continue
        if not isinstance(out1, str):
            r.undet("%s: the printer gave %r" % (ident, type(out1).__name__))
            continue
        # token level: apart from blanks, letter case and an optional '::', the printed statement is the source statement -- or the
        # documented canonical form listed for that sample
        def norm(t):
            return squeeze(t).lower().replace("::", "")
        want_text = CANONICAL.get((cname, line), line)
        if norm(out1) != norm(want_text):
            r.ob(False)
            r.fail("%s|tokens" % ident, "fparser1 %s: %r is printed as %r; apart from blanks, case and '::' the text should be %r: tokens "
                   "of the statement are dropped, added or changed" % (cname, line, out1, want_text), m.class_loc(key))
            continue
        sq = squeeze(out1)
        lost = [p for p in literals_and_groups(line) if squeeze(p) not in sq and squeeze(p).lower() not in sq.lower()]
        ok = not lost
        if lost:
            r.ob(False)
            r.fail("%s|carry-over" % ident, "fparser1 %s: %r is printed as %r: the piece %r of the source does not re-appear (expression text "
                   "must be carried over unchanged)" % (cname, line, out1, lost[0]), m.class_loc(key))
            continue
        # fixpoint
        try:
            out2, _ = run(out1.strip())
        except PE.Unsupported as err:
            r.undet("%s (second pass): %s" % (ident, err))
            continue
        except PE.PyRaise as err:
            out2 = "raises %s" % err.exc_type
        ok = out2 is not None and isinstance(out2, str) and out2.strip() == out1.strip()
        r.ob(ok, "%s: %r -> %r" % (cname, line, out1) if r.obligations % 12 == 0 else None)
        if not ok:
            r.fail("%s|fixpoint" % ident, "fparser1 %s: %r is printed as %r, which the same class then %s: the regenerated source does not "
                   "regenerate to the same statement" % (cname, line, out1, "rejects" if out2 is None else "prints as %r" % (out2,)),
                   m.class_loc(key))
    return r


# ---------------------------------------------------------------------------------------------------------------
# fparser1 block structure: BeginStatement.fill / process_subitem interpreted over small programs read from a model queue
def _split_label(line):
    label = name = None
    line = line.strip()
    mo = re.match(r"\s*(\d+)\s+(.*)", line)
    if mo:
        label, line = int(mo.group(1)), mo.group(2)
    mo = re.match(r"(\w+)\s*:\s*(?!:)(.*)", line)
    if mo and not re.match(r"\w+\s*::", line):
        name, line = mo.group(1), mo.group(2)
    return line.strip(), label, name


BLOCK_SAMPLES = [
    ("Subroutine", ["subroutine s(a, n)", "integer n", "do 20 i = 1, n", "do 10 j = 1, n", "a(i, j) = 0", "10 continue", "20 continue",
                    "if (n > 0) then", "x = 1", "else if (n < 0) then", "x = 3", "else", "x = 2", "end if", "end subroutine s"]),
    ("Subroutine", ["subroutine t(a, n)", "do 10 i = 1, n", "do 10 j = 1, n", "a(i, j) = 0", "10 continue", "x = 1", "end subroutine t"]),
    ("Subroutine", ["subroutine u(a, n)", "do i = 1, n", "do 10 j = 1, n", "a(i, j) = 0", "10 continue", "end do", "end subroutine u"]),
    ("Subroutine", ["subroutine v(a, n)", "do 30 i = 1, n", "do 20 j = 1, n", "do 20 k = 1, n", "a(i, j) = k", "20 continue", "30 a(i, 1) = 0", "end subroutine v"]),
    ("Subroutine", ["subroutine w(k)", "select case (k)", "case (1)", "x = 1", "case default", "x = 2", "end select", "where (m > 0)", "b = 1",
                    "elsewhere", "b = 2", "end where", "forall (i = 1:n)", "c(i) = i", "end forall", "if (k > 0) x = 3", "end subroutine w"]),
    ("Module", ["module m", "implicit none", "type t", "integer :: i", "end type t", "interface g", "module procedure g1", "end interface g",
                "contains", "subroutine g1(x)", "real x", "end subroutine g1", "function f(y) result(r)", "r = y", "end function f", "end module m"]),
    ("Program", ["program p", "outer: do i = 1, 3", "if (i == 2) cycle outer", "inner: do", "exit inner", "end do inner", "end do outer",
                 "associate (z => i)", "z = 1", "end associate", "end program p"]),
    ("Function", ["function f(x)", "real f, x", "f = x", "return", "end function f"]),
    ("Function", ["function tag(x)", "character tag*8", "integer x", "tag = 'a'", "end function tag"]),
    ("Function", ["function g(n)", "integer g", "g = n", "end function g"], -1),      # the type moves into the FUNCTION statement
    ("Function", ["integer function h(n)", "h = n", "end function h"]),
]


def _run_block(world, m, cname, lines):
    """read the lines as fparser1's top level does: a BeginSource block over a queue of item models"""
    key = m.key("BeginSource", "fparser.one.block_statements")
    queue = []
    for l in lines:
        text, label, name = _split_label(l)
        queue.append(make_item(world, text, label, name))
    parent = make_parent(world)
    parent.fields["get_item"] = lambda: (queue.pop(0) if queue else None)
    parent.fields["put_item"] = lambda it: queue.insert(0, it)
    parent.fields["reader"] = PE.Obj({"format": PE.Obj(dict(FORMAT)), "name": "<model>", "format_message": lambda kind, msg, *a, **k: "%s: %s" % (kind, msg),
                                      "set_mode": lambda *a, **k: None})
    st = new_inst(world, key, None, parent)
    world.ev.steps = 0
    st.get(world.ev, "process_item")()
    return st, queue


def _program_text(world, st):
    return "\n".join(str(c.get(world.ev, "tofortran")(isfix=False)) for c in st.fields.get("content", []) if isinstance(c, Inst))


def _structure(world, st, depth=0):
    out = []
    for c in st.fields.get("content", []):
        if isinstance(c, Inst):
            out.append((depth, c.cls.key.split(":")[1]))
            if "content" in c.fields:
                out += _structure(world, c, depth + 1)
        else:
            out.append((depth, "<unparsed line>"))
    return out


def block_structure_rule(m, rid):
    r = RuleResult(rid, "fparser1 block structure by interpretation: BeginStatement.fill / process_subitem and the statement classes are "
                        "interpreted over %d small programs read from a model queue; every line is consumed by the block it belongs to, the "
                        "regenerated program is accepted again, nests the same statements in the same blocks and regenerates to itself"
                        % len(BLOCK_SAMPLES))
    r.floor = len(BLOCK_SAMPLES) - 1
    world = World(m)
    world.blocks = True
    world.ev.max_steps = 30000000
    for sample in BLOCK_SAMPLES:
        cname, lines = sample[0], sample[1]
        delta = sample[2] if len(sample) > 2 else 0
        r.instances += 1
        ident = "%s|%s" % (cname, lines[0])
        try:
            st1, left1 = _run_block(world, m, cname, lines)
            text1 = _program_text(world, st1)
            s1 = _structure(world, st1)
            lines2 = [l_ for l_ in text1.split("\n") if l_.strip()]
            st2, left2 = _run_block(world, m, cname, lines2)
            text2 = _program_text(world, st2)
            s2 = _structure(world, st2)
        except PE.Unsupported as err:
            r.undet("%s: %s" % (ident, err))
            continue
        except PE.PyRaise as err:
            r.ob(False)
            r.fail("%s|block|raises" % ident, "fparser1: reading the program that starts `%s` (or its regenerated form) raises %s%s"
                   % (lines[0], err.exc_type, ": " + world.messages[-1][:120] if world.messages else ""), m.class_loc(m.key(cname, "fparser.one.block_statements")))
            world.messages[:] = []
            continue
        why = None
        if left1 or left2:
            why = "%d line(s) are left unread after the block closed" % len(left1 or left2)
        elif len([l_ for l_ in text1.split("\n") if l_.strip()]) != len(lines) + delta:
            why = "the regenerated program has %d lines for %d source lines (%r ...)" % (len([l_ for l_ in text1.split(chr(10)) if l_.strip()]), len(lines),
                                                                                       [l_.strip() for l_ in text1.split("\n")][:12])
        elif s1 != s2:
            why = "the regenerated program nests its statements differently: %s vs %s" % (s1[:10], s2[:10])
        elif text1 != text2:
            why = "the regenerated program regenerates to different text"
        r.ob(why is None, "%s: %d lines, %d statements nested to depth %d" % (lines[0], len(lines), len(s1), max(d for d, _ in s1) if s1 else 0))
        if why:
            r.fail("%s|block|structure" % ident, "fparser1, program starting `%s`: %s" % (lines[0], why),
                   m.class_loc(m.key(cname, "fparser.one.block_statements")))
    return r
